#!/bin/sh
# Offline setup: nothing to build; verify the tools the checks rely on and that every spec parses.
set -e
cd "$(dirname "$0")"
command -v java >/dev/null
test -f /opt/veriftools/tla/tla2tools.jar
/venv/bin/python -c "import pydicom, six, hypothesis"
for f in specs/*.tla; do
  m=$(basename "$f" .tla)
  (cd specs && java -cp /opt/veriftools/tla/tla2tools.jar:/opt/veriftools/tla/CommunityModules-deps.jar tla2sany.SANY "$m.tla" >/tmp/sany_$m.log 2>&1) || { cat /tmp/sany_$m.log; exit 1; }
done
mkdir -p evidence replays
echo setup ok
