------------------------------- MODULE Framing -------------------------------
(* C03: framing of the peer's byte stream is independent of TCP segmentation.                 *)
(* The peer's stream is the concatenation of NP PDUs; byte i of PDU p is the token <<p, i>>.  *)
(* A PDU is 6 header bytes + body; the header (complete only when all 6 bytes are present)    *)
(* declares the body length.  The network delivers the stream in arbitrary segments          *)
(* (Recv(n)); the provider slices exactly one PDU off the front of its buffer when header and *)
(* body are complete (Frame) - dulprovider._check_incoming_pdu / _process_incoming.           *)
(* TLC explores EVERY delivery schedule and every interleaving of Recv and Frame.             *)
EXTENDS Naturals, Sequences, FiniteSets

CONSTANTS Lens          \* sequence of PDU total lengths, each >= 6
LensSmall == <<6, 7, 9>>
LensBig == <<7, 6, 10, 8>>
NP == Len(Lens)
Pdu(p) == [i \in 1..Lens[p] |-> <<p, i>>]
RECURSIVE Cat(_)
Cat(ss) == IF ss = <<>> THEN <<>> ELSE Head(ss) \o Cat(Tail(ss))
Stream == Cat([p \in 1..NP |-> Pdu(p)])

VARIABLES net, raw, recognised
vars == <<net, raw, recognised>>

Init == net = Stream /\ raw = <<>> /\ recognised = <<>>

Recv(n) == /\ n \in 1..Len(net)
           /\ raw' = raw \o SubSeq(net, 1, n) /\ net' = SubSeq(net, n + 1, Len(net))
           /\ UNCHANGED recognised

(* the declared length is readable only from a complete header: the 6 first bytes of the PDU *)
HeaderComplete == Len(raw) >= 6
Declared == Lens[raw[1][1]]
Frame == /\ HeaderComplete /\ Len(raw) >= Declared
         /\ recognised' = Append(recognised, SubSeq(raw, 1, Declared))
         /\ raw' = SubSeq(raw, Declared + 1, Len(raw))
         /\ UNCHANGED net

Next == (\E n \in 1..Len(net) : Recv(n)) \/ Frame
Spec == Init /\ [][Next]_vars /\ WF_vars(Frame) /\ WF_vars(\E n \in 1..Len(net) : Recv(n))

(* no byte lost, duplicated or reordered, whatever the schedule *)
Conservation == Cat(recognised) \o raw \o net = Stream
(* what has been recognised is a prefix of the PDUs sent, each one whole *)
PrefixOfSent == \A k \in 1..Len(recognised) : recognised[k] = Pdu(k)
(* the buffer always starts on a PDU boundary *)
Aligned == raw # <<>> => raw[1][2] = 1
(* every schedule ends with all PDUs recognised *)
AllRecognised == <>(Len(recognised) = NP /\ raw = <<>> /\ net = <<>>)
=============================================================================
