SPECIFICATION TraceSpec
POSTCONDITION Report
