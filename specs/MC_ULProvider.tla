---------------------------- MODULE MC_ULProvider ----------------------------
(* Closed system round ULProvider for exhaustive checking: a peer that may send any PDU kind   *)
(* (budgeted), cut anywhere by the network, close at any time; a user that issues only what is *)
(* legal in the state it sees; a clock.  Budgets are consumable counters (a finite environment *)
(* is an assumption, not a state constraint); time is never budgeted.                          *)
EXTENDS ULProvider

CONSTANTS Role, PeerBudget, UserBudget, Faults
VARIABLES nPeer, nUser
mcvars == <<vars, nPeer, nUser>>

F(k, f, pdvs, grey) == [k |-> k, f |-> f, pdvs |-> pdvs, len |-> 2, grey |-> grey]
Pdv(fl, m) == [fl |-> fl, m |-> m]
GoodFrames ==
  { F("RQ", <<>>, <<>>, FALSE), F("AC", <<>>, <<>>, FALSE), F("RJ", <<1, 1, 1>>, <<>>, FALSE),
    F("RLRQ", <<>>, <<>>, FALSE), F("RLRP", <<>>, <<>>, FALSE), F("AB", <<0, 0>>, <<>>, FALSE),
    F("PD", <<>>, <<Pdv("C0", 1)>>, FALSE), F("PD", <<>>, <<Pdv("C1", 2)>>, FALSE),
    F("PD", <<>>, <<Pdv("Dl", 2)>>, FALSE) }
BadFrames == IF Faults THEN { F("UNK", <<>>, <<>>, FALSE), F("PD", <<>>, <<Pdv("C0", 3)>>, TRUE),
                              F("RQ", <<>>, <<>>, TRUE), F("AB", <<0, 0>>, <<>>, TRUE) } ELSE {}
Frames == GoodFrames \cup BadFrames

U(k, f) == [k |-> k, f |-> f, pdvs |-> <<>>, grey |-> FALSE]
UserItems ==
  { U("RQ", <<>>), U("AC", <<>>), U("RJ", <<1, 2, 3>>), U("RLRQ", <<>>), U("RLRP", <<>>), U("AB", <<0, 0>>),
    [k |-> "GEN", frags |-> <<U("PD", <<1>>)>>], [k |-> "GEN", frags |-> <<U("PD", <<2>>), U("PD", <<3>>)>>] }
  \cup (IF Faults THEN { [k |-> "GEN", frags |-> <<U("BAD", <<>>)>>], [k |-> "GEN", frags |-> <<U("PD", <<4>>), U("BAD", <<>>)>>] } ELSE {})

Legal(it) ==
  LET k == IF it.k = "GEN" THEN "PD" ELSE it.k IN
  /\ Defined(EvtOfPrim(k), st)
  /\ (k = "RQ" => isReq /\ nUser = 0)

MCInit == InitFor(Role) /\ nPeer = 0 /\ nUser = 0

MCPeerSend == \E fr \in Frames :
  /\ nPeer < PeerBudget /\ sock = "open" /\ st # 4
  /\ PeerSend(<<fr>>, 2) /\ nPeer' = nPeer + 1 /\ UNCHANGED nUser
MCArrive == \E n \in 1..2 : Arrive(n) /\ UNCHANGED <<nPeer, nUser>>
MCPeerFin == sock = "open" /\ st # 4 /\ PeerFin /\ UNCHANGED <<nPeer, nUser>>
MCUser == \E it \in UserItems :
  /\ nUser < UserBudget /\ uq = <<>> /\ gen = <<>> /\ evq = <<>> /\ Legal(it)
  /\ UserPut(it) /\ nUser' = nUser + 1 /\ UNCHANGED nPeer
MCTick == Tick /\ UNCHANGED <<nPeer, nUser>>
MCPeerReset == Faults /\ sock = "open" /\ st # 4 /\ PeerReset /\ UNCHANGED <<nPeer, nUser>>
Sources == {"none", "conn", "frame", "eof", "user", "timer"}
B(c) == IF c THEN BOOLEAN ELSE {FALSE}
MCIterate == \E rcv \in BOOLEAN, src \in Sources, inv \in B(Faults), fail \in B(Faults), sf \in B(wdead) :
  /\ (evq # <<>> => (~rcv /\ src = "none"))            \* pinned loop shape: poll only when nothing is pending
  /\ \E mi \in (IF Faults THEN {<<>>, <<[k |-> "MSG", f |-> <<0>>]>>} ELSE {<<>>}) :
        Iterate(rcv, src, <<0, 0>>, <<0, 0>>, inv, fail, mi, sf)
  /\ UNCHANGED <<nPeer, nUser>>

MCPeerDeaf == Faults /\ sock = "open" /\ st # 4 /\ PeerDeaf /\ UNCHANGED <<nPeer, nUser>>
MCNext == MCPeerSend \/ MCArrive \/ MCPeerFin \/ MCPeerReset \/ MCPeerDeaf \/ MCUser \/ MCTick \/ MCIterate
MCSpec == MCInit /\ [][MCNext]_mcvars /\ WF_mcvars(MCIterate) /\ WF_mcvars(MCTick) /\ WF_mcvars(MCArrive)

(* liveness: the provider always comes home *)
Sta13Leaves == (st = 13) ~> (st = 1)
Sta2Leaves  == (st = 2) ~> (st # 2)
FinHome     == (peerFin /\ sock = "open") ~> (st = 1 /\ sock = "none")
EvqShort    == Len(evq) <= 1
MCPData     == [][ /\ (\E x \in 1..Len(out'.wire) : out'.wire[x].k = "PD") => st \in {6, 8}
                   /\ (\E x \in 1..Len(out'.ind) : out'.ind[x].k = "MSG") => st \in {6, 7} ]_mcvars
MCNoIndAfterEnd == [][ (ended /\ user # "assoc") => out'.ind = <<>> ]_mcvars
=============================================================================
