SPECIFICATION MCSpec
CONSTANTS Role = TRUE
 PeerBudget = 5
 UserBudget = 5
 Faults = FALSE
INVARIANT TypeOK
