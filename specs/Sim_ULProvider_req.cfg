SPECIFICATION MCSpec
CONSTANTS
  ReadMax = 0 Role = TRUE
 PeerBudget = 5
 UserBudget = 5
 Faults = FALSE
INVARIANT TypeOK
