SPECIFICATION TraceSpec
CONSTANT CodeSet <- Boundary
POSTCONDITION Report
