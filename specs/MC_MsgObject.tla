---------------------------- MODULE MC_MsgObject ----------------------------
(* All operation sequences of bounded length on a message object of every class; each complete    *)
(* sequence is printed and replayed on real message objects by the harness.                        *)
EXTENDS MsgObject, Json
CONSTANTS Depth, Lens
VARIABLE hist
mcvars == <<vars, hist>>
MCInit == (\E c \in 1..23 : InitWith(c)) /\ hist = <<>>
Op(o) == hist' = Append(hist, o) /\ Len(hist) < Depth
MCNext ==
  \/ \E n \in Lens : SetA(n) /\ Op([op |-> "A", n |-> n])
  \/ \E n \in Lens : SetB(n) /\ Op([op |-> "B", n |-> n])
  \/ \E v \in {"none", "empty", "bytes"} : SetDataSet(v) /\ Op([op |-> "DS", v |-> v])
  \/ /\ Op([op |-> "SEND"])
     /\ LET after == 100 + Pad(la) + Pad(lb)          \* any base: the harness measures the real one
            nd == IF ds = "bytes" THEN 1 ELSE 0
        IN Send(after, after, TRUE, Code[cls], IF nd = 0 THEN NoDataSet ELSE 1, nd, Pad(la), Pad(lb))
MCSpec == MCInit /\ [][MCNext]_mcvars
FlagConsistent == out.sent => ((out.flag = NoDataSet) <=> (out.ndata = 0))
Emit == (Len(hist) = Depth /\ hist[Depth].op = "SEND") => PrintT("@@" \o ToJson([cls |-> cls, ops |-> hist]) \o "@@")
=============================================================================
