SPECIFICATION Spec
CONSTANTS N = 2
 Shared = TRUE
 Tables <- TablesSmall
INVARIANT OwnAssociationOwnData
CONSTRAINT Bound
