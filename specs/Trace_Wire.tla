----------------------------- MODULE Trace_Wire -----------------------------
(* C01 / C02: TLC judges what the library did with a structure of Wire.tla's vocabulary.       *)
(* One case per "trace" (a single event):                                                     *)
(*   s    the structure (any structure, also seeded random ones outside the enumerated set)   *)
(*   ref  bytes produced by harness/wire_ref.py          -> must equal Enc(s) (certification) *)
(*   lib  bytes produced by the library's encode()       -> must equal Enc(s) up to AE-title  *)
(*        padding (NUL and SPACE are both insignificant, PS3.8 9.3.2)                          *)
(*   dec  structure projected from the library's decode(Enc(s))   -> must equal s             *)
(*   rt   structure projected from decode(encode(x))              -> must equal s             *)
(*   re   decode(b).encode() = b for the library's own bytes       -> must be TRUE             *)
(*   tl   the library's total_length() = number of bytes emitted   -> must be TRUE             *)
(* The verdict names the first clause that fails.                                              *)
EXTENDS Wire, IOUtils, TLCExt

Cases == JsonDeserialize(IOEnv.TRACE_FILE)
VARIABLES tid, l, bad
tvars == <<s, tid, l, bad>>

NormB(b) == [i \in 1..Len(b) |-> IF b[1] \in {1, 2} /\ i \in 11..42 /\ b[i] = 0 THEN 32 ELSE b[i]]
NormS(x) == IF x.t \in {1, 2}
            THEN [x EXCEPT !.called = [i \in 1..16 |-> IF i <= Len(@) /\ @[i] # 0 THEN @[i] ELSE 32],
                           !.calling = [i \in 1..16 |-> IF i <= Len(@) /\ @[i] # 0 THEN @[i] ELSE 32]]
            ELSE x

Judge(c) ==       \* the sequence of all clauses that fail
  LET e == Enc(NormS(c.s))
      F(cond, name) == IF cond THEN <<name>> ELSE <<>> IN
  IF c.ref # e THEN <<"reference-encoder-differs-from-Enc">>
  ELSE IF Dec(e) # NormS(c.s) THEN <<"Dec(Enc(s))#s">>
  ELSE F(~c.libOk, "library-encode-raised")
    \o F(c.libOk /\ NormB(c.lib) # NormB(e), "library-bytes-differ-from-standard-layout")
    \o F(c.libOk /\ ~c.tl, "total_length-differs-from-bytes-emitted")
    \o F(~c.decOk, "library-decode-of-standard-encoding-raised")
    \o F(c.decOk /\ NormS(c.dec) # NormS(c.s), "library-decode-of-standard-encoding-differs")
    \o F(c.libOk /\ ~c.rtOk, "round-trip-decode-raised")
    \o F(c.libOk /\ c.rtOk /\ NormS(c.rt) # NormS(c.s), "round-trip-differs")
    \o F(c.libOk /\ c.rtOk /\ ~c.re, "re-encoding-differs")

TraceInit == /\ tid \in 1..Len(Cases) /\ l = 1 /\ bad = <<>> /\ s = Cases[tid][1].s
             /\ TLCSet(tid, [reached |-> 0, inv |-> <<>>])
TraceNext == /\ l = 1 /\ l' = 2 /\ tid' = tid /\ s' = s
             /\ bad' = Judge(Cases[tid][1])
             /\ TLCSet(tid, [reached |-> 1, inv |-> bad'])
TraceSpec == TraceInit /\ [][TraceNext]_tvars
Report == \A i \in 1..Len(Cases) :
   PrintT("@@" \o ToJson([tid |-> i, reached |-> TLCGet(i).reached, len |-> 1, inv |-> TLCGet(i).inv]) \o "@@")
=============================================================================
