SPECIFICATION Spec
CONSTANT Mode = "ui2"
INVARIANT RoundTrip
INVARIANT TotalLength
INVARIANT LengthsExact
INVARIANT Emit
