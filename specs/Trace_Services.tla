--------------------------- MODULE Trace_Services ---------------------------
EXTENDS Services, Json, IOUtils, TLCExt
Traces == JsonDeserialize(IOEnv.TRACE_FILE)
VARIABLES tid, l
tvars == <<vars, tid, l>>
Tr == Traces[tid]
Ev == Tr[l]
IsEvent(name) == l <= Len(Tr) /\ Ev.ev = name
TraceInit == /\ tid \in 1..Len(Traces) /\ l = 2 /\ Traces[tid][1].ev = "Req"
             /\ InitWith(Traces[tid][1].svc, Traces[tid][1].req)
             /\ TLCSet(tid, [reached |-> 1, inv |-> ""])
TraceNext ==
  /\ \/ IsEvent("Handler") /\ Handler(Ev.status)
     \/ IsEvent("Match") /\ Match(Ev.d, Ev.s)
     \/ IsEvent("Inst") /\ Inst(Ev.d, Ev.ctx, Ev.mid, Ev.cls, Ev.inst, Ev.dest, Ev.ehe)
     \/ IsEvent("Rsp") /\ (RspSimple(Ev.r) \/ RspFind(Ev.r) \/ RspMove(Ev.r, Ev.total))
     \/ IsEvent("SubRsp") /\ SubRsp(Ev.r)
     \/ IsEvent("SubStore") /\ SubStore(Ev.d, Ev.dest)
     \/ IsEvent("Got") /\ (GotFind(Ev.d, Ev.s, Ev.wire) \/ GotGet(Ev.d))
     \/ IsEvent("End") /\ End(Ev.sent, Ev.drained)
  /\ l' = l + 1 /\ tid' = tid
  /\ IF TLCGet(tid).reached < l THEN TLCSet(tid, [reached |-> l, inv |-> ""]) ELSE TRUE
TraceSpec == TraceInit /\ [][TraceNext]_tvars
Report == \A i \in 1..Len(Traces) :
   PrintT("@@" \o ToJson([tid |-> i, reached |-> TLCGet(i).reached, len |-> Len(Traces[i]), inv |-> TLCGet(i).inv]) \o "@@")
=============================================================================
