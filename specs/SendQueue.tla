------------------------------ MODULE SendQueue ------------------------------
(* Association.send hands the provider thread a LAZY generator over the message object: the     *)
(* command set and data set are encoded only when the provider thread iterates it.  A provider  *)
(* loop that sends one response per match (qr_find_scp, qr_move_scp) and REUSES the response    *)
(* object races with that thread.  TLC explores every interleaving of the application thread    *)
(* (Fill, Send) and the provider thread (Drain).                                                *)
EXTENDS Naturals, Sequences
CONSTANTS N,        \* number of matches
          Reuse     \* TRUE: one response object for all matches (the pinned code), FALSE: a fresh one each
VARIABLES k, obj, q, wire, filled
vars == <<k, obj, q, wire, filled>>
Init == k = 1 /\ obj = [o \in 1..N |-> 0] /\ q = <<>> /\ wire = <<>> /\ filled = FALSE
O(i) == IF Reuse THEN 1 ELSE i
Fill == k <= N /\ ~filled /\ obj' = [obj EXCEPT ![O(k)] = k] /\ filled' = TRUE /\ UNCHANGED <<k, q, wire>>
Send == k <= N /\ filled /\ q' = Append(q, O(k)) /\ k' = k + 1 /\ filled' = FALSE /\ UNCHANGED <<obj, wire>>
Drain == q # <<>> /\ wire' = Append(wire, obj[Head(q)]) /\ q' = Tail(q) /\ UNCHANGED <<k, obj, filled>>
Next == Fill \/ Send \/ Drain
Spec == Init /\ [][Next]_vars /\ WF_vars(Drain)
(* what is encoded is what the application had put in the message when it sent it *)
Delivery == \A i \in 1..Len(wire) : wire[i] = i
=============================================================================
