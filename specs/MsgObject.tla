----------------------------- MODULE MsgObject -----------------------------
(***************************************************************************)
(* The command-set object of a DIMSE message over its life (PS3.7 6.3,     *)
(* 9.3, 10.3; PS3.5 7.1): fields are set, a data set is attached, removed  *)
(* or replaced, the message is sent, fields change, it is sent again (as   *)
(* the C-FIND and C-MOVE providers do with one response object).           *)
(*                                                                         *)
(* Abstract state: the class (1..23), the padded value length of two       *)
(* variable fields (a UID each; odd lengths are padded to even on the      *)
(* wire), the data set attached ("none" | "empty" | "bytes"), and what a   *)
(* Send puts on the wire: [glen, after, ascending, code, flag, ndata].     *)
(***************************************************************************)
EXTENDS Naturals, Sequences, TLC

(* PS3.7 9.3 / 10.3 Command Field values, by class index *)
Code == << 1, 32769,      \* C-STORE-RQ 0001H, -RSP 8001H
           16, 32784,     \* C-GET 0010H / 8010H
           32, 32800,     \* C-FIND 0020H / 8020H
           33, 32801,     \* C-MOVE 0021H / 8021H
           48, 32816,     \* C-ECHO 0030H / 8030H
           256, 33024,    \* N-EVENT-REPORT 0100H / 8100H
           272, 33040,    \* N-GET 0110H / 8110H
           288, 33056,    \* N-SET 0120H / 8120H
           304, 33072,    \* N-ACTION 0130H / 8130H
           320, 33088,    \* N-CREATE 0140H / 8140H
           336, 33104,    \* N-DELETE 0150H / 8150H
           4095 >>        \* C-CANCEL 0FFFH
NoDataSet == 257          \* 0101H
Pad(n) == n + (n % 2)

VARIABLES cls, la, lb, ds, out
vars == <<cls, la, lb, ds, out>>
NoOut == [sent |-> FALSE, flag |-> 0, ndata |-> 0]

InitWith(c) == cls = c /\ la = 0 /\ lb = 0 /\ ds = "none" /\ out = NoOut
SetA(n) == la' = n /\ out' = NoOut /\ UNCHANGED <<cls, lb, ds>>
SetB(n) == lb' = n /\ out' = NoOut /\ UNCHANGED <<cls, la, ds>>
SetDataSet(v) == ds' = v /\ out' = NoOut /\ UNCHANGED <<cls, la, lb>>
(* A Send is described by what an independent reader measures on the wire:                 *)
(*   glen  value of (0000,0000);  after  bytes that follow that element in the command set *)
(*   asc   tags strictly ascending;  code  value of (0000,0100);  flag  value of (0000,0800) *)
(*   ndata number of data-set fragments that followed                                       *)
Send(glen, after, asc, code, flag, ndata, lenA, lenB) ==
  /\ glen = after                                   \* group length = bytes following the element
  /\ asc
  /\ code = Code[cls]
  /\ (flag = NoDataSet) <=> (ndata = 0)             \* "no data set" exactly when none follows
  /\ (ndata > 0) <=> (ds = "bytes")                 \* a data set follows iff one is attached now
  /\ lenA = Pad(la) /\ lenB = Pad(lb)               \* the fields on the wire are the current ones
  /\ out' = [sent |-> TRUE, flag |-> flag, ndata |-> ndata]
  /\ UNCHANGED <<cls, la, lb, ds>>

(* A transmission whose bytes are produced LATER than the send() call (the provider thread encodes lazily) or while     *)
(* other threads are sending: which state of the object it shows is not fixed, but what goes out must still be ONE      *)
(* well-formed command group, consistent with the data fragments that follow it.                                        *)
LSend(glen, after, asc, code, flag, ndata) ==
  /\ glen = after
  /\ asc
  /\ code = Code[cls]
  /\ (flag = NoDataSet) <=> (ndata = 0)
  /\ out' = [sent |-> TRUE, flag |-> flag, ndata |-> ndata]
  /\ UNCHANGED <<cls, la, lb, ds>>
=============================================================================
