SPECIFICATION MCSpec
CONSTANTS MaxLc = 3
 MaxLd = 4
 Maxes = {7, 8, 9}
INVARIANT ReassembledEqualsSent
INVARIANT CompletionExact
INVARIANT NothingBeforeEnd
INVARIANT OneLastPerStream
INVARIANT CommandBeforeData
INVARIANT SenderNeverStuck
INVARIANT Emit
