----------------------------- MODULE AssocLife -----------------------------
(***************************************************************************)
(* The life of ONE association seen from both applications: two            *)
(* application threads, two upper-layer providers (each one the PS3.8      *)
(* Table 9-10 machine of ULFsm), one transport connection.                 *)
(*                                                                         *)
(* Library contract modelled (asceprovider / applicationentity):           *)
(*   requesting application: `with ae.request_association(r) as a:` -      *)
(*     request() puts A-ASSOCIATE-RQ and waits for the confirmation;       *)
(*     send() puts P-DATA; receive() takes the next indication and raises  *)
(*     on A-ABORT / A-RELEASE-RQ; abort(r) puts A-ABORT(0, r) and stops    *)
(*     the provider; leaving the block normally releases (RLRQ, take the   *)
(*     next indication, stop), leaving through an exception aborts (0, 0). *)
(*   accepting handler: hook refuses (RJ with the triple given) or         *)
(*     accepts; loop: receive() -> service; A-RELEASE-RQ is answered with  *)
(*     A-RELEASE-RP; a service may respond, abort(r) = A-ABORT(2, r), or   *)
(*     release().                                                          *)
(* Providers work asynchronously: requests wait in uq, indications in ind; *)
(* every PDU is handled by Cell(event, state) of ULFsm - collisions and    *)
(* requests arriving in a state where they are not defined are therefore   *)
(* part of the model, not excluded from it.  Stopping a provider (kill)    *)
(* waits until its request queue is empty; the socket of a stopped         *)
(* provider is closed some time later.  A write to a connection the peer   *)
(* has closed fails and is handled as "transport closed" (Evt17).          *)
(***************************************************************************)
EXTENDS ULFsm, TLC

CONSTANTS Triples,      \* (result, source, reason) triples an application may refuse with
          Reasons,      \* abort reasons an application may give
          MaxReq,       \* requests the requesting application sends at most
          Timeouts,     \* BOOLEAN: blocked receives may give up (DCMTimeoutError)
          Strict        \* BOOLEAN: one response per request, awaited only while one is outstanding (the echo / store
                        \* discipline explored by TLC); FALSE when validating arbitrary traffic (C-FIND: many responses
                        \* per request; a service may return without answering)

VARIABLES app, st, alive, sock, uq, ind, net, wrote,
          rqErr, acErr, entered, svc, nreq, out, responded, given, acted

vars == <<app, st, alive, sock, uq, ind, net, wrote, rqErr, acErr, entered, svc, nreq, out, responded, given, acted>>
obsv == <<rqErr, acErr, entered, svc, nreq, out, responded, given, acted>>

Sides == {"R", "A"}
Other(x) == IF x = "R" THEN "A" ELSE "R"
Msg(k, f) == [k |-> k, f |-> f]
FIN == Msg("FIN", <<>>)
NoErr == [type |-> "none", f |-> <<>>]
Err(t, f) == [type |-> t, f |-> f]

EvtOfReq(k) == CASE k = "RQ" -> 1 [] k = "AC" -> 7 [] k = "RJ" -> 8 [] k = "PD" -> 9 [] k = "RLRQ" -> 11
                 [] k = "RLRP" -> 14 [] k = "AB" -> 15
EvtOfPdu(k) == CASE k = "RQ" -> 6 [] k = "AC" -> 3 [] k = "RJ" -> 4 [] k = "PD" -> 10 [] k = "RLRQ" -> 12
                 [] k = "RLRP" -> 13 [] k = "AB" -> 16 [] k = "FIN" -> 17

Init ==
  /\ app = [x \in Sides |-> IF x = "R" THEN "init" ELSE "listen"]
  /\ st = [x \in Sides |-> IF x = "R" THEN 1 ELSE 2]
  /\ alive = [x \in Sides |-> TRUE]
  /\ sock = [x \in Sides |-> IF x = "R" THEN "none" ELSE "open"]
  /\ uq = [x \in Sides |-> <<>>] /\ ind = [x \in Sides |-> <<>>] /\ net = [x \in Sides |-> <<>>]
  /\ wrote = [x \in Sides |-> <<>>]
  /\ rqErr = NoErr /\ acErr = NoErr /\ entered = FALSE /\ svc = 0 /\ nreq = 0 /\ out = 0
  /\ responded = FALSE /\ given = <<>> /\ acted = "none"

---------------------------------------------------------------------------
(* one provider step = one cell of Table 9-10.  React(x, e, m, s) gives the effect of event e (carrying m) in    *)
(* state s as a record: next state, PDUs written, indications, whether the own end of the connection is closed.  *)

AbortInd(a, m) == IF a = "AA3" THEN m ELSE IF a = "AA8" THEN Msg("AB", <<2, 0>>) ELSE Msg("AB", <<0, 0>>)
AbortPdu(a, e, m) == IF a = "AA1" /\ e = 15 THEN m ELSE IF a = "AA1" THEN Msg("AB", <<0, 0>>)
                     ELSE IF a = "AA7" THEN Msg("AB", <<2, 2>>) ELSE Msg("AB", <<2, 0>>)

React(x, e, m, s) ==
  LET c == Cell(e, s, x = "R")
      a == c[1]
      w == WireOf(a)
      i == IF a \in {"DT2", "AR6"} THEN "PD" ELSE IndOf(a)
  IN [ns |-> c[2],
      a |-> a,
      \* A-ASSOCIATE-RJ carries its triple, P-DATA its payload (a token for the content of the DIMSE message)
      wire |-> IF w = "-" THEN <<>> ELSE IF w = "AB" THEN <<AbortPdu(a, e, m)>> ELSE <<Msg(w, IF w \in {"RJ", "PD"} THEN m.f ELSE <<>>)>>,
      ind |-> IF i = "-" THEN <<>> ELSE IF i = "AB" THEN <<AbortInd(a, m)>> ELSE <<Msg(i, IF i \in {"RJ", "PD"} THEN m.f ELSE <<>>)>>,
      closes |-> Closes(a) \/ a \in {"AA4", "AA5", "AR5"}]

(* apply a reaction r of side x; a write to a connection the peer has closed fails: the attempt is recorded,      *)
(* the own end is closed and "transport closed" is handled in the state the action led to                          *)
Apply(x, r) ==
  LET y == Other(x)
      fails == r.wire # <<>> /\ sock[y] = "closed"
      r2 == IF fails THEN React(x, 17, FIN, r.ns) ELSE r
      closing == fails \/ r.closes
  IN /\ wrote' = [wrote EXCEPT ![x] = @ \o r.wire]
     /\ st' = [st EXCEPT ![x] = IF fails THEN r2.ns ELSE r.ns]
     /\ ind' = [ind EXCEPT ![x] = @ \o r.ind \o (IF fails THEN r2.ind ELSE <<>>)]
     /\ sock' = [sock EXCEPT ![x] = IF closing /\ @ = "open" THEN "closed" ELSE @]
     /\ net' = [net EXCEPT ![y] = IF fails THEN @ ELSE @ \o r.wire \o (IF closing /\ sock[x] = "open" THEN <<FIN>> ELSE <<>>)]

ProvOut(x) ==      \* the provider takes the next request of its application
  /\ alive[x] /\ uq[x] # <<>>
  /\ LET m == Head(uq[x])
         e == EvtOfReq(m.k) IN
       IF e = 1 /\ st[x] = 1
       THEN \* AE-1 connect + transport confirmation + AE-2 send the request
            /\ st' = [st EXCEPT ![x] = 5] /\ sock' = [sock EXCEPT ![x] = "open"]
            /\ wrote' = [wrote EXCEPT ![x] = Append(@, m)] /\ net' = [net EXCEPT ![Other(x)] = Append(@, m)]
            /\ UNCHANGED ind
       ELSE Apply(x, React(x, e, m, st[x]))
  /\ uq' = [uq EXCEPT ![x] = Tail(@)]
  /\ UNCHANGED <<app, alive>> /\ UNCHANGED obsv

ProvIn(x) ==       \* the provider handles the next PDU (or the end of the stream) of the peer
  /\ alive[x] /\ sock[x] = "open" /\ net[x] # <<>>
  /\ LET m == Head(net[x]) IN
       /\ LET y == Other(x)
              r == React(x, EvtOfPdu(m.k), m, st[x])
              fails == r.wire # <<>> /\ sock[y] = "closed"
              r2 == IF fails THEN React(x, 17, FIN, r.ns) ELSE r
              closing == fails \/ r.closes
          IN /\ wrote' = [wrote EXCEPT ![x] = @ \o r.wire]
             /\ st' = [st EXCEPT ![x] = IF fails THEN r2.ns ELSE r.ns]
             /\ ind' = [ind EXCEPT ![x] = @ \o r.ind \o (IF fails THEN r2.ind ELSE <<>>)]
             /\ sock' = [sock EXCEPT ![x] = IF closing THEN "closed" ELSE @]
             /\ net' = [net EXCEPT ![x] = Tail(@),
                                   ![y] = IF fails THEN @ ELSE @ \o r.wire \o (IF closing THEN <<FIN>> ELSE <<>>)]
  /\ UNCHANGED <<app, alive, uq>> /\ UNCHANGED obsv

Artim(x) ==        \* ARTIM expires while the provider waits for the peer to close (Sta13)
  /\ alive[x] /\ st[x] = 13 /\ sock[x] = "open"
  /\ st' = [st EXCEPT ![x] = 1] /\ sock' = [sock EXCEPT ![x] = "closed"]
  /\ net' = [net EXCEPT ![Other(x)] = Append(@, FIN)]
  /\ UNCHANGED <<app, alive, uq, ind, wrote>> /\ UNCHANGED obsv

Kill(x) ==         \* kill(): the provider is stopped once it has taken every request of its application
  /\ app[x] = "kill" /\ uq[x] = <<>>
  /\ alive' = [alive EXCEPT ![x] = FALSE] /\ app' = [app EXCEPT ![x] = "done"]
  /\ UNCHANGED <<st, sock, uq, ind, net, wrote>> /\ UNCHANGED obsv

CloseSock(x) ==    \* the socket of a stopped provider is closed (handler returns / object released)
  /\ ~alive[x] /\ sock[x] = "open"
  /\ sock' = [sock EXCEPT ![x] = "closed"] /\ net' = [net EXCEPT ![Other(x)] = Append(@, FIN)]
  /\ UNCHANGED <<app, st, alive, uq, ind, wrote>> /\ UNCHANGED obsv

---------------------------------------------------------------------------
(* applications *)

Put(x, m) == uq' = [uq EXCEPT ![x] = Append(@, m)]
Take(x) == ind' = [ind EXCEPT ![x] = Tail(@)]
Goto(x, pc) == app' = [app EXCEPT ![x] = pc]
NetSame == UNCHANGED <<st, alive, sock, net, wrote>>

RqRequest ==
  /\ app["R"] = "init" /\ Goto("R", "assoc") /\ Put("R", Msg("RQ", <<>>))
  /\ NetSame /\ UNCHANGED ind /\ UNCHANGED obsv

RqAssocInd ==      \* request_association returns (body entered) or raises
  /\ app["R"] = "assoc" /\ ind["R"] # <<>> /\ Take("R")
  /\ LET m == Head(ind["R"]) IN
       CASE m.k = "AC" -> Goto("R", "body") /\ entered' = TRUE /\ rqErr' = rqErr
         [] m.k = "RJ" -> Goto("R", "kill") /\ entered' = entered /\ rqErr' = Err("AssociationRejectedError", m.f)
         [] m.k = "AB" -> Goto("R", "kill") /\ entered' = entered /\ rqErr' = Err("AssociationAbortedError", m.f)
         [] OTHER -> FALSE
  /\ NetSame /\ UNCHANGED <<uq, acErr, svc, nreq, out, responded, given, acted>>

RqSendD(d) ==      \* d: token for the content of the message (what the peer's application must be handed, unchanged)
  /\ app["R"] = "body" /\ nreq < MaxReq /\ nreq' = nreq + 1 /\ out' = out + 1 /\ Put("R", Msg("PD", d))
  /\ NetSame /\ UNCHANGED <<app, ind, rqErr, acErr, entered, svc, responded, given, acted>>

RqSend == RqSendD(<<>>)

RqWait ==
  /\ app["R"] = "body" /\ (out > 0 \/ ~Strict) /\ Goto("R", "rsp")
  /\ NetSame /\ UNCHANGED <<uq, ind>> /\ UNCHANGED obsv

RqRecv ==          \* receive() returns a response, or raises: the block is left through the error, which aborts
  /\ app["R"] = "rsp" /\ ind["R"] # <<>> /\ Take("R")
  /\ LET m == Head(ind["R"]) IN
       CASE m.k = "PD" -> Goto("R", "body") /\ out' = (IF out > 0 THEN out - 1 ELSE 0) /\ rqErr' = rqErr /\ UNCHANGED uq
         [] m.k = "AB" -> Goto("R", "kill") /\ out' = out /\ rqErr' = Err("AssociationAbortedError", m.f) /\ Put("R", Msg("AB", <<0, 0>>))
         [] m.k = "RLRQ" -> Goto("R", "kill") /\ out' = out /\ rqErr' = Err("AssociationReleasedError", <<>>) /\ Put("R", Msg("AB", <<0, 0>>))
         [] OTHER -> FALSE
  /\ NetSame /\ UNCHANGED <<acErr, entered, svc, nreq, responded, given, acted>>

First(what) == acted' = (IF acted = "none" THEN what ELSE acted)

RqAbort(r) ==      \* the application aborts and leaves
  /\ app["R"] = "body" /\ Put("R", Msg("AB", <<0, r>>)) /\ Goto("R", "kill")
  /\ First("req-abort") /\ given' = (IF acted = "none" THEN <<0, r>> ELSE given)
  /\ NetSame /\ UNCHANGED <<ind, rqErr, acErr, entered, svc, nreq, out, responded>>

RqExitNormal ==    \* the block ends normally: release
  /\ app["R"] = "body" /\ Put("R", Msg("RLRQ", <<>>)) /\ Goto("R", "rel") /\ First("req-exit-normal")
  /\ NetSame /\ UNCHANGED <<ind, rqErr, acErr, entered, svc, nreq, out, responded, given>>

RqRelDone ==       \* release() takes whatever the provider indicates next and stops it
  /\ app["R"] = "rel" /\ ind["R"] # <<>> /\ Take("R") /\ Goto("R", "kill")
  /\ NetSame /\ UNCHANGED uq /\ UNCHANGED obsv

RqExitError ==     \* the application's own exception leaves the block: abort (0, 0), the exception propagates
  /\ app["R"] = "body" /\ Put("R", Msg("AB", <<0, 0>>)) /\ Goto("R", "kill") /\ rqErr' = Err("UserError", <<>>)
  /\ First("req-exit-error")
  /\ NetSame /\ UNCHANGED <<ind, acErr, entered, svc, nreq, out, responded, given>>

AcRefuse(t) ==     \* the application hook raises: A-ASSOCIATE-RJ with exactly its triple, never accepted
  /\ app["A"] = "listen" /\ ind["A"] # <<>> /\ Head(ind["A"]).k = "RQ" /\ Take("A")
  /\ Put("A", Msg("RJ", t)) /\ Goto("A", "kill") /\ First("refuse") /\ given' = (IF acted = "none" THEN t ELSE given)
  /\ NetSame /\ UNCHANGED <<rqErr, acErr, entered, svc, nreq, out, responded>>

AcAccept ==
  /\ app["A"] = "listen" /\ ind["A"] # <<>> /\ Head(ind["A"]).k = "RQ" /\ Take("A")
  /\ Put("A", Msg("AC", <<>>)) /\ Goto("A", "serve")
  /\ NetSame /\ UNCHANGED obsv

AcRecv ==          \* the handler loop's receive(): a request invokes a service; abort / release end the handler
  /\ app["A"] = "serve" /\ ind["A"] # <<>> /\ Take("A")
  /\ LET m == Head(ind["A"]) IN
       CASE m.k = "PD" -> Goto("A", "svc") /\ svc' = svc + 1 /\ responded' = FALSE /\ acErr' = acErr /\ UNCHANGED uq
         [] m.k = "AB" -> Goto("A", "kill") /\ svc' = svc /\ responded' = responded /\ acErr' = Err("AssociationAbortedError", m.f) /\ UNCHANGED uq
         [] m.k = "RLRQ" -> /\ Goto("A", "kill") /\ svc' = svc /\ responded' = responded
                            /\ acErr' = Err("AssociationReleasedError", <<>>) /\ Put("A", Msg("RLRP", <<>>))
         [] OTHER -> FALSE
  /\ NetSame /\ UNCHANGED <<rqErr, entered, nreq, out, given, acted>>

AcRespondD(d) ==
  /\ app["A"] = "svc" /\ (~responded \/ ~Strict) /\ responded' = TRUE /\ Put("A", Msg("PD", d))
  /\ NetSame /\ UNCHANGED <<app, ind, rqErr, acErr, entered, svc, nreq, out, given, acted>>

AcRespond == AcRespondD(<<>>)

AcReturn ==
  /\ app["A"] = "svc" /\ (responded \/ ~Strict) /\ Goto("A", "serve")
  /\ NetSame /\ UNCHANGED <<uq, ind>> /\ UNCHANGED obsv

AcAbort(r) ==      \* from inside a service, before or after its response
  /\ app["A"] = "svc" /\ Put("A", Msg("AB", <<2, r>>)) /\ Goto("A", "kill")
  /\ First("acc-abort") /\ given' = (IF acted = "none" THEN <<2, r>> ELSE given)
  /\ NetSame /\ UNCHANGED <<ind, rqErr, acErr, entered, svc, nreq, out, responded>>

AcRelease ==       \* from inside a service
  /\ app["A"] = "svc" /\ Put("A", Msg("RLRQ", <<>>)) /\ Goto("A", "rel") /\ First("acc-release")
  /\ NetSame /\ UNCHANGED <<ind, rqErr, acErr, entered, svc, nreq, out, responded, given>>

AcRelDone ==
  /\ app["A"] = "rel" /\ ind["A"] # <<>> /\ Take("A") /\ Goto("A", "kill")
  /\ NetSame /\ UNCHANGED uq /\ UNCHANGED obsv

(* a blocked receive gives up (DCMTimeoutError) - only while nothing is waiting for the application.  The        *)
(* requesting side leaves through the error (abort; before establishment: stop); the handler catches it and stops *)
RqTimeout ==
  /\ Timeouts /\ app["R"] \in {"assoc", "rsp", "rel"} /\ ind["R"] = <<>>
  /\ rqErr' = Err("DCMTimeoutError", <<>>) /\ Goto("R", "kill")
  /\ IF app["R"] = "assoc" THEN UNCHANGED uq ELSE Put("R", Msg("AB", <<0, 0>>))
  /\ NetSame /\ UNCHANGED <<ind, acErr, entered, svc, nreq, out, responded, given, acted>>

AcTimeout ==
  /\ Timeouts /\ app["A"] \in {"listen", "serve", "rel"} /\ ind["A"] = <<>>
  /\ Goto("A", "kill")
  /\ NetSame /\ UNCHANGED <<uq, ind>> /\ UNCHANGED obsv

---------------------------------------------------------------------------
Terminal == \A x \in Sides : app[x] = "done" /\ sock[x] # "open"

AppNext ==
  \/ RqRequest \/ RqAssocInd \/ RqSend \/ RqWait \/ RqRecv \/ RqExitNormal \/ RqRelDone \/ RqExitError
  \/ (\E r \in Reasons : RqAbort(r) \/ AcAbort(r))
  \/ (\E t \in Triples : AcRefuse(t))
  \/ AcAccept \/ AcRecv \/ AcRespond \/ AcReturn \/ AcRelease \/ AcRelDone
  \/ RqTimeout \/ AcTimeout
SysNext == \E x \in Sides : ProvOut(x) \/ ProvIn(x) \/ Artim(x) \/ Kill(x) \/ CloseSock(x)
Next == AppNext \/ SysNext \/ (Terminal /\ UNCHANGED vars)

Spec == Init /\ [][Next]_vars /\ WF_vars(Next)

---------------------------------------------------------------------------
(* The statement of C14 as predicates over this design *)

Has(s, k) == \E i \in 1..Len(s) : s[i].k = k
HasM(s, m) == \E i \in 1..Len(s) : s[i] = m
LastKind(s) == IF s = <<>> THEN "-" ELSE s[Len(s)].k

RefusalFaithful ==
  acted = "refuse" =>
     /\ ~Has(wrote["A"], "AC") /\ ~Has(wrote["A"], "PD") /\ svc = 0 /\ ~entered
     /\ (app["R"] = "done" => rqErr = Err("AssociationRejectedError", given))
     /\ (app["A"] = "done" => HasM(wrote["A"], Msg("RJ", given)))

(* an abort that reaches the other application carries the source and reason that were given; the only other     *)
(* aborts an application can be told about are the provider's own: (0, 0) transport closed, (2, 0) invalid PDU    *)
AbortFaithful ==
  /\ (acErr.type = "AssociationAbortedError" =>
         \/ acted = "req-abort" /\ acErr.f = given
         \/ acErr.f \in {<<0, 0>>, <<2, 0>>})
  /\ (rqErr.type = "AssociationAbortedError" =>
         \/ acted = "acc-abort" /\ rqErr.f = given
         \/ rqErr.f \in {<<0, 0>>, <<2, 0>>})

ReleaseFaithful ==
  /\ (rqErr.type = "AssociationReleasedError" => Has(wrote["A"], "RLRQ") /\ ~Has(wrote["R"], "RLRQ"))
  /\ (acErr.type = "AssociationReleasedError" => Has(wrote["R"], "RLRQ"))

(* leaving normally releases, leaving through an error aborts - unless the peer ended the association first     *)
(* (its A-ABORT / A-RELEASE-RQ overtook the request still waiting in the provider's queue)                         *)
ExitFaithful ==
  /\ (acted = "req-exit-normal" /\ app["R"] = "done" =>
         /\ ((rqErr.type = "none" /\ ~Has(wrote["R"], "AB")) \/ rqErr.type = "DCMTimeoutError")
         /\ (LastKind(wrote["R"]) = "RLRQ" \/ Has(wrote["A"], "AB") \/ Has(wrote["A"], "RLRQ")))
  /\ (acted = "req-exit-error" /\ app["R"] = "done" =>
         /\ ~Has(wrote["R"], "RLRQ") /\ rqErr.type = "UserError"
         /\ (HasM(wrote["R"], Msg("AB", <<0, 0>>)) \/ Has(wrote["A"], "AB") \/ Has(wrote["A"], "RLRQ")))

ServiceOnlyWhenAccepted == svc > 0 => Has(wrote["A"], "AC") /\ svc <= nreq

BothFinish == <>[]Terminal
=============================================================================
