SPECIFICATION Spec
CONSTANTS N = 3
 Reuse = TRUE
INVARIANT Delivery
