SPECIFICATION Spec
CONSTANT Mode = "hdr"
INVARIANT RoundTrip
INVARIANT TotalLength
INVARIANT LengthsExact
INVARIANT Emit
