--------------------------- MODULE Trace_MultiAssoc ---------------------------
(* One round of N concurrent associations against one entity, observed per association (what the  *)
(* client sent and got back, what the server's handler saw for it, the parameters negotiated) and   *)
(* globally (the set of <<client, instance>> pairs sent and seen, message ids drawn per thread).    *)
(* The verdict is the list of clauses that fail.                                                    *)
EXTENDS Naturals, Sequences, FiniteSets, TLC, Json, IOUtils, TLCExt
F(cond, name) == IF cond THEN <<name>> ELSE <<>>
Range(s) == {s[i] : i \in 1..Len(s)}
(* a = [client, aborted, error, negotiated: Seq([ctx, ts]), requests: Seq([ctx, mid, sentD, sentInst, gotD, gotInst,  *)
(*      gotClient, servedTs, rmid, status, expectStatus, answered])]                                                  *)
AssocClauses(a) ==
     F(~a.aborted /\ a.error # "", "an-undisturbed-association-completes-without-error")
  \o F(\E i \in 1..Len(a.requests) : a.requests[i].answered /\ a.requests[i].rmid # a.requests[i].mid, "answered-with-its-own-message-id")
  \o F(\E i \in 1..Len(a.requests) : a.requests[i].answered /\ a.requests[i].rinst # a.requests[i].sentInst, "answered-about-its-own-instance")
  \o F(\E i \in 1..Len(a.requests) : a.requests[i].answered /\ a.requests[i].gotD # a.requests[i].sentD, "handler-saw-this-associations-own-data")
  \o F(\E i \in 1..Len(a.requests) : a.requests[i].answered /\ (a.requests[i].gotInst # a.requests[i].sentInst \/ a.requests[i].gotClient # a.client),
       "handler-saw-this-associations-own-instance")
  \o F(\E i \in 1..Len(a.requests) : a.requests[i].answered /\ a.requests[i].status # a.requests[i].expectStatus, "status-is-the-one-returned-for-this-request")
  \o F(\E i \in 1..Len(a.requests) : a.requests[i].answered /\
          ~(\E j \in 1..Len(a.negotiated) : a.negotiated[j].ctx = a.requests[i].ctx /\ a.negotiated[j].ts = a.requests[i].servedTs),
       "served-with-the-parameters-this-association-negotiated")
  \o F(~a.aborted /\ \E i \in 1..Len(a.requests) : ~a.requests[i].answered, "every-request-of-an-undisturbed-association-is-answered")
  \* P-DATA-TF lengths seen on THIS association's connection against the maxima announced on it (0 = no limit)
  \o F(\E i \in 1..Len(a.pdus.fromServer) : a.pdus.maxClient # 0 /\ a.pdus.fromServer[i] > a.pdus.maxClient, "pdata-within-the-maximum-this-association-negotiated")
  \o F(\E i \in 1..Len(a.pdus.fromClient) : a.pdus.maxServer # 0 /\ a.pdus.fromClient[i] > a.pdus.maxServer, "pdata-within-the-maximum-this-association-negotiated")
  \* further operations on the association (C-FIND with large responses, C-MOVE progress): what went wrong, if anything
  \* the Part-10 header of every instance this association's data was received into: its own instance, class, syntax
  \o F(\E i \in 1..Len(a.headers) : a.headers[i].got # a.headers[i].want, "received-file-header-describes-this-associations-own-instance-class-and-syntax")
  \o F(~a.aborted /\ a.extras # <<>>, "other-operations-of-this-association-are-answered-on-it-with-its-own-data")
(* g = [sent: Seq([client, inst]) by associations that did not abort, allSent, seen: Seq([client, inst]), threads: Seq(Seq(mid))] *)
GlobalClauses(g) ==
     F(~(Range(g.sent) \subseteq Range(g.seen)), "everything-sent-by-an-undisturbed-client-was-seen-by-the-server")
  \o F(~(Range(g.seen) \subseteq Range(g.allSent)), "the-server-saw-only-what-some-client-sent")
  \o F(Len(g.seen) # Cardinality(Range(g.seen)), "each-instance-handled-once")
  \o F(\E t \in 1..Len(g.threads) : Len(g.threads[t]) # Cardinality(Range(g.threads[t])), "message-ids-unique-within-a-thread")
Cases == JsonDeserialize(IOEnv.TRACE_FILE)
VARIABLES tid, l, bad
tvars == <<tid, l, bad>>
Judge(c) == IF c.kind = "assoc" THEN AssocClauses(c.a) ELSE GlobalClauses(c.g)
TraceInit == tid \in 1..Len(Cases) /\ l = 1 /\ bad = <<>> /\ TLCSet(tid, [reached |-> 0, inv |-> <<>>])
TraceNext == /\ l = 1 /\ l' = 2 /\ tid' = tid /\ bad' = Judge(Cases[tid][1])
             /\ TLCSet(tid, [reached |-> 1, inv |-> bad'])
TraceSpec == TraceInit /\ [][TraceNext]_tvars
Report == \A i \in 1..Len(Cases) :
   PrintT("@@" \o ToJson([tid |-> i, reached |-> TLCGet(i).reached, len |-> 1, inv |-> TLCGet(i).inv]) \o "@@")
=============================================================================
