------------------------------ MODULE MultiAssoc ------------------------------
(***************************************************************************)
(* Several associations served by one application entity at once           *)
(* (ThreadingTCPServer: one handler thread + one provider thread per       *)
(* connection).  Each association negotiates its own context table         *)
(* (context id -> <<abstract syntax, transfer syntax>>); requests are       *)
(* dispatched through a table.  Shared = FALSE: every association owns its *)
(* table (the library's design: tables are created in __init__);           *)
(* Shared = TRUE: one table for the whole process (what a class-level      *)
(* mutable default gives).  TLC explores every interleaving of Negotiate,  *)
(* Request and Abort of N associations.                                    *)
(***************************************************************************)
EXTENDS Naturals, FiniteSets, TLC
CONSTANTS N, Shared, Tables      \* Tables: the set of tables an association may negotiate ([ctx id -> value or "-"])
Assocs == 1..N
VARIABLES own, table, state, served, mids
vars == <<own, table, state, served, mids>>
T(i) == IF Shared THEN table[1] ELSE table[i]
Init == /\ own = [i \in Assocs |-> "none"] /\ table = [i \in Assocs |-> "none"]
        /\ state = [i \in Assocs |-> "new"] /\ served = {} /\ mids = [i \in Assocs |-> 0]
Negotiate(i, t) ==
  /\ state[i] = "new" /\ own' = [own EXCEPT ![i] = t]
  /\ table' = IF Shared THEN [table EXCEPT ![1] = t] ELSE [table EXCEPT ![i] = t]
  /\ state' = [state EXCEPT ![i] = "up"] /\ UNCHANGED <<served, mids>>
Request(i, c) ==      \* a request on context c of association i is dispatched through the table in force
  /\ state[i] = "up" /\ c \in DOMAIN own[i]
  /\ mids' = [mids EXCEPT ![i] = @ + 1]
  /\ served' = served \cup {[assoc |-> i, ctx |-> c, used |-> T(i)[c], negotiated |-> own[i][c], mid |-> mids'[i]]}
  /\ UNCHANGED <<own, table, state>>
Abort(i) == state[i] = "up" /\ state' = [state EXCEPT ![i] = "gone"] /\ UNCHANGED <<own, table, served, mids>>
Next == \E i \in Assocs : (\E t \in Tables : Negotiate(i, t)) \/ (\E c \in 1..2 : Request(i, c)) \/ Abort(i)
Spec == Init /\ [][Next]_vars
(* every request is served with the parameters its own association negotiated *)
OwnAssociationOwnData == \A r \in served : r.used = r.negotiated
(* the end of one association leaves every other one unchanged *)
AbortIsLocal == [][\A i \in Assocs : (state[i] = "up" /\ state'[i] = "gone") =>
                     \A j \in Assocs \ {i} : own'[j] = own[j] /\ state'[j] = state[j] /\ (~Shared => table'[j] = table[j])]_vars
=============================================================================
