------------------------------ MODULE MultiAssoc ------------------------------
(***************************************************************************)
(* Several associations served by one application entity at once           *)
(* (ThreadingTCPServer: one handler thread + one provider thread per       *)
(* connection).  Each association negotiates its own context table         *)
(* (context id -> <<abstract syntax, transfer syntax>>); requests are       *)
(* dispatched through a table.  Shared = FALSE: every association owns its *)
(* table (the library's design: tables are created in __init__);           *)
(* Shared = TRUE: one table for the whole process (what a class-level      *)
(* mutable default gives).  TLC explores every interleaving of Negotiate,  *)
(* Request and Abort of N associations.                                    *)
(* The entity's server life-cycle is part of the model: `serving` is "yes" *)
(* while serve_forever accepts connections, "closing" from the moment       *)
(* AE.quit() has stopped the accept loop (shutdown + closing the listening *)
(* socket) and "closed" when quit() has returned.  The entity sets         *)
(* daemon_threads = True, so ThreadingMixIn.server_close() does NOT join    *)
(* the handler threads (observed: quit() returns seconds before the last   *)
(* association in flight ends): QuitEnd has no guard, and associations in   *)
(* flight keep being served while closing AND after quit() has returned.   *)
(***************************************************************************)
EXTENDS Naturals, FiniteSets, TLC
CONSTANTS N, Shared, Tables      \* Tables: the set of tables an association may negotiate ([ctx id -> value or "-"])
Assocs == 1..N
VARIABLES own, table, state, served, mids, serving
vars == <<own, table, state, served, mids, serving>>
T(i) == IF Shared THEN table[1] ELSE table[i]
Init == /\ own = [i \in Assocs |-> "none"] /\ table = [i \in Assocs |-> "none"]
        /\ state = [i \in Assocs |-> "new"] /\ served = {} /\ mids = [i \in Assocs |-> 0] /\ serving = "yes"
Negotiate(i, t) ==
  /\ serving = "yes"      \* connections are accepted only while the accept loop runs
  /\ state[i] = "new" /\ own' = [own EXCEPT ![i] = t]
  /\ table' = IF Shared THEN [table EXCEPT ![1] = t] ELSE [table EXCEPT ![i] = t]
  /\ state' = [state EXCEPT ![i] = "up"] /\ UNCHANGED <<served, mids, serving>>
Request(i, c) ==      \* a request on context c of association i is dispatched through the table in force
  /\ state[i] = "up" /\ c \in DOMAIN own[i]
  /\ mids' = [mids EXCEPT ![i] = @ + 1]
  /\ served' = served \cup {[assoc |-> i, ctx |-> c, used |-> T(i)[c], negotiated |-> own[i][c], mid |-> mids'[i]]}
  /\ UNCHANGED <<own, table, state, serving>>
Abort(i) == state[i] = "up" /\ state' = [state EXCEPT ![i] = "gone"] /\ UNCHANGED <<own, table, served, mids, serving>>
QuitBegin == serving = "yes" /\ serving' = "closing" /\ UNCHANGED <<own, table, state, served, mids>>
QuitEnd == serving = "closing" /\ serving' = "closed" /\ UNCHANGED <<own, table, state, served, mids>>   \* daemon handler threads: nothing is joined
Next == \/ \E i \in Assocs : (\E t \in Tables : Negotiate(i, t)) \/ (\E c \in 1..2 : Request(i, c)) \/ Abort(i)
        \/ QuitBegin \/ QuitEnd
Spec == Init /\ [][Next]_vars
(* every request is served with the parameters its own association negotiated *)
OwnAssociationOwnData == \A r \in served : r.used = r.negotiated
(* the end of one association leaves every other one unchanged *)
AbortIsLocal == [][\A i \in Assocs : (state[i] = "up" /\ state'[i] = "gone") =>
                     \A j \in Assocs \ {i} : own'[j] = own[j] /\ state'[j] = state[j] /\ (~Shared => table'[j] = table[j])]_vars
(* stopping the server concerns the listener only: no association in flight is touched by it *)
QuitIsLocal == [][serving' # serving => UNCHANGED <<own, table, state, served, mids>>]_vars
(* no association is established once quit has begun *)
NoNewAssociationAfterQuit == [][\A i \in Assocs : (state[i] = "new" /\ state'[i] = "up") => serving = "yes"]_vars
(* non-vacuity (expected to be VIOLATED): some request is served while the server is closing or closed *)
NoRequestWhileClosing == [][serving # "yes" => served' = served]_vars
=============================================================================
