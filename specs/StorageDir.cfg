SPECIFICATION Spec
CONSTANTS UIDs = {"u1", "u2"}
 Datas = {1, 2}
 MaxStores = 3
INVARIANT OneFilePerStore
PROPERTY NeverClobber
