SPECIFICATION TraceSpec
CONSTANTS
  Triples <- NoVals
  Reasons <- NoVals
  MaxReq = 1000
  Timeouts = TRUE
  Strict = FALSE
POSTCONDITION Report
