SPECIFICATION Spec
CONSTANT Mode = "order"
INVARIANT RoundTrip
INVARIANT TotalLength
INVARIANT LengthsExact
INVARIANT Emit
