------------------------------- MODULE EndToEnd -------------------------------
(* C-STORE end to end (storage_scu -> Association.send -> fragmentation -> two provider loops over *)
(* a byte channel -> reassembly -> storage_scp -> application handler -> response -> status), and   *)
(* the storage directory.  One store = one observation; the verdict lists the clauses that fail.   *)
EXTENDS Naturals, Sequences, FiniteSets, TLC
F(cond, name) == IF cond THEN <<name>> ELSE <<>>
Range(s) == {s[i] : i \in 1..Len(s)}
(* o = [sent: [d, cls, inst], got: [called, d, cls, inst, readable, ts], tsNegotiated, handlerStatus, scuStatus,          *)
(*      maxA, maxB, pdataA2B: Seq(len), before: Seq([name, d]), after: Seq([name, d]), dirMode]                          *)
Clauses(o) ==
     F(~o.got.called, "the-handler-is-invoked")
  \o F(o.got.called /\ o.got.d # o.sent.d, "data-set-reaches-the-handler-intact")
  \o F(o.got.called /\ (o.got.cls # o.sent.cls \/ o.got.inst # o.sent.inst), "tagged-with-the-sent-sop-class-and-instance")
  \o F(o.got.called /\ ~o.got.readable, "received-file-is-a-readable-dicom-file")
  \o F(o.got.called /\ o.got.ts # o.tsNegotiated, "in-the-negotiated-transfer-syntax")
  \o F(o.scuStatus # o.handlerStatus, "status-returned-is-the-handlers-status")
  \o F(o.maxB # 0 /\ \E i \in 1..Len(o.pdataA2B) : o.pdataA2B[i] > o.maxB, "fragments-respect-the-receivers-maximum")
  \o (IF o.dirMode THEN
          F(Cardinality(Range(o.after)) # Cardinality(Range(o.before)) + 1, "every-instance-in-its-own-new-file")
       \o F(~(Range(o.before) \subseteq Range(o.after)), "no-previously-stored-file-overwritten-or-truncated")
       \o F(~(\E x \in Range(o.after) \ Range(o.before) : x.d = o.sent.d), "the-new-file-holds-the-sent-data-set")
      ELSE <<>>)
=============================================================================
