SPECIFICATION Spec
CONSTANT Mode = "pc"
INVARIANT RoundTrip
INVARIANT TotalLength
INVARIANT LengthsExact
INVARIANT Emit
