----------------------------- MODULE Negotiation -----------------------------
(***************************************************************************)
(* Association negotiation (PS3.8 7.1, 9.3.2, 9.3.3, Annex D.1; PS3.7      *)
(* Annex D.3.3.1): presentation contexts and maximum PDU length, acceptor  *)
(* and requester side.  Written as predicates over <<configuration,        *)
(* request, answer>>: the places where the standard leaves a choice        *)
(* (which of the proposed-and-supported transfer syntaxes, which rejection *)
(* reason, which send limit below the peer's announcement) are a relation, *)
(* and the implementation's choice is decided by membership.               *)
(*                                                                         *)
(* Sets arrive as sequences (JSON arrays).  32-bit lengths are limb pairs  *)
(* <<hi, lo>>.  Each predicate is split into named clauses so that a       *)
(* verdict can say which one failed.                                       *)
(***************************************************************************)
EXTENDS Naturals, Sequences, FiniteSets, TLC

Range(s) == {s[i] : i \in 1..Len(s)}
F(cond, name) == IF cond THEN <<name>> ELSE <<>>

(* ------------------------------- acceptor (C09) ------------------------------- *)
(* cfg = [served: Seq(as), supported: Seq(ts)]                                      *)
(* rq  = [called, calling, appctx, ctxs: Seq([id, as, ts: Seq(ts)])]                *)
(* ans = [called, calling, appctx, ctxs: Seq([id, res, ts]),                        *)
(*        routing: Seq([id, as, ts]),  dispatch: Seq([id, served, as, ts])]         *)
Acceptable(cfg, c) == c.as \in Range(cfg.served) /\ (Range(c.ts) \cap Range(cfg.supported)) # {}

AcceptClauses(cfg, rq, ans) ==
     F(Len(ans.ctxs) # Len(rq.ctxs), "one-answer-per-proposed-context")
  \o F(Len(ans.ctxs) = Len(rq.ctxs) /\ \E i \in 1..Len(rq.ctxs) : ans.ctxs[i].id # rq.ctxs[i].id, "same-ids-same-order")
  \o F(Len(ans.ctxs) = Len(rq.ctxs) /\ \E i \in 1..Len(rq.ctxs) :
          (ans.ctxs[i].res = 0) # Acceptable(cfg, rq.ctxs[i]), "accepted-iff-served-and-a-proposed-syntax-is-supported")
  \o F(Len(ans.ctxs) = Len(rq.ctxs) /\ \E i \in 1..Len(rq.ctxs) :
          ans.ctxs[i].res = 0 /\ ~(ans.ctxs[i].ts \in (Range(rq.ctxs[i].ts) \cap Range(cfg.supported))), "answered-syntax-proposed-and-supported")
  \o F(\E i \in 1..Len(ans.ctxs) : ans.ctxs[i].res \notin 0..4, "result-reason-in-0..4")
  \o F(Range(ans.routing) # {[id |-> ans.ctxs[i].id, as |-> rq.ctxs[i].as, ts |-> ans.ctxs[i].ts] :
                                i \in {j \in 1..Len(ans.ctxs) : j <= Len(rq.ctxs) /\ ans.ctxs[j].res = 0}},
       "served-contexts-are-exactly-the-accepted-ones")
  \o F(\E i \in 1..Len(ans.dispatch) :
          LET d == ans.dispatch[i]
              acc == {j \in 1..Len(ans.ctxs) : j <= Len(rq.ctxs) /\ ans.ctxs[j].id = d.id /\ ans.ctxs[j].res = 0}
          IN (d.served # (acc # {})) \/ (d.served /\ \E j \in acc : d.ts # ans.ctxs[j].ts \/ d.as # rq.ctxs[j].as),
       "dispatch-only-on-accepted-contexts-with-the-answered-syntax")
  \o F(ans.called # rq.called \/ ans.calling # rq.calling, "ae-titles-echoed")
  \o F(ans.appctx # rq.appctx, "application-context-echoed")

(* a canonical answer exists for every request: the relation is never empty (checked by TLC) *)
FirstSupported(cfg, c) == CHOOSE t \in Range(c.ts) \cap Range(cfg.supported) : TRUE
Canonical(cfg, rq) ==
  LET cs == [i \in 1..Len(rq.ctxs) |->
               IF Acceptable(cfg, rq.ctxs[i]) THEN [id |-> rq.ctxs[i].id, res |-> 0, ts |-> FirstSupported(cfg, rq.ctxs[i])]
               ELSE [id |-> rq.ctxs[i].id, res |-> 3, ts |-> ""]]
      acc == {i \in 1..Len(cs) : cs[i].res = 0}
      RECURSIVE SeqOf(_)
      SeqOf(S) == IF S = {} THEN <<>> ELSE LET x == CHOOSE y \in S : TRUE IN <<x>> \o SeqOf(S \ {x})
  IN [called |-> rq.called, calling |-> rq.calling, appctx |-> rq.appctx, ctxs |-> cs,
      routing |-> SeqOf({[id |-> cs[i].id, as |-> rq.ctxs[i].as, ts |-> cs[i].ts] : i \in acc}),
      dispatch |-> [i \in 1..Len(cs) |-> [id |-> cs[i].id, served |-> cs[i].res = 0, as |-> rq.ctxs[i].as, ts |-> cs[i].ts]]]

(* ----------------------------- maximum length (C10) ---------------------------- *)
Zero(x) == x[1] = 0 /\ x[2] = 0
Leq(x, y) == x[1] < y[1] \/ (x[1] = y[1] /\ x[2] <= y[2])
(* own = configured maximum (0 = unlimited), ann = what this side announced, peer = what the peer announced, *)
(* pdulens = lengths (limbs) of the P-DATA-TF PDUs it then sent, delivered = all bytes of all messages sent   *)
MaxLenClauses(own, ann, peer, pdulens, delivered) ==
     F(~Zero(own) /\ (Zero(ann) \/ ~Leq(ann, own)), "announces-no-more-than-it-is-prepared-to-receive")
  \o F(~Zero(peer) /\ \E i \in 1..Len(pdulens) : ~Leq(pdulens[i], peer), "no-pdata-longer-than-the-peer-announced")
  \o F(~delivered, "remains-able-to-send-messages-of-any-size")

(* ------------------------------- requester (C11) ------------------------------- *)
(* cfg = [classes: Seq(as) in configuration order, ts: Seq(ts), called, calling, max]                *)
(* rq  = [called, calling, appctx, max, ctxs: Seq([id, as, ts: Seq(ts)])]                            *)
DicomAppCtx == "1.2.840.10008.3.1.1.1"
RequestClauses(cfg, rq) ==
     F(rq.called # cfg.called, "called-title-is-the-remote-entity")
  \o F(rq.calling # cfg.calling, "calling-title-is-the-local-entity")
  \o F(rq.appctx # DicomAppCtx, "dicom-application-context")
  \o F(rq.max # cfg.max, "own-maximum-length-announced")
  \o F([i \in 1..Len(rq.ctxs) |-> rq.ctxs[i].as] # cfg.classes, "each-configured-class-once-in-order")
  \o F(\E i \in 1..Len(rq.ctxs) : rq.ctxs[i].id \notin 1..255 \/ rq.ctxs[i].id % 2 = 0, "ids-odd-in-1..255")
  \o F(\E i, j \in 1..Len(rq.ctxs) : i < j /\ rq.ctxs[i].id >= rq.ctxs[j].id, "ids-distinct-and-increasing")
  \o F(\E i \in 1..Len(rq.ctxs) : Range(rq.ctxs[i].ts) # Range(cfg.ts) \/ Len(rq.ctxs[i].ts) # Cardinality(Range(cfg.ts)),
       "configured-transfer-syntaxes-proposed")

(* reply = Seq([id, res, ts]); usable = Seq([as, id, ts]) (what the requester regards as usable);       *)
(* lookups = Seq([as, ok, id, ts, scu]) result of asking for a service for a class                       *)
UsableSet(rq, reply) ==
  UNION {{[as |-> rq.ctxs[i].as, id |-> rq.ctxs[i].id, ts |-> reply[j].ts] :
             j \in {k \in 1..Len(reply) : reply[k].id = rq.ctxs[i].id /\ reply[k].res = 0}} : i \in 1..Len(rq.ctxs)}
ReplyClauses(rq, reply, usable, lookups) ==
     F(Range(usable) # UsableSet(rq, reply), "usable-contexts-are-the-accepted-among-the-proposed-with-the-chosen-syntax")
  \o F(\E i \in 1..Len(lookups) :
          LET q == lookups[i]
              u == {x \in UsableSet(rq, reply) : x.as = q.as}
          IN q.scu /\ ((q.ok # (u # {})) \/ (q.ok /\ ~([as |-> q.as, id |-> q.id, ts |-> q.ts] \in u))),
       "service-lookup-succeeds-iff-a-usable-context-exists")
=============================================================================
