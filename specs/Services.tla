------------------------------ MODULE Services ------------------------------
(***************************************************************************)
(* DIMSE services above the association (PS3.4 Annex A, B, C, J, K; PS3.7  *)
(* 9.1, 9.3, 10.1): what a service provider (SCP) puts on the wire for a   *)
(* request, and what a service user (SCU) hands to its caller, as          *)
(* acceptors of observable events.                                         *)
(*                                                                         *)
(* One operation = one behaviour:                                          *)
(*   Req      the request as it reached the provider (context id, message  *)
(*            id, SOP class, SOP instance, type)                           *)
(*   Handler  outcome of the application handler: a status, or the         *)
(*            documented failure status when it raised EventHandlingError  *)
(*   Match    one (data, status) pair yielded by the application (C-FIND)  *)
(*   Inst     one instance supplied by the application (C-MOVE) / one      *)
(*            C-STORE sub-operation request arriving (C-GET user)          *)
(*   SubStore the instance sent on the sub-association (C-MOVE)            *)
(*   SubRsp   the C-STORE response the C-GET user sends                    *)
(*   Rsp      a response put on the wire by the provider                   *)
(*   Got      an item handed to the caller by the user-side generator      *)
(*   End      the operation is over                                        *)
(* Data sets are tokens (integers; 0 = none) that the harness maps to      *)
(* digests of the real bytes.                                              *)
(***************************************************************************)
EXTENDS Naturals, Sequences, FiniteSets, TLC

Pending(svc, s) == (svc \in {"find", "mwl"} /\ s \in {65280, 65281}) \/ (svc \in {"get", "move"} /\ s = 65280)
RspType(t) == t + 32768            \* response command field = request command field with the high bit set
HasInstance(t) == t \in {1, 256, 272, 288, 304, 320, 336}     \* C-STORE and the N-services carry an instance UID

VARIABLES svc, req, handler, items, nsub, nrsp, ngot, final, over
vars == <<svc, req, handler, items, nsub, nrsp, ngot, final, over>>

InitWith(s, r) == svc = s /\ req = r /\ handler = <<>> /\ items = <<>> /\ nsub = 0 /\ nrsp = 0 /\ ngot = 0
                  /\ final = 0 /\ over = FALSE

(* ---- inputs from the application / the peer ---- *)
Handler(status) == ~over /\ handler' = Append(handler, status) /\ UNCHANGED <<svc, req, items, nsub, nrsp, ngot, final, over>>
Match(d, s) == ~over /\ final = 0 /\ items' = Append(items, [d |-> d, s |-> s]) /\ UNCHANGED <<svc, req, handler, nsub, nrsp, ngot, final, over>>
Inst(d, ctx, mid, cls, inst, dest, ehe) ==     \* ehe: the application's store handler refuses this instance (EventHandlingError)
  ~over /\ items' = Append(items, [d |-> d, ctx |-> ctx, mid |-> mid, cls |-> cls, inst |-> inst, dest |-> dest, ehe |-> ehe])
  /\ UNCHANGED <<svc, req, handler, nsub, nrsp, ngot, final, over>>

(* ---- C17: correlation of anything a provider sends in answer to req ---- *)
Correlated(r) ==
  /\ r.complete                                         \* a whole message: its last-fragment flags let the peer complete it
  /\ r.ctx = req.ctx                                    \* on the context the request arrived on
  /\ r.rmid = req.mid                                   \* Message ID Being Responded To
  /\ r.cls = req.cls                                    \* the request's SOP class
  /\ (HasInstance(req.type) => r.inst = req.inst)       \* and instance, where the message has one
  /\ r.type = RspType(req.type)                         \* response type matching the request type

(* ---- simple providers: echo, store, n-action, n-event-report ---- *)
RspSimple(r) ==
  /\ svc \in {"echo", "store", "naction", "nevent"} /\ ~over /\ final = 0
  /\ Correlated(r)
  /\ handler # <<>> /\ r.status = handler[Len(handler)]          \* the status the handler returned
  /\ final' = 1 /\ nrsp' = nrsp + 1
  /\ UNCHANGED <<svc, req, handler, items, nsub, ngot, over>>

(* ---- C16: C-FIND / worklist provider ---- *)
RspFind(r) ==
  /\ svc \in {"find", "mwl"} /\ ~over /\ final = 0 /\ Correlated(r)
  /\ IF nrsp < Len(items)
     THEN \* one response per item the handler yielded, in order, with its status and identifier (0: an item without
          \* any attribute has an empty encoding - nothing to carry); a non-pending status supplied by the handler
          \* itself is the final response of the operation
          /\ r.d = items[nrsp + 1].d /\ r.status = items[nrsp + 1].s
          /\ nrsp' = nrsp + 1 /\ final' = (IF Pending(svc, r.status) THEN 0 ELSE 1)
     ELSE \* everything yielded has been sent: the one final response, without identifier - success, or the documented
          \* failure status when the handler signalled an error
          /\ ~Pending(svc, r.status) /\ r.d = 0
          /\ r.status = (IF handler # <<>> THEN handler[Len(handler)] ELSE 0)
          /\ final' = 1 /\ UNCHANGED nrsp
  /\ UNCHANGED <<svc, req, handler, items, nsub, ngot, over>>

(* the user-side generator: exactly what was on the wire, in order, then stops *)
GotFind(d, s, wire) ==       \* wire: Seq of [d, s] responses delivered to the user so far (bound from the trace)
  /\ svc \in {"find-scu", "mwl-scu"} /\ ~over /\ final = 0
  /\ ngot < Len(wire) /\ d = wire[ngot + 1].d /\ s = wire[ngot + 1].s
  /\ ngot' = ngot + 1
  /\ final' = IF Pending("find", s) THEN 0 ELSE 1
  /\ UNCHANGED <<svc, req, handler, items, nsub, nrsp, over>>

(* ---- C19: C-GET user ---- *)
SubRsp(r) ==      \* the C-STORE response to the oldest unanswered C-STORE request
  /\ svc = "get-scu" /\ ~over /\ nsub < Len(items)
  /\ LET q == items[nsub + 1] IN
       /\ r.complete /\ r.ctx = q.ctx /\ r.rmid = q.mid /\ r.cls = q.cls /\ r.inst = q.inst /\ r.type = 32769
       /\ Len(handler) > nsub /\ r.status = handler[nsub + 1]        \* the outcome of the handler for THIS instance
  /\ nsub' = nsub + 1 /\ UNCHANGED <<svc, req, handler, items, nrsp, ngot, final, over>>
Deliverable == SelectSeq(items, LAMBDA x : ~x.ehe)     \* an instance the handler refused is answered with the failure status, not handed over
GotGet(d) ==      \* each received instance is handed to the caller once and in order
  /\ svc = "get-scu" /\ ~over /\ ngot < Len(Deliverable) /\ d = Deliverable[ngot + 1].d
  /\ ngot' = ngot + 1 /\ UNCHANGED <<svc, req, handler, items, nsub, nrsp, final, over>>

(* ---- C19: C-MOVE provider ---- *)
SubStore(d, dest) ==   \* each supplied instance goes to the designated destination exactly once, in order
  /\ svc = "move" /\ ~over /\ nsub < Len(items) /\ d = items[nsub + 1].d /\ dest = items[nsub + 1].dest
  /\ nsub' = nsub + 1 /\ UNCHANGED <<svc, req, handler, items, nrsp, ngot, final, over>>
RspMove(r, total) ==
  /\ svc = "move" /\ ~over /\ final = 0 /\ Correlated(r)
  /\ IF Pending("move", r.status)
     THEN /\ nrsp < nsub                                         \* progress is reported after a sub-operation
          /\ nrsp' = nrsp + 1
          /\ r.rem = total - nrsp'                               \* after k sub-operations: total - k remaining
          /\ (r.comp = nrsp' \/ r.comp + r.fail + r.warn = nrsp')   \* and k performed
          /\ UNCHANGED final
     ELSE \* exactly one final response: after everything - or, when the handler signalled an error / the destination
          \* could not be used, the documented failure status wherever the operation stood
          /\ IF handler # <<>> THEN r.status = handler[Len(handler)] ELSE nsub = Len(items)
          /\ final' = 1 /\ UNCHANGED nrsp
  /\ UNCHANGED <<svc, req, handler, items, nsub, ngot, over>>

(* ---- the end of an operation ---- *)
End(sent, drained) ==
  /\ ~over /\ over' = TRUE
  /\ (svc \in {"echo", "store", "naction", "nevent", "find", "mwl", "move"}) => final = 1     \* every request is answered
  /\ (svc \in {"find", "mwl"}) => nrsp = Len(items)
  /\ (svc = "move" /\ handler = <<>>) => (nsub = Len(items))
  /\ (svc = "get-scu") => (nsub = Len(items) /\ ngot = Len(Deliverable))
  /\ (svc \in {"find-scu", "mwl-scu"}) => final = 1
  /\ sent = drained                                    \* nothing the application sent is left unencoded
  /\ UNCHANGED <<svc, req, handler, items, nsub, nrsp, ngot, final>>
=============================================================================
