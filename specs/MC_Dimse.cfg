SPECIFICATION MCSpec
CONSTANTS MaxLc = 3
 MaxLd = 3
 Maxes = {7, 8}
INVARIANT ReassembledEqualsSent
INVARIANT CompletionExact
INVARIANT NothingBeforeEnd
INVARIANT OneLastPerStream
INVARIANT CommandBeforeData
INVARIANT SenderNeverStuck
INVARIANT Emit
