SPECIFICATION Spec
CONSTANTS N = 3
 Reuse = FALSE
INVARIANT Delivery
