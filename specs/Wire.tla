-------------------------------- MODULE Wire --------------------------------
(***************************************************************************)
(* DICOM PS3.8 section 9.3 (PDU structure) and PS3.7 Annex D (user-        *)
(* information sub-items) as data, transcribed from the standard's tables, *)
(* NOT from pynetdicom2/pdu.py.                                            *)
(*                                                                         *)
(* A structure is a record with a type tag t (the PDU / item type code);   *)
(* text and wide integers are sequences of byte values so that TLC's       *)
(* 32-bit integers never have to hold 2^32-1.  Enc maps a structure to     *)
(* bytes.  Dec is strictly LENGTH-DRIVEN: an item is cut out of its parent *)
(* by its own length field before its content is looked at; unknown        *)
(* sub-item types are kept as opaque <<type, data>>.                       *)
(*                                                                         *)
(* TLC explores a universe of structures (Init ranges over it, chosen by   *)
(* Mode), checks RoundTrip / LengthsExact on every one - which certifies   *)
(* the reference - and prints <<structure, bytes>> vectors for the harness. *)
(***************************************************************************)
EXTENDS Naturals, Sequences, FiniteSets, TLC, Json

CONSTANT Mode

U16(n) == <<n \div 256, n % 256>>
U32(n) == <<n \div 16777216, (n \div 65536) % 256, (n \div 256) % 256, n % 256>>   \* for n < 2^31 (lengths)
N16(b) == b[1] * 256 + b[2]
N32(b) == ((b[1] * 256 + b[2]) * 256 + b[3]) * 256 + b[4]                            \* only used on small values
RECURSIVE Cat(_)
Cat(ss) == IF ss = <<>> THEN <<>> ELSE Head(ss) \o Cat(Tail(ss))
Item(t, r, body) == <<t, r>> \o U16(Len(body)) \o body        \* type, reserved, 2-byte length, body

(* ----- user-information sub-items, PS3.7 Annex D.3.3 / PS3.8 Annex D.1 ----- *)
SubBody(x) ==
  CASE x.t = 81 -> x.max                                                      \* 51H maximum length: 4 bytes
    [] x.t = 82 -> x.uid                                                      \* 52H implementation class UID
    [] x.t = 85 -> x.name                                                     \* 55H implementation version name
    [] x.t = 83 -> U16(x.inv) \o U16(x.perf)                                  \* 53H asynchronous operations window
    [] x.t = 84 -> U16(Len(x.uid)) \o x.uid \o <<x.scu, x.scp>>               \* 54H SCP/SCU role selection
    [] x.t = 86 -> U16(Len(x.uid)) \o x.uid \o x.info                         \* 56H SOP class extended negotiation
    [] x.t = 88 -> <<x.type, x.resp>> \o U16(Len(x.prim)) \o x.prim \o U16(Len(x.sec)) \o x.sec   \* 58H user identity
    [] x.t = 89 -> U16(Len(x.rsp)) \o x.rsp                                   \* 59H user identity (accept)
    [] OTHER -> x.data                                                        \* anything else: opaque
EncSub(x) == Item(x.t, x.r, SubBody(x))

(* ----- variable items of A-ASSOCIATE-RQ / -AC, PS3.8 9.3.2 / 9.3.3 ----- *)
EncSyntax(x) == Item(x.t, x.r, x.name)                                        \* 30H abstract, 40H transfer syntax
EncItem(x) ==
  CASE x.t = 16 -> Item(16, x.r, x.name)                                      \* 10H application context
    [] x.t = 32 -> Item(32, x.r1, <<x.id, x.r2, x.r3, x.r4>> \o Cat([i \in 1..Len(x.sub) |-> EncSyntax(x.sub[i])]))
    [] x.t = 33 -> Item(33, x.r1, <<x.id, x.r2, x.res, x.r3>> \o Cat([i \in 1..Len(x.sub) |-> EncSyntax(x.sub[i])]))
    [] x.t = 80 -> Item(80, x.r, Cat([i \in 1..Len(x.sub) |-> EncSub(x.sub[i])]))   \* 50H user information
    [] OTHER -> Item(x.t, x.r, x.data)

(* ----- PDUs, PS3.8 9.3.2 - 9.3.8 ----- *)
PduBody(p) ==
  CASE p.t \in {1, 2} -> U16(p.ver) \o U16(p.r2) \o p.called \o p.calling \o p.r3
                          \o Cat([i \in 1..Len(p.items) |-> EncItem(p.items[i])])
    [] p.t = 3 -> <<p.r2, p.result, p.source, p.reason>>
    [] p.t = 4 -> Cat([i \in 1..Len(p.pdvs) |-> U32(Len(p.pdvs[i].val) + 1) \o <<p.pdvs[i].ctx>> \o p.pdvs[i].val])
    [] p.t \in {5, 6} -> p.r2
    [] p.t = 7 -> <<p.r2, p.r3, p.source, p.reason>>
    [] OTHER -> p.data
Enc(p) == <<p.t, p.r1>> \o U32(Len(PduBody(p))) \o PduBody(p)

(* ----- length-driven decoding ----- *)
DecSub(t, r, b) ==
  CASE t = 81 -> [t |-> t, r |-> r, max |-> b]
    [] t = 82 -> [t |-> t, r |-> r, uid |-> b]
    [] t = 85 -> [t |-> t, r |-> r, name |-> b]
    [] t = 83 -> [t |-> t, r |-> r, inv |-> N16(SubSeq(b, 1, 2)), perf |-> N16(SubSeq(b, 3, 4))]
    [] t = 84 -> LET n == N16(SubSeq(b, 1, 2)) IN
                 [t |-> t, r |-> r, uid |-> SubSeq(b, 3, 2 + n), scu |-> b[3 + n], scp |-> b[4 + n]]
    [] t = 86 -> LET n == N16(SubSeq(b, 1, 2)) IN
                 [t |-> t, r |-> r, uid |-> SubSeq(b, 3, 2 + n), info |-> SubSeq(b, 3 + n, Len(b))]
    [] t = 88 -> LET n == N16(SubSeq(b, 3, 4))
                     m == N16(SubSeq(b, 5 + n, 6 + n)) IN
                 [t |-> t, r |-> r, type |-> b[1], resp |-> b[2], prim |-> SubSeq(b, 5, 4 + n),
                  sec |-> SubSeq(b, 7 + n, 6 + n + m)]
    [] t = 89 -> [t |-> t, r |-> r, rsp |-> SubSeq(b, 3, Len(b))]
    [] OTHER -> [t |-> t, r |-> r, data |-> b]

RECURSIVE DecSubs(_), DecSyntaxes(_), DecItems(_), DecPdvs(_)
DecSubs(b) ==
  IF b = <<>> THEN <<>>
  ELSE LET n == N16(SubSeq(b, 3, 4)) IN
       <<DecSub(b[1], b[2], SubSeq(b, 5, 4 + n))>> \o DecSubs(SubSeq(b, 5 + n, Len(b)))
DecSyntaxes(b) ==
  IF b = <<>> THEN <<>>
  ELSE LET n == N16(SubSeq(b, 3, 4)) IN
       <<[t |-> b[1], r |-> b[2], name |-> SubSeq(b, 5, 4 + n)]>> \o DecSyntaxes(SubSeq(b, 5 + n, Len(b)))
DecItem(t, r, b) ==
  CASE t = 16 -> [t |-> t, r |-> r, name |-> b]
    [] t = 32 -> [t |-> t, r1 |-> r, id |-> b[1], r2 |-> b[2], r3 |-> b[3], r4 |-> b[4], sub |-> DecSyntaxes(SubSeq(b, 5, Len(b)))]
    [] t = 33 -> [t |-> t, r1 |-> r, id |-> b[1], r2 |-> b[2], res |-> b[3], r3 |-> b[4], sub |-> DecSyntaxes(SubSeq(b, 5, Len(b)))]
    [] t = 80 -> [t |-> t, r |-> r, sub |-> DecSubs(b)]
    [] OTHER -> [t |-> t, r |-> r, data |-> b]
DecItems(b) ==
  IF b = <<>> THEN <<>>
  ELSE LET n == N16(SubSeq(b, 3, 4)) IN
       <<DecItem(b[1], b[2], SubSeq(b, 5, 4 + n))>> \o DecItems(SubSeq(b, 5 + n, Len(b)))
DecPdvs(b) ==
  IF b = <<>> THEN <<>>
  ELSE LET n == N32(SubSeq(b, 1, 4)) IN
       <<[ctx |-> b[5], val |-> SubSeq(b, 6, 4 + n)]>> \o DecPdvs(SubSeq(b, 5 + n, Len(b)))
Dec(b) ==
  LET t == b[1]
      body == SubSeq(b, 7, Len(b)) IN
  CASE t \in {1, 2} -> [t |-> t, r1 |-> b[2], ver |-> N16(SubSeq(body, 1, 2)), r2 |-> N16(SubSeq(body, 3, 4)),
                        called |-> SubSeq(body, 5, 20), calling |-> SubSeq(body, 21, 36), r3 |-> SubSeq(body, 37, 68),
                        items |-> DecItems(SubSeq(body, 69, Len(body)))]
    [] t = 3 -> [t |-> t, r1 |-> b[2], r2 |-> body[1], result |-> body[2], source |-> body[3], reason |-> body[4]]
    [] t = 4 -> [t |-> t, r1 |-> b[2], pdvs |-> DecPdvs(body)]
    [] t \in {5, 6} -> [t |-> t, r1 |-> b[2], r2 |-> body]
    [] t = 7 -> [t |-> t, r1 |-> b[2], r2 |-> body[1], r3 |-> body[2], source |-> body[3], reason |-> body[4]]
    [] OTHER -> [t |-> t, r1 |-> b[2], data |-> body]

(* ------------------------------ the universe ------------------------------ *)
Txt(s) == s           \* texts are written directly as byte sequences
UidA == <<49, 46, 50>>                                                   \* "1.2"
UidB == <<49, 46, 50, 46, 56, 52, 48, 46, 49, 48, 48, 48, 56, 46, 49, 46, 49>>     \* "1.2.840.10008.1.1"
Uid64 == [i \in 1..64 |-> IF i % 2 = 1 THEN 49 + (i % 9) ELSE 46]        \* 64 characters
Title(n) == [i \in 1..16 |-> IF i <= n THEN 64 + i ELSE 32]             \* n letters, space padded to 16
Zeros(n) == [i \in 1..n |-> 0]
Max4 == {<<0, 0, 0, 0>>, <<0, 0, 0, 1>>, <<0, 0, 64, 0>>, <<128, 0, 0, 0>>, <<255, 255, 255, 255>>}

SubItems ==
     {[t |-> 81, r |-> 0, max |-> m] : m \in Max4}
  \cup {[t |-> 82, r |-> 0, uid |-> u] : u \in {<<>>, UidA, Uid64}}
  \cup {[t |-> 85, r |-> 0, name |-> n] : n \in {<<>>, <<86>>, Title(16)}}
  \cup {[t |-> 83, r |-> 0, inv |-> a, perf |-> b] : a \in {0, 1}, b \in {0, 65535}}
  \cup {[t |-> 84, r |-> 0, uid |-> u, scu |-> a, scp |-> 1 - a] : u \in {UidA, UidB}, a \in {0, 1}}
  \cup {[t |-> 86, r |-> 0, uid |-> u, info |-> i] : u \in {UidA, UidB}, i \in {<<>>, <<7>>, <<1, 2, 3>>}}
  \cup {[t |-> 88, r |-> 0, type |-> ty, resp |-> 1, prim |-> p, sec |-> s] :
          ty \in {1, 2}, p \in {<<>>, <<117, 115, 114>>}, s \in {<<>>, <<112, 119>>}}
  \cup {[t |-> 89, r |-> 0, rsp |-> x] : x \in {<<>>, <<116, 111, 107>>}}
  \cup {[t |-> ty, r |-> 0, data |-> d] : ty \in {87, 96}, d \in {<<>>, <<9, 9>>}}
  \cup {[t |-> 81, r |-> 255, max |-> <<0, 0, 64, 0>>]}

AppCtx == [t |-> 16, r |-> 0, name |-> UidB]
TS(u) == [t |-> 64, r |-> 0, name |-> u]
AS(u) == [t |-> 48, r |-> 0, name |-> u]
PcRq(id, ts) == [t |-> 32, r1 |-> 0, id |-> id, r2 |-> 0, r3 |-> 0, r4 |-> 0, sub |-> <<AS(UidB)>> \o ts]
PcAc(id, res, u) == [t |-> 33, r1 |-> 0, id |-> id, r2 |-> 0, res |-> res, r3 |-> 0, sub |-> <<TS(u)>>]
UI(subs) == [t |-> 80, r |-> 0, sub |-> subs]
Assoc(t, items) == [t |-> t, r1 |-> 0, ver |-> 1, r2 |-> 0, called |-> Title(7), calling |-> Title(4),
                    r3 |-> Zeros(32), items |-> items]

SeqsUpTo(S, n) == UNION {[1..k -> S] : k \in 0..n}

Universe ==
  CASE Mode = "ui2" -> {Assoc(1, <<AppCtx, PcRq(1, <<TS(UidA)>>), UI(s)>>) : s \in SeqsUpTo(SubItems, 2)}
    [] Mode = "ui3" -> {Assoc(1, <<AppCtx, PcRq(1, <<TS(UidA)>>), UI(s)>>) : s \in SeqsUpTo(SubItems, 3)}
    [] Mode = "pc" ->
         {Assoc(1, <<AppCtx>> \o pcs \o <<UI(<<[t |-> 81, r |-> 0, max |-> <<0, 0, 64, 0>>]>>)>>) :
             pcs \in SeqsUpTo({PcRq(id, ts) : id \in {1, 255}, ts \in SeqsUpTo({TS(UidA), TS(Uid64), TS(<<>>)}, 3)}, 2)}
         \cup {Assoc(2, <<AppCtx>> \o pcs \o <<UI(<<[t |-> 81, r |-> 0, max |-> <<0, 0, 64, 0>>]>>)>>) :
             pcs \in SeqsUpTo({PcAc(id, res, u) : id \in {1, 255}, res \in {0, 1, 4}, u \in {UidA, <<>>}}, 2)}
    [] Mode = "order" ->       \* item orders the library never produces itself
         {Assoc(t, its) : t \in {1, 2}, its \in
            { <<UI(<<[t |-> 81, r |-> 0, max |-> <<0, 0, 64, 0>>]>>), AppCtx, PcRq(3, <<TS(UidA), TS(UidB)>>)>>,
              <<AppCtx, UI(<<[t |-> 86, r |-> 0, uid |-> UidA, info |-> <<1, 2>>], [t |-> 81, r |-> 0, max |-> <<0, 0, 0, 1>>]>>), PcRq(5, <<TS(UidA)>>)>>,
              <<PcRq(1, <<TS(UidA)>>), AppCtx, UI(<<>>)>>,
              <<AppCtx, PcRq(1, <<>>), PcAc(3, 3, UidA), UI(<<[t |-> 96, r |-> 7, data |-> <<1>>]>>)>>,
              <<>>, <<AppCtx>>, <<UI(<<>>)>> }}
    [] Mode = "hdr" ->
         {[t |-> t, r1 |-> r1, ver |-> ver, r2 |-> r2, called |-> Title(a), calling |-> Title(b), r3 |-> r3,
           items |-> <<AppCtx, UI(<<[t |-> 81, r |-> 0, max |-> <<0, 0, 64, 0>>]>>)>>] :
             t \in {1, 2}, r1 \in {0, 255}, ver \in {0, 1, 65535}, r2 \in {0, 65535}, a \in {0, 1, 15, 16}, b \in {0, 16},
             r3 \in {Zeros(32), [i \in 1..32 |-> i]}}
    [] Mode = "small" ->
         {[t |-> 3, r1 |-> r1, r2 |-> r2, result |-> a, source |-> b, reason |-> c] :
             r1 \in {0, 9}, r2 \in {0, 8}, a \in {0, 1, 2, 255}, b \in {0, 1, 3, 255}, c \in {0, 1, 7, 255}}
         \cup {[t |-> 7, r1 |-> r1, r2 |-> r2, r3 |-> r3, source |-> b, reason |-> c] :
             r1 \in {0, 9}, r2 \in {0, 8}, r3 \in {0, 7}, b \in {0, 2, 255}, c \in {0, 1, 6, 255}}
         \cup {[t |-> t, r1 |-> r1, r2 |-> r2] : t \in {5, 6}, r1 \in {0, 255}, r2 \in {Zeros(4), <<255, 255, 255, 255>>, <<1, 2, 3, 4>>}}
         \cup {[t |-> 4, r1 |-> r1, pdvs |-> v] : r1 \in {0, 255},
                 v \in SeqsUpTo({[ctx |-> c, val |-> d] : c \in {1, 255}, d \in {<<>>, <<3>>, <<2, 170, 187>>}}, 3) \ {<<>>}}
    [] OTHER -> {}

VARIABLE s
Init == s \in Universe
Next == UNCHANGED s
Spec == Init /\ [][Next]_s

(* ---- properties of the reference itself ---- *)
RoundTrip == Dec(Enc(s)) = s
TotalLength == Len(Enc(s)) = 6 + N32(SubSeq(Enc(s), 3, 6))
RECURSIVE ItemsTile(_)
ItemsTile(b) == b = <<>> \/ (Len(b) >= 4 /\ 4 + N16(SubSeq(b, 3, 4)) <= Len(b) /\ ItemsTile(SubSeq(b, 5 + N16(SubSeq(b, 3, 4)), Len(b))))
LengthsExact == s.t \in {1, 2} => ItemsTile(SubSeq(Enc(s), 75, Len(Enc(s))))
Emit == PrintT("@@" \o ToJson([s |-> s, b |-> Enc(s)]) \o "@@")
=============================================================================
