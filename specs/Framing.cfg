SPECIFICATION Spec
CONSTANT Lens <- LensSmall
INVARIANT Conservation
INVARIANT PrefixOfSent
INVARIANT Aligned
PROPERTY AllRecognised
