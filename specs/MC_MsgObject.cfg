SPECIFICATION MCSpec
CONSTANTS Depth = 3
 Lens = {1, 2, 63, 64}
INVARIANT FlagConsistent
INVARIANT Emit
