SPECIFICATION Spec
CONSTANT MaxCtx = 2
INVARIANT Achievable
INVARIANT WrongsCaught
