SPECIFICATION MCSpec
CONSTANTS
  ReadMax = 0 Role = TRUE
 PeerBudget = 2
 UserBudget = 2
 Faults = TRUE
INVARIANT TypeOK
INVARIANT ArtimExactly
INVARIANT IdleImpliesClosed
INVARIANT PairedSlot
INVARIANT ToldGone
INVARIANT EvqShort
PROPERTY MCPData
PROPERTY MCNoIndAfterEnd
PROPERTY Sta13Leaves
PROPERTY Sta2Leaves
PROPERTY FinHome
