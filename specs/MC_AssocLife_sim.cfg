SPECIFICATION MCSimSpec
CONSTANTS
  Triples <- MCTriples
  Reasons <- MCReasons
  Timeouts = FALSE
  Strict = TRUE
  MaxReq = 2
INVARIANT RefusalFaithful
INVARIANT AbortFaithful
INVARIANT ReleaseFaithful
INVARIANT ExitFaithful
INVARIANT ServiceOnlyWhenAccepted
INVARIANT PrintScripts
