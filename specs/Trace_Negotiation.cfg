SPECIFICATION TraceSpec
POSTCONDITION Report
