SPECIFICATION Spec
INVARIANT CellCount
INVARIANT ArtimInv
INVARIANT NextStateInRange
