SPECIFICATION Spec
CONSTANT Mode = "ui3"
INVARIANT RoundTrip
INVARIANT TotalLength
INVARIANT LengthsExact
INVARIANT Emit
