----------------------------- MODULE ULFsmCells -----------------------------
(* C04: one TLC transition per cell of PS3.8 Table 9-10 and per role.  The   *)
(* initial states are all <<state, event, role>>; Next fires the cell when   *)
(* the standard defines it.  Each transition prints the expected effect as   *)
(* JSON; the harness runs the same cell on the real StateMachine and compares*)
EXTENDS ULFsm, TLC, Json

VARIABLES s, e, req, artim, phase
vars == <<s, e, req, artim, phase>>

(* ARTIM runs exactly in Sta2 and Sta13 in any reachable configuration *)
Init == /\ s \in States /\ e \in Events /\ req \in BOOLEAN
        /\ artim = (s \in {2, 13}) /\ phase = "pre"

Outcome(a, nxt, alt) ==
  [st |-> s, ev |-> e, req |-> req, act |-> a, next |-> nxt, alt |-> alt,
   wire |-> WireOf(a), ind |-> IndOf(a), closes |-> Closes(a), opens |-> Opens(a),
   timer |-> TimerOf(a), absrc |-> AbortSourceFixed(a, e),
   artimBefore |-> artim,
   artimAfter |-> CASE TimerOf(a) \in {"start", "restart"} -> TRUE
                    [] TimerOf(a) = "stop" -> FALSE [] OTHER -> artim]

Fire == /\ phase = "pre" /\ Defined(e, s)
        /\ LET c == Cell(e, s, req) IN
             /\ s' = c[2]
             /\ artim' = Outcome(c[1], c[2], FALSE).artimAfter
             /\ PrintT("@@" \o ToJson(Outcome(c[1], c[2], FALSE)) \o "@@")
        /\ phase' = "post" /\ UNCHANGED <<e, req>>

(* AE-6, request not acceptable: send A-ASSOCIATE-RJ, start ARTIM, Sta13 *)
FireAE6Reject ==
        /\ phase = "pre" /\ e = 6 /\ s = 2
        /\ s' = 13 /\ artim' = TRUE
        /\ PrintT("@@" \o ToJson([Outcome("AE6", 13, TRUE) EXCEPT !.wire = "RJ", !.ind = "-",
                                     !.timer = "start", !.artimAfter = TRUE]) \o "@@")
        /\ phase' = "post" /\ UNCHANGED <<e, req>>

Next == Fire \/ FireAE6Reject
Spec == Init /\ [][Next]_vars

(* properties of the transcription itself *)
CellCount == NDefined = 123
ArtimInv == artim <=> (s \in {2, 13})      \* holds before and after every defined cell
NextStateInRange == s \in States
=============================================================================
