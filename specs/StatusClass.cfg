SPECIFICATION Spec
CONSTANT CodeSet <- Boundary
INVARIANT Decided
INVARIANT ServiceTablesUnambiguous
INVARIANT ZeroIsSuccess
INVARIANT PendingCodes
INVARIANT ServicePrecedence
INVARIANT UnknownIsFailure
