--------------------------- MODULE MC_AssocLifeP ---------------------------
(* As MC_AssocLife, but the history keeps only what EACH application does (its program), not how the  *)
(* two interleave: every pair of programs the design admits, without the interleaving blow-up.       *)
EXTENDS AssocLife, Json
VARIABLES hr, ha
mvars == <<vars, hr, ha>>

MCTriples == {<<1, 2, 3>>}
MCReasons == {5}

R(a, name) == a /\ hr' = Append(hr, name) /\ ha' = ha
A(a, name) == a /\ ha' = Append(ha, name) /\ hr' = hr

MCInit == Init /\ hr = <<>> /\ ha = <<>>
MCNext ==
  \/ R(RqRequest, "RqRequest") \/ R(RqAssocInd, "RqAssocInd") \/ R(RqSend, "RqSend") \/ R(RqWait, "RqWait")
  \/ R(RqRecv, "RqRecv") \/ R(RqExitNormal, "RqExitNormal") \/ R(RqRelDone, "RqRelDone") \/ R(RqExitError, "RqExitError")
  \/ (\E r \in Reasons : R(RqAbort(r), "RqAbort") \/ A(AcAbort(r), "AcAbort"))
  \/ (\E t \in Triples : A(AcRefuse(t), "AcRefuse"))
  \/ A(AcAccept, "AcAccept") \/ A(AcRecv, "AcRecv") \/ A(AcRespond, "AcRespond") \/ A(AcReturn, "AcReturn")
  \/ A(AcRelease, "AcRelease") \/ A(AcRelDone, "AcRelDone")
  \/ (SysNext /\ UNCHANGED <<hr, ha>>)
  \/ (Terminal /\ UNCHANGED mvars)
MCSpec == MCInit /\ [][MCNext]_mvars /\ WF_mvars(MCNext)

PrintScripts == Terminal => PrintT("@@" \o ToJson([script |-> hr \o ha, acted |-> acted]) \o "@@")
MCBothFinish == <>[]Terminal
=============================================================================
