----------------------------- MODULE StatusClass -----------------------------
(***************************************************************************)
(* Classification of DIMSE status codes (PS3.7 Annex C; PS3.4 B.2.3,       *)
(* C.4.1.1.4, C.4.2.1.5, C.4.3.1.4), transcribed from the standard.        *)
(*                                                                         *)
(* Cmd is the Command Field of a response message (0 = no command given).  *)
(* Allowed(cmd, code) is the set of classes an implementation may give:    *)
(* a single class wherever the property's statement decides it (0000H is   *)
(* Success; a code in the command's service table has that table's class,  *)
(* in preference to the general one; an unknown code is a Failure), two    *)
(* where the standard's general table (Warning for 0107H / 0116H) and a    *)
(* plain "failure" reading are both defensible and the statement is silent. *)
(***************************************************************************)
EXTENDS Naturals, FiniteSets, Sequences, TLC

Classes == {"Success", "Pending", "Warning", "Cancel", "Failure"}
CStoreRsp == 32769  CGetRsp == 32784  CFindRsp == 32800  CMoveRsp == 32801  CEchoRsp == 32816
NEventRsp == 33024  NGetRsp == 33040  NSetRsp == 33056  NActionRsp == 33072  NCreateRsp == 33088  NDeleteRsp == 33104
Cmds == {0, CStoreRsp, CGetRsp, CFindRsp, CMoveRsp, CEchoRsp, NEventRsp, NGetRsp, NSetRsp, NActionRsp, NCreateRsp, NDeleteRsp}
Codes == 0..65535
CONSTANT CodeSet

In(c, lo, hi) == c >= lo /\ c <= hi
(* service tables: <<lo, hi, class>> *)
StoreTable == << <<42752, 43007, "Failure">>,      \* A7xx refused: out of resources
                 <<43264, 43519, "Failure">>,      \* A9xx data set does not match SOP class
                 <<49152, 53247, "Failure">>,      \* Cxxx cannot understand
                 <<45056, 45056, "Warning">>,      \* B000 coercion of data elements
                 <<45063, 45063, "Warning">>,      \* B007 data set does not match SOP class
                 <<45062, 45062, "Warning">> >>    \* B006 elements discarded
FindTable  == << <<42752, 42752, "Failure">>,      \* A700
                 <<43264, 43264, "Failure">>,      \* A900
                 <<49152, 53247, "Failure">>,      \* Cxxx unable to process
                 <<65024, 65024, "Cancel">>,       \* FE00 matching terminated due to cancel request
                 <<65280, 65280, "Pending">>,      \* FF00
                 <<65281, 65281, "Pending">> >>    \* FF01
GetTable   == << <<42753, 42753, "Failure">>,      \* A701
                 <<42754, 42754, "Failure">>,      \* A702
                 <<43264, 43264, "Failure">>,      \* A900
                 <<49152, 53247, "Failure">>,      \* Cxxx
                 <<65024, 65024, "Cancel">>,       \* FE00
                 <<45056, 45056, "Warning">>,      \* B000 sub-operations complete, one or more failures
                 <<65280, 65280, "Pending">> >>    \* FF00
MoveTable  == << <<42753, 42753, "Failure">>, <<42754, 42754, "Failure">>,
                 <<43009, 43009, "Failure">>,      \* A801 move destination unknown
                 <<43264, 43264, "Failure">>, <<49152, 53247, "Failure">>,
                 <<65024, 65024, "Cancel">>, <<45056, 45056, "Warning">>, <<65280, 65280, "Pending">> >>
TableOf(cmd) == CASE cmd = CStoreRsp -> StoreTable [] cmd = CFindRsp -> FindTable
                  [] cmd = CGetRsp -> GetTable [] cmd = CMoveRsp -> MoveTable [] OTHER -> <<>>
ServiceClass(cmd, c) == {TableOf(cmd)[i][3] : i \in {j \in 1..Len(TableOf(cmd)) : In(c, TableOf(cmd)[j][1], TableOf(cmd)[j][2])}}

(* PS3.7 Annex C codes listed individually (C.4, C.5): failures, except the two the standard calls warnings *)
GeneralFailure == {261, 262, 272, 273, 274, 275, 276, 277, 279, 280, 281, 288, 289, 290, 291, 292, 528, 529, 530, 531}
GeneralWarningInStandard == {263, 278}     \* 0107H attribute list error, 0116H attribute value out of range

Allowed(cmd, c) ==
  IF ServiceClass(cmd, c) # {} THEN ServiceClass(cmd, c)
  ELSE IF c = 0 THEN {"Success"}
  ELSE IF c \in GeneralWarningInStandard THEN {"Warning", "Failure"}
  ELSE {"Failure"}

(* --- checked by TLC over every <<cmd, code>> --- *)
VARIABLES cmd, code
Init == cmd \in Cmds /\ code \in CodeSet
Next == UNCHANGED <<cmd, code>>
Spec == Init /\ [][Next]_<<cmd, code>>
Decided == Allowed(cmd, code) # {} /\ Allowed(cmd, code) \subseteq Classes
ServiceTablesUnambiguous == Cardinality(ServiceClass(cmd, code)) <= 1
ZeroIsSuccess == code = 0 => Allowed(cmd, code) = {"Success"}
PendingCodes == /\ (cmd = CFindRsp /\ code \in {65280, 65281}) => Allowed(cmd, code) = {"Pending"}
                /\ (cmd \in {CGetRsp, CMoveRsp} /\ code = 65280) => Allowed(cmd, code) = {"Pending"}
ServicePrecedence == ServiceClass(cmd, code) # {} => Allowed(cmd, code) = ServiceClass(cmd, code)
UnknownIsFailure == (ServiceClass(cmd, code) = {} /\ code # 0 /\ code \notin GeneralWarningInStandard) => Allowed(cmd, code) = {"Failure"}
Boundary == {0, 1, 255, 256, 260, 261, 262, 263, 264, 277, 278, 279, 291, 292, 293, 527, 528, 529, 530, 531, 532, 4660, 32768, 42751, 42752, 42753, 42754, 42755, 43006, 43007, 43008, 43009, 43010, 43263, 43264, 43265, 43518, 43519, 43520, 45055, 45056, 45057, 45061, 45062, 45063, 45064, 49151, 49152, 49153, 53246, 53247, 53248, 65023, 65024, 65025, 65279, 65280, 65281, 65282, 65534, 65535}
AllCodes == Codes
=============================================================================
