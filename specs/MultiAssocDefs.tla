---- MODULE MultiAssocDefs ----
EXTENDS MultiAssoc
TablesSmall == {[c \in 1..2 |-> v] : v \in {"a", "b"}} \cup {[c \in 1..2 |-> IF c = 1 THEN "a" ELSE "b"]}
Bound == \A i \in Assocs : mids[i] <= 2
====
