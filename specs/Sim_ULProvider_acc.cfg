SPECIFICATION MCSpec
CONSTANTS Role = FALSE
 PeerBudget = 5
 UserBudget = 5
 Faults = FALSE
INVARIANT TypeOK
