-------------------------- MODULE Trace_StatusClass --------------------------
(* The library's classification of ALL 65536 codes for one command arrives as maximal runs             *)
(* [lo, hi, cls, flagsOK, intOK]; TLC checks every code of every run against Allowed.                  *)
EXTENDS StatusClass, Json, IOUtils, TLCExt
Cases == JsonDeserialize(IOEnv.TRACE_FILE)
VARIABLES tid, l, bad
tvars == <<cmd, code, tid, l, bad>>
F(cond, name) == IF cond THEN <<name>> ELSE <<>>
RECURSIVE Covers(_, _)
Covers(runs, from) == IF runs = <<>> THEN from = 65536 ELSE Head(runs).lo = from /\ Head(runs).hi >= from /\ Covers(Tail(runs), Head(runs).hi + 1)
Judge(c) ==
     F(~Covers(c.runs, 0), "total-over-all-65536-codes")
  \o F(\E i \in 1..Len(c.runs) : ~c.runs[i].flagsOK, "exactly-one-of-the-five-flags")
  \o F(\E i \in 1..Len(c.runs) : ~c.runs[i].intOK, "int-returns-the-code")
  \o F(\E i \in 1..Len(c.runs) : c.runs[i].cls \notin Classes, "class-is-one-of-five")
  \o F(\E i \in 1..Len(c.runs) : \E x \in c.runs[i].lo..c.runs[i].hi : x = 0 /\ c.runs[i].cls # "Success", "zero-is-success")
  \o F(\E i \in 1..Len(c.runs) : \E x \in c.runs[i].lo..c.runs[i].hi :
          ServiceClass(c.cmd, x) # {} /\ ~(c.runs[i].cls \in ServiceClass(c.cmd, x)), "service-specific-code-gets-the-service-class")
  \o F(\E i \in 1..Len(c.runs) : \E x \in c.runs[i].lo..c.runs[i].hi :
          ServiceClass(c.cmd, x) = {} /\ x # 0 /\ ~(c.runs[i].cls \in Allowed(c.cmd, x)), "unknown-code-is-failure")
TraceInit == tid \in 1..Len(Cases) /\ l = 1 /\ bad = <<>> /\ cmd = 0 /\ code = 0 /\ TLCSet(tid, [reached |-> 0, inv |-> <<>>])
TraceNext == /\ l = 1 /\ l' = 2 /\ tid' = tid /\ UNCHANGED <<cmd, code>> /\ bad' = Judge(Cases[tid][1])
             /\ TLCSet(tid, [reached |-> 1, inv |-> bad'])
TraceSpec == TraceInit /\ [][TraceNext]_tvars
Report == \A i \in 1..Len(Cases) :
   PrintT("@@" \o ToJson([tid |-> i, reached |-> TLCGet(i).reached, len |-> 1, inv |-> TLCGet(i).inv]) \o "@@")
=============================================================================
