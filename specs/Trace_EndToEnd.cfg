SPECIFICATION TraceSpec
POSTCONDITION Report
