SPECIFICATION TraceSpec
POSTCONDITION Report
