SPECIFICATION TraceSpec
POSTCONDITION Report
