---------------------------- MODULE Trace_EndToEnd ----------------------------
EXTENDS EndToEnd, Json, IOUtils, TLCExt
Cases == JsonDeserialize(IOEnv.TRACE_FILE)
VARIABLES tid, l, bad
tvars == <<tid, l, bad>>
TraceInit == tid \in 1..Len(Cases) /\ l = 1 /\ bad = <<>> /\ TLCSet(tid, [reached |-> 0, inv |-> <<>>])
TraceNext == /\ l = 1 /\ l' = 2 /\ tid' = tid /\ bad' = Clauses(Cases[tid][1])
             /\ TLCSet(tid, [reached |-> 1, inv |-> bad'])
TraceSpec == TraceInit /\ [][TraceNext]_tvars
Report == \A i \in 1..Len(Cases) :
   PrintT("@@" \o ToJson([tid |-> i, reached |-> TLCGet(i).reached, len |-> 1, inv |-> TLCGet(i).inv]) \o "@@")
=============================================================================
