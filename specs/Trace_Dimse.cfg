SPECIFICATION TraceSpec
POSTCONDITION Report
