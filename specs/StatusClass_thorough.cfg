SPECIFICATION Spec
CONSTANT CodeSet <- AllCodes
INVARIANT Decided
INVARIANT ServiceTablesUnambiguous
INVARIANT ZeroIsSuccess
INVARIANT PendingCodes
INVARIANT ServicePrecedence
INVARIANT UnknownIsFailure
