------------------------------- MODULE ULFsm -------------------------------
(***************************************************************************)
(* DICOM PS3.8 section 9.2 - the upper-layer protocol machine, Table 9-10. *)
(* Transcribed from the standard, NOT from pynetdicom2/fsm.py.             *)
(*                                                                         *)
(* States Sta1..Sta13 are the integers 1..13, events Evt1..Evt19 are       *)
(* 1..19.  Cell(e, s, isReq) is <<action, next state>>, "none" where the   *)
(* standard leaves the combination undefined.  The effect operators say    *)
(* what each action does to the four observable surfaces of the machine:   *)
(* the wire, the local user, the transport connection and the ARTIM timer. *)
(***************************************************************************)
EXTENDS Naturals, Sequences, FiniteSets

States == 1..13
Events == 1..19
Mid == 6..12          \* Sta6..Sta12: the states with an association in being

Cell(e, s, isReq) ==
  CASE e = 1  /\ s = 1  -> <<"AE1", 4>>
    [] e = 2  /\ s = 4  -> <<"AE2", 5>>
    [] e = 3  /\ s = 2  -> <<"AA1", 13>>
    [] e = 3  /\ s = 3  -> <<"AA8", 13>>
    [] e = 3  /\ s = 5  -> <<"AE3", 6>>
    [] e = 3  /\ s \in Mid -> <<"AA8", 13>>
    [] e = 3  /\ s = 13 -> <<"AA6", 13>>
    [] e = 4  /\ s = 2  -> <<"AA1", 13>>
    [] e = 4  /\ s = 3  -> <<"AA8", 13>>
    [] e = 4  /\ s = 5  -> <<"AE4", 1>>
    [] e = 4  /\ s \in Mid -> <<"AA8", 13>>
    [] e = 4  /\ s = 13 -> <<"AA6", 13>>
    [] e = 5  /\ s = 1  -> <<"AE5", 2>>
    [] e = 6  /\ s = 2  -> <<"AE6", 3>>      \* or Sta13 when the request is not acceptable
    [] e = 6  /\ s \in {3, 5} \cup Mid -> <<"AA8", 13>>
    [] e = 6  /\ s = 13 -> <<"AA7", 13>>
    [] e = 7  /\ s = 3  -> <<"AE7", 6>>
    [] e = 8  /\ s = 3  -> <<"AE8", 13>>
    [] e = 9  /\ s = 6  -> <<"DT1", 6>>
    [] e = 9  /\ s = 8  -> <<"AR7", 8>>
    [] e = 10 /\ s = 2  -> <<"AA1", 13>>
    [] e = 10 /\ s \in {3, 5} -> <<"AA8", 13>>
    [] e = 10 /\ s = 6  -> <<"DT2", 6>>
    [] e = 10 /\ s = 7  -> <<"AR6", 7>>
    [] e = 10 /\ s \in 8..12 -> <<"AA8", 13>>
    [] e = 10 /\ s = 13 -> <<"AA6", 13>>
    [] e = 11 /\ s = 6  -> <<"AR1", 7>>
    [] e = 12 /\ s = 2  -> <<"AA1", 13>>
    [] e = 12 /\ s \in {3, 5} -> <<"AA8", 13>>
    [] e = 12 /\ s = 6  -> <<"AR2", 8>>
    [] e = 12 /\ s = 7  -> <<"AR8", IF isReq THEN 9 ELSE 10>>
    [] e = 12 /\ s \in 8..12 -> <<"AA8", 13>>
    [] e = 12 /\ s = 13 -> <<"AA6", 13>>
    [] e = 13 /\ s = 2  -> <<"AA1", 13>>
    [] e = 13 /\ s \in {3, 5, 6, 8, 9, 12} -> <<"AA8", 13>>
    [] e = 13 /\ s \in {7, 11} -> <<"AR3", 1>>
    [] e = 13 /\ s = 10 -> <<"AR10", 12>>
    [] e = 13 /\ s = 13 -> <<"AA6", 13>>
    [] e = 14 /\ s \in {8, 12} -> <<"AR4", 13>>
    [] e = 14 /\ s = 9  -> <<"AR9", 11>>
    [] e = 15 /\ s = 3  -> <<"AA1", 13>>
    [] e = 15 /\ s = 4  -> <<"AA2", 1>>
    [] e = 15 /\ s \in {5} \cup Mid -> <<"AA1", 13>>
    [] e = 16 /\ s \in {2, 13} -> <<"AA2", 1>>
    [] e = 16 /\ s \in {3, 5} \cup Mid -> <<"AA3", 1>>
    [] e = 17 /\ s = 2  -> <<"AA5", 1>>
    [] e = 17 /\ s \in 3..12 -> <<"AA4", 1>>
    [] e = 17 /\ s = 13 -> <<"AR5", 1>>
    [] e = 18 /\ s \in {2, 13} -> <<"AA2", 1>>
    [] e = 19 /\ s = 2  -> <<"AA1", 13>>
    [] e = 19 /\ s \in {3, 5} \cup Mid -> <<"AA8", 13>>
    [] e = 19 /\ s = 13 -> <<"AA7", 13>>
    [] OTHER -> <<"none", s>>

Defined(e, s) == Cell(e, s, TRUE)[1] # "none"
NDefined == Cardinality({es \in Events \X States : Defined(es[1], es[2])})

(* What goes on the wire.  "AB" = A-ABORT PDU. *)
WireOf(a) ==
  CASE a = "AE2" -> "RQ" [] a = "AE7" -> "AC" [] a = "AE8" -> "RJ"
    [] a \in {"DT1", "AR7"} -> "PD" [] a = "AR1" -> "RLRQ" [] a \in {"AR4", "AR9"} -> "RLRP"
    [] a \in {"AA1", "AA7", "AA8"} -> "AB" [] OTHER -> "-"

(* What the local user is told.  DT-2 / AR-6 are handled by the caller     *)
(* (the indication depends on message reassembly).                         *)
IndOf(a) ==
  CASE a = "AE3" -> "AC" [] a = "AE4" -> "RJ" [] a = "AE6" -> "RQ"
    [] a \in {"AR2", "AR8"} -> "RLRQ" [] a \in {"AR3", "AR10"} -> "RLRP"
    [] a \in {"AA3", "AA4", "AA8"} -> "AB" [] OTHER -> "-"

Closes(a) == a \in {"AE4", "AR3", "AA2", "AA3"}
Opens(a)  == a = "AE1"

(* ARTIM: "start", "restart" (start or restart), "stop" (stop, or stop if  *)
(* running), "-" untouched.                                                *)
TimerOf(a) ==
  CASE a \in {"AE5", "AE8", "AR4", "AA8"} -> "start" [] a = "AA1" -> "restart"
    [] a \in {"AE6", "AR5", "AA2", "AA5"} -> "stop" [] OTHER -> "-"

(* Which A-ABORT source the standard fixes: AA-8 says "service-provider    *)
(* source" (2); AA-1 triggered by the user's A-ABORT request carries the   *)
(* user's PDU unchanged; AA-1 / AA-7 on a PDU from the peer: source free.  *)
AbortSourceFixed(a, e) == IF a = "AA8" THEN "provider" ELSE IF a = "AA1" /\ e = 15 THEN "asgiven" ELSE "free"

EvtName(e) == <<"Evt1","Evt2","Evt3","Evt4","Evt5","Evt6","Evt7","Evt8","Evt9","Evt10","Evt11","Evt12",
                "Evt13","Evt14","Evt15","Evt16","Evt17","Evt18","Evt19">>[e]
=============================================================================
