SPECIFICATION MCSpec
CONSTANTS
  ReadMax = 0 Role = FALSE
 PeerBudget = 3
 UserBudget = 3
 Faults = FALSE
INVARIANT TypeOK
INVARIANT ArtimExactly
INVARIANT IdleImpliesClosed
INVARIANT PairedSlot
INVARIANT ToldGone
INVARIANT EvqShort
PROPERTY MCPData
PROPERTY MCNoIndAfterEnd
PROPERTY Sta13Leaves
PROPERTY Sta2Leaves
PROPERTY FinHome
