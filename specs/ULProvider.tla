----------------------------- MODULE ULProvider -----------------------------
(***************************************************************************)
(* The DICOM upper-layer service provider of pynetdicom2 as a whole:       *)
(* transport (byte counts in flight / arrived / buffered), framing, the    *)
(* one-slot "current PDU", the FIFO of pending events, the queue of user   *)
(* primitives and DIMSE fragment generators, the ARTIM timer, DIMSE        *)
(* reassembly inside DT-2 / AR-6, and the PS3.8 Table 9-10 machine (module *)
(* ULFsm) that every popped event is run through.                          *)
(*                                                                         *)
(* One action per critical section of dulprovider.DULServiceProvider.run:  *)
(* Iterate(rcv, src) is ONE loop iteration = optional socket read, at most *)
(* one new event from one ready source, at most one event popped and its   *)
(* table action applied.  The environment (peer, network, user, clock) is  *)
(* PeerSend, Arrive, PeerFin, UserPut, Tick.                               *)
(*                                                                         *)
(* Freedom deliberately left to the implementation (DESIGN.md 3.3):        *)
(*  - which ready source an iteration serves (no priority in PS3.8);       *)
(*  - whether it polls while an event is still pending (the invariant      *)
(*    PairedSlot separates the harmless lag from the overwritten slot);    *)
(*  - A-ABORT source/reason where the standard is silent ("free").         *)
(* Named deviations of the library modelled as what the code does:         *)
(*  DEV-PDATA-IND-PER-MESSAGE  P-DATA is indicated per reassembled message *)
(*  DEV-AE6-ALWAYS-ACCEPT      AE-6 always finds the request acceptable    *)
(*  DEV-STA13-DISCARD          in Sta13 arriving bytes are discarded, not  *)
(*                             framed (AA-6 for everything); EOF -> Evt17  *)
(***************************************************************************)
EXTENDS ULFsm, Integers, TLC

CONSTANT ReadMax     \* bytes one read of the socket returns at most (the provider's own maximum PDU length); 0 = everything that has arrived

VARIABLES
  isReq,     \* TRUE: association requestor (no socket at birth)
  st,        \* 1..13
  sock,      \* "none" | "open"      (dul_socket is None / a socket)
  stream,    \* frames the peer has sent that are not yet recognised: Seq([k, f, pdvs, len, grey])
  transit,   \* bytes sent by the peer, not yet arrived
  rx,        \* bytes arrived at the socket, not yet read
  raw,       \* bytes read, not yet recognised as PDUs          (raw_pdu)
  peerFin,   \* the peer closed its sending side
  wdead,     \* the transport is dead for writing too (connection reset): a send fails
  nid,       \* payload ids handed out so far
  evq,       \* Seq([e, id]) pending events                     (event)
  slot,      \* current payload [id, k, f, pdvs, grey]          (primitive)
  uq,        \* Seq of user items: a payload or [k |-> "GEN", frags |-> Seq(payload)]
  gen,       \* remaining fragments of the active generator (<<>> = none)      (dimse_gen)
  artim,     \* "off" | "run" | "exp"
  dec,       \* reassembly: [cr, dr, unk]
  user,      \* what the local user knows: "idle" | "assoc" | "over"
  ended,     \* the machine has come back to Sta1
  out        \* outputs of the last step (overwritten every step)

vars == <<isReq, st, sock, stream, transit, rx, raw, peerFin, wdead, nid, evq, slot, uq, gen, artim, dec, user, ended, out>>

Fresh  == [cr |-> FALSE, dr |-> FALSE, unk |-> FALSE]      \* reassembly state: nothing received
NoSlot == [id |-> 0, k |-> "-", f |-> <<>>, pdvs |-> <<>>, grey |-> FALSE]
NoGen  == <<>>
Free   == <<"free">>              \* a field the standard leaves to the implementation
NoOut  == [act |-> "-", evt |-> 0, wire |-> <<>>, ind |-> <<>>, closed |-> FALSE, paired |-> TRUE]

PeerKinds == {"RQ", "AC", "RJ", "PD", "RLRQ", "RLRP", "AB", "UNK"}
EvtOfPdu(k) == CASE k = "RQ" -> 6 [] k = "AC" -> 3 [] k = "RJ" -> 4 [] k = "PD" -> 10
                 [] k = "RLRQ" -> 12 [] k = "RLRP" -> 13 [] k = "AB" -> 16 [] OTHER -> 19
UserKinds == {"RQ", "AC", "RJ", "PD", "RLRQ", "RLRP", "AB"}
EvtOfPrim(k) == CASE k = "RQ" -> 1 [] k = "AC" -> 7 [] k = "RJ" -> 8 [] k = "PD" -> 9
                  [] k = "RLRQ" -> 11 [] k = "RLRP" -> 14 [] OTHER -> 15
ReadsSlot(e) == e \in {1, 3, 4, 6, 7, 8, 9, 10, 12, 13, 15, 16}

InitFor(role) ==
  /\ isReq = role /\ st = 1 /\ sock = (IF role THEN "none" ELSE "open")
  /\ stream = <<>> /\ transit = 0 /\ rx = 0 /\ raw = 0 /\ peerFin = FALSE /\ wdead = FALSE
  /\ nid = 0 /\ evq = (IF role THEN <<>> ELSE <<[e |-> 5, id |-> 0]>>)
  /\ slot = NoSlot /\ uq = <<>> /\ gen = NoGen /\ artim = "off" /\ dec = Fresh
  /\ user = "idle" /\ ended = FALSE /\ out = NoOut

(* ------------------------------ environment ------------------------------ *)
SumLen(fs) == IF fs = <<>> THEN 0 ELSE LET S[i \in 0..Len(fs)] == IF i = 0 THEN 0 ELSE S[i-1] + fs[i].len IN S[Len(fs)]

PeerSend(frames, n) ==     \* n = bytes really written (less than SumLen(frames) when the last PDU is truncated)
  /\ ~peerFin
  /\ stream' = stream \o frames /\ transit' = transit + n
  /\ out' = NoOut
  /\ UNCHANGED <<isReq, st, sock, rx, raw, peerFin, wdead, nid, evq, slot, uq, gen, artim, dec, user, ended>>

Arrive(n) ==
  /\ n \in 1..transit
  /\ transit' = transit - n /\ rx' = rx + n /\ out' = NoOut
  /\ UNCHANGED <<isReq, st, sock, stream, raw, peerFin, wdead, nid, evq, slot, uq, gen, artim, dec, user, ended>>

PeerFin ==
  /\ ~peerFin /\ peerFin' = TRUE /\ out' = NoOut
  /\ UNCHANGED <<isReq, st, sock, stream, transit, rx, raw, wdead, nid, evq, slot, uq, gen, artim, dec, user, ended>>

UserPut(item) ==
  /\ uq' = Append(uq, item) /\ out' = NoOut
  /\ UNCHANGED <<isReq, st, sock, stream, transit, rx, raw, peerFin, wdead, nid, evq, slot, gen, artim, dec, user, ended>>

PeerReset ==   \* the connection is reset: nothing more arrives, reads see the end at once, writes fail
  /\ ~peerFin /\ peerFin' = TRUE /\ wdead' = TRUE /\ transit' = 0 /\ rx' = 0 /\ out' = NoOut
  /\ UNCHANGED <<isReq, st, sock, stream, raw, nid, evq, slot, uq, gen, artim, dec, user, ended>>

PeerDeaf ==    \* the peer stops receiving (half-dead connection): nothing changes for reads, the next write fails
  /\ ~wdead /\ wdead' = TRUE /\ out' = NoOut
  /\ UNCHANGED <<isReq, st, sock, stream, transit, rx, raw, peerFin, nid, evq, slot, uq, gen, artim, dec, user, ended>>

Tick ==     \* enough time passes for a running ARTIM to be past its limit
  /\ artim = "run" /\ artim' = "exp" /\ out' = NoOut
  /\ UNCHANGED <<isReq, st, sock, stream, transit, rx, raw, peerFin, wdead, nid, evq, slot, uq, gen, dec, user, ended>>

(* ------------------------------ reassembly ------------------------------- *)
(* PDV flavours: "Cn" command fragment, "C0" last command fragment of a    *)
(* message without data set, "C1" last command fragment, data set follows, *)
(* "Dn" data fragment, "Dl" last data fragment.  Returns <<dec', done>>.    *)
PdvStep(d, fl) ==
  CASE fl = "Cn" -> <<d, FALSE>>
    [] fl = "C0" -> <<Fresh, TRUE>>
    [] fl = "C1" -> IF d.dr THEN <<Fresh, TRUE>> ELSE <<[d EXCEPT !.cr = TRUE], FALSE>>
    [] fl = "Dn" -> <<d, FALSE>>
    [] fl = "Dl" -> IF d.cr THEN <<Fresh, TRUE>> ELSE <<[d EXCEPT !.dr = TRUE], FALSE>>
    [] OTHER -> <<d, FALSE>>
RECURSIVE DecRun(_, _)
DecRun(d, pdvs) ==          \* stops at completion (the rest of the PDU is not looked at)
  IF pdvs = <<>> THEN <<d, FALSE, 0>>
  ELSE LET r == PdvStep(d, Head(pdvs).fl) IN
       IF r[2] THEN <<Fresh, TRUE, Head(pdvs).m>> ELSE DecRun(r[1], Tail(pdvs))

(* data fragments before the command set is complete: out of contract (PS3.7 6.3.1), the reaction is free *)
IrregularData(d, pdvs) == \E i \in 1..Len(pdvs) : pdvs[i].fl \in {"Dn", "Dl"} /\ ~d.cr
                                                    /\ \A j \in 1..(i - 1) : pdvs[j].fl \notin {"C0", "C1"}

(* ------------------------------ one iteration ----------------------------- *)
Readable == sock = "open" /\ (rx > 0 \/ (peerFin /\ transit = 0))
HeadComplete(r) == stream # <<>> /\ r >= Head(stream).len

(* Sources that can yield an event in an iteration, given rcv bytes were just read *)
SrcReady(src, r, eof) ==
  CASE src = "conn"  -> sock = "open" /\ st = 4
    [] src = "frame" -> sock = "open" /\ st \notin {4, 13} /\ HeadComplete(r) /\ ~eof
    [] src = "eof"   -> eof
    [] src = "user"  -> gen # <<>> \/ uq # <<>>
    [] src = "timer" -> artim = "exp"
    [] src = "none"  -> TRUE
    [] OTHER -> FALSE

Iterate(rcv, src, wireF, indF, asInvalid, dimseFail, msgInd, sendFail) ==
  (* rcv: TRUE = the socket is read in this iteration.  wireF/indF: concrete values taken by    *)
  (* fields the standard leaves free (bound from the trace when validating, canonical in MC).   *)
  (* asInvalid: a grey frame is taken as Evt19.  dimseFail: a grey P-DATA fails inside          *)
  (* DT-2/AR-6 and the reaction is AA-8's.  msgInd: what was indicated by DT-2/AR-6 when the    *)
  (* reassembly state is unknown (after a grey P-DATA was taken as valid): nothing or a message. *)
  (* sendFail: the action's write hits a dead transport: nothing is sent or indicated, the state  *)
  (* does not change, the connection is closed and the transport-closed event is raised.          *)
  LET doRcv == rcv /\ Readable /\ st # 4
      n     == IF doRcv THEN (IF ReadMax = 0 \/ rx <= ReadMax THEN rx ELSE ReadMax) ELSE 0
      eof   == doRcv /\ rx = 0
      discard == doRcv /\ st = 13                     \* DEV-STA13-DISCARD
      r     == IF discard THEN raw ELSE raw + n
  IN
  /\ rcv => (Readable /\ st # 4 /\ (st # 13 => ~HeadComplete(raw)))   \* drain the buffer before reading again
  /\ SrcReady(src, r, eof)
  /\ (eof => src = "eof")
  \* polling is skipped or harmless while an event is pending; an idle iteration is allowed only
  \* when nothing else could be served or bytes were read (progress)
  /\ (src = "none" /\ evq = <<>> /\ n = 0) =>
         ~(\E s2 \in {"conn", "frame", "user", "timer"} : SrcReady(s2, r, eof)) /\ ~(Readable /\ st # 4)
  /\ LET fr == Head(stream)
         \* ---- poll phase
         userItem == IF gen # <<>> THEN Head(gen)
                     ELSE IF uq # <<>> THEN (IF Head(uq).k = "GEN" THEN Head(Head(uq).frags) ELSE Head(uq))
                     ELSE NoSlot
         newId  == nid + 1
         \* the fragment generator of an outgoing message fails at this position (its source cannot be read, or no
         \* fragment fits the peer's maximum): nothing is taken, the generator is dropped, the provider aborts (Evt19)
         genFail == src = "user" /\ userItem.k = "BAD"
         newSlot == CASE src = "frame" -> [id |-> newId, k |-> fr.k, f |-> fr.f, pdvs |-> fr.pdvs, grey |-> fr.grey]
                      [] src = "user" /\ ~genFail -> [id |-> newId, k |-> userItem.k, f |-> userItem.f, pdvs |-> userItem.pdvs, grey |-> FALSE]
                      [] OTHER -> slot
         newEvt == CASE src = "conn" -> <<[e |-> 2, id |-> 0]>>
                     [] src = "frame" -> <<[e |-> IF fr.grey /\ asInvalid THEN 19 ELSE EvtOfPdu(fr.k), id |-> newId]>>
                     [] src = "eof" -> <<[e |-> 17, id |-> 0]>>
                     [] src = "user" -> IF genFail THEN <<[e |-> 19, id |-> 0]>> ELSE <<[e |-> EvtOfPrim(userItem.k), id |-> newId]>>
                     [] src = "timer" -> <<[e |-> 18, id |-> 0]>>
                     [] OTHER -> <<>>
         q == evq \o newEvt
         sockP == IF eof THEN "none" ELSE sock           \* the EOF branch closes the socket itself
     IN
     /\ nid' = IF src \in {"frame", "user"} THEN newId ELSE nid
     /\ slot' = newSlot
     /\ stream' = IF src = "frame" THEN Tail(stream) ELSE stream
     /\ raw' = IF src = "frame" THEN r - fr.len ELSE r
     /\ rx' = rx - n
     /\ gen' = IF src # "user" THEN gen
               ELSE IF genFail THEN <<>>
               ELSE IF gen # <<>> THEN Tail(gen)
               ELSE IF Head(uq).k = "GEN" THEN Tail(Head(uq).frags) ELSE gen
     /\ uq' = IF src = "user" /\ gen = <<>> THEN Tail(uq) ELSE uq
     \* ---- state-machine phase: pop exactly one event if there is one
     /\ IF q = <<>>
        THEN /\ ~sendFail /\ evq' = q /\ sock' = sockP
             /\ out' = [NoOut EXCEPT !.closed = eof]
             /\ UNCHANGED <<st, artim, dec, user, ended>>
        ELSE LET h == Head(q)
                 e == h.e
                 p == newSlot
                 paired == ReadsSlot(e) => (h.id = p.id)
                 \* a grey PDU may be taken as its type's event or as invalid (Evt19)
                 c0 == Cell(e, st, isReq)
                 odd == p.grey \/ (c0[1] \in {"DT2", "AR6"} /\ IrregularData(dec, p.pdvs))
                 fail == dimseFail /\ odd /\ c0[1] \in {"DT2", "AR6"}
                 c == IF fail THEN <<"AA8", 13>> ELSE c0
                 a == c[1]
                 dr == IF a \in {"DT2", "AR6"} THEN DecRun(dec, p.pdvs) ELSE <<dec, FALSE, 0>>
                 w == CASE a \in {"AE2", "AE7", "AE8", "DT1", "AR7"} -> <<[k |-> WireOf(a), f |-> p.f]>>
                        [] a \in {"AR1", "AR4", "AR9"} -> <<[k |-> WireOf(a), f |-> <<>>]>>
                        [] a = "AA1" /\ e = 15 -> <<[k |-> "AB", f |-> p.f]>>
                        [] a \in {"AA1", "AA7"} -> <<[k |-> "AB", f |-> wireF]>>
                        [] a = "AA8" -> <<[k |-> "AB", f |-> <<2, wireF[2]>>]>>
                        [] OTHER -> <<>>
                 i == CASE a \in {"AE3", "AE4", "AE6", "AA3"} -> <<[k |-> IndOf(a), f |-> p.f]>>
                        [] a \in {"AR2", "AR8", "AR3", "AR10"} -> <<[k |-> IndOf(a), f |-> <<>>]>>
                        [] a \in {"AA4", "AA8"} -> <<[k |-> "AB", f |-> indF]>>
                        [] a \in {"DT2", "AR6"} /\ (dec.unk \/ odd) -> msgInd
                        [] a \in {"DT2", "AR6"} /\ dr[2] -> <<[k |-> "MSG", f |-> <<dr[3]>>]>>
                        [] OTHER -> <<>>
                 sf == sendFail /\ wdead /\ w # <<>>
             IN
             /\ (sendFail => sf) /\ ((wdead /\ w # <<>> /\ sockP = "open") => sendFail)
             /\ evq' = IF sf THEN Append(Tail(q), [e |-> 17, id |-> 0]) ELSE Tail(q)
             /\ st' = IF sf THEN st ELSE c[2]
             /\ sock' = IF sf THEN "none" ELSE IF Closes(a) THEN "none" ELSE IF Opens(a) THEN "open" ELSE sockP
             /\ artim' = IF sf THEN artim ELSE
                          CASE TimerOf(a) \in {"start", "restart"} -> "run"
                            [] TimerOf(a) = "stop" -> "off" [] OTHER -> artim
             /\ dec' = IF sf THEN dec ELSE
                        IF a \in {"DT2", "AR6"} THEN (IF odd \/ dec.unk THEN [Fresh EXCEPT !.unk = TRUE] ELSE dr[1]) ELSE dec
             /\ user' = IF sf THEN user ELSE
                         CASE a \in {"AE6", "AE3"} -> "assoc"
                           [] a = "AE1" -> "assoc"      \* the requesting user awaits the outcome
                           [] a \in {"AE4", "AR3", "AA3", "AA4", "AA8"} -> "over"
                           [] a \in {"AE8", "AR4", "AA1"} /\ e \in {8, 14, 15} -> "over"   \* the user ended it
                           [] a = "AA2" /\ e = 15 -> "over"
                           [] OTHER -> user
             /\ ended' = IF sf THEN ended ELSE (ended \/ (c[2] = 1 /\ a # "none"))
             /\ out' = IF sf THEN [act |-> "sendfail", evt |-> e, wire |-> <<>>, ind |-> <<>>, closed |-> TRUE, paired |-> paired]
                        ELSE [act |-> a, evt |-> e, wire |-> w, ind |-> i, closed |-> (Closes(a) \/ eof), paired |-> paired]
  /\ UNCHANGED <<isReq, transit, peerFin, wdead>>

(* Reaction to a PDU that is framed but whose content cannot be decoded ("grey"): the           *)
(* implementation may treat it as its type's event (above) or as Evt19; a grey P-DATA in         *)
(* Sta6/Sta7 may alternatively fail inside DT-2/AR-6, and then the reaction must be AA-8's.       *)
(* These alternatives are written in Trace_ULProvider, which knows what the code did.             *)

(* ------------------------------ properties -------------------------------- *)
TypeOK == /\ st \in States /\ sock \in {"none", "open"} /\ artim \in {"off", "run", "exp"}
          /\ transit >= 0 /\ rx >= 0 /\ raw >= 0

Quiescent == evq = <<>>
(* ARTIM runs exactly while awaiting the first PDU or the peer's close *)
ArtimExactly == Quiescent => ((artim # "off") <=> (st \in {2, 13}))
(* an idle provider has closed its connection (once it has been anywhere) *)
IdleImpliesClosed == (Quiescent /\ st = 1 /\ ended) => sock = "none"
(* P-DATA is sent / indicated only inside an established association *)
PDataOnlyWhenEstablished ==
  [][ /\ (\E x \in 1..Len(out'.wire) : out'.wire[x].k = "PD") => st \in {6, 8}
      /\ (\E x \in 1..Len(out'.ind) : out'.ind[x].k = "MSG") => st \in {6, 7} ]_vars
(* once the association is over nothing is indicated any more *)
NoIndicationAfterEnd == [][ (ended /\ user # "assoc") => out'.ind = <<>> ]_vars
(* the event being consumed and the slot content belong together *)
PairedSlot == out.paired
(* a user that had been told of an association has been told when it is gone *)
ToldGone == (Quiescent /\ st = 1 /\ ended) => user # "assoc"
=============================================================================
