-------------------------- MODULE Trace_Negotiation --------------------------
(* TLC judges what the real AssociationAcceptor.accept / AssociationRequester._request /            *)
(* Association.send did in one negotiation case; the verdict is the list of clauses that fail.       *)
EXTENDS Negotiation, Json, IOUtils, TLCExt
Cases == JsonDeserialize(IOEnv.TRACE_FILE)
VARIABLES tid, l, bad
tvars == <<tid, l, bad>>
Judge(c) ==
  CASE c.kind = "accept" -> AcceptClauses(c.cfg, c.rq, c.ans)
    [] c.kind = "maxlen" -> MaxLenClauses(c.own, c.ann, c.peer, c.pdulens, c.delivered)
    [] c.kind = "request" -> RequestClauses(c.cfg, c.rq) \o (IF c.replied THEN ReplyClauses(c.rq, c.reply, c.usable, c.lookups) ELSE <<>>)
    [] OTHER -> <<"unknown-case-kind">>
TraceInit == tid \in 1..Len(Cases) /\ l = 1 /\ bad = <<>> /\ TLCSet(tid, [reached |-> 0, inv |-> <<>>])
TraceNext == /\ l = 1 /\ l' = 2 /\ tid' = tid /\ bad' = Judge(Cases[tid][1])
             /\ TLCSet(tid, [reached |-> 1, inv |-> bad'])
TraceSpec == TraceInit /\ [][TraceNext]_tvars
Report == \A i \in 1..Len(Cases) :
   PrintT("@@" \o ToJson([tid |-> i, reached |-> TLCGet(i).reached, len |-> 1, inv |-> TLCGet(i).inv]) \o "@@")
=============================================================================
