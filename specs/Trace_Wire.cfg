SPECIFICATION TraceSpec
CONSTANT Mode = "none"
POSTCONDITION Report
