--------------------------- MODULE AssocLifecycle ---------------------------
(***************************************************************************)
(* Association life-cycle above the provider (PS3.8 7.1-7.4; library       *)
(* contract of asceprovider / applicationentity): refusal, abort and       *)
(* release are reported faithfully to both sides, and leaving a requested  *)
(* association normally releases it whereas leaving it through an error    *)
(* aborts it.  One scenario = one observation record:                      *)
(*   scn     what was provoked: "refuse" | "req-abort" | "acc-abort" |     *)
(*           "req-exit-normal" | "req-exit-error" | "acc-release"          *)
(*   given   the (result, source, reason) / (source, reason) given by the  *)
(*           side that acted                                               *)
(*   r2a/a2r PDUs each side put on the wire, in order: Seq([k, f])         *)
(*   reqErr  error surfaced at the requesting application [type, f]        *)
(*   accErr  error surfaced at the accepting side's service [type, f]      *)
(*   services names of SCP callables that ran; entered: the body of the    *)
(*           requesting context manager was entered                        *)
(* The verdict is the list of clauses that fail.                           *)
(***************************************************************************)
EXTENDS Naturals, Sequences, TLC

F(cond, name) == IF cond THEN <<name>> ELSE <<>>
Kinds(s) == [i \in 1..Len(s) |-> s[i].k]
Has(s, k) == \E i \in 1..Len(s) : s[i].k = k
HasF(s, k, f) == \E i \in 1..Len(s) : s[i].k = k /\ s[i].f = f
LastKind(s) == IF s = <<>> THEN "-" ELSE s[Len(s)].k
WellFormed(s) == \A i \in 1..Len(s) : s[i].k \in {"RQ", "AC", "RJ", "PD", "RLRQ", "RLRP", "AB"}

Clauses(o) ==
     F(~WellFormed(o.r2a) \/ ~WellFormed(o.a2r), "only-well-formed-pdus-on-the-wire")
  \o (IF o.scn = "refuse" THEN
          F(~HasF(o.a2r, "RJ", o.given), "rj-carries-exactly-result-source-reason")
       \o F(Has(o.a2r, "AC") \/ Has(o.a2r, "PD"), "a-refused-association-is-never-accepted")
       \o F(o.reqErr.type # "AssociationRejectedError" \/ o.reqErr.f # o.given, "rejection-error-carries-the-triple-unchanged")
       \o F(o.services # <<>> \/ o.entered, "no-service-on-a-refused-association")
      ELSE <<>>)
  \o (IF o.scn = "req-abort" THEN
          F(~HasF(o.r2a, "AB", o.given), "abort-pdu-carries-source-and-reason")
       \o F(o.accErr.type # "AssociationAbortedError" \/ o.accErr.f # o.given, "abort-surfaces-at-the-acceptor-with-source-and-reason")
      ELSE <<>>)
  \o (IF o.scn = "acc-abort" THEN
          F(~HasF(o.a2r, "AB", o.given), "abort-pdu-carries-source-and-reason")
       \o F(o.reqErr.type # "AssociationAbortedError" \/ o.reqErr.f # o.given, "abort-surfaces-at-the-requestor-with-source-and-reason")
       \o F(~Has(o.r2a, "AB") /\ Has(o.r2a, "RLRQ"), "leaving-through-an-error-does-not-release")
      ELSE <<>>)
  \o (IF o.scn = "acc-release" THEN
          F(~Has(o.a2r, "RLRQ"), "release-request-on-the-wire")
       \o F(o.reqErr.type # "AssociationReleasedError", "release-surfaces-at-the-requestor")
       \o F(~Has(o.r2a, "AB"), "leaving-through-an-error-aborts")
      ELSE <<>>)
  \o (IF o.scn = "req-exit-normal" THEN
          F(LastKind(o.r2a) # "RLRQ" \/ Has(o.r2a, "AB"), "normal-exit-releases")
       \o F(~Has(o.a2r, "RLRP"), "release-is-answered")
       \o F(o.reqErr.type # "none", "normal-exit-raises-nothing")
      ELSE <<>>)
  \o (IF o.scn = "stop-with-silent-peer" THEN     \* kill() on an association whose peer says nothing more (C13: a stop request always completes)
          F(~o.stopped, "a-request-to-stop-completes-in-bounded-time")
      ELSE <<>>)
  \o (IF o.scn = "late-response-then-release" THEN   \* normal exit while a response is still outstanding: still a release
          F(LastKind(o.r2a) # "RLRQ" \/ Has(o.r2a, "AB"), "normal-exit-releases")
       \o F(o.reqErr.type # "none", "normal-exit-raises-nothing")
       \o F(~o.stopped, "release-completes")
      ELSE <<>>)
  \o (IF o.scn = "req-exit-error" THEN
          F(~HasF(o.r2a, "AB", <<0, 0>>) \/ Has(o.r2a, "RLRQ"), "exceptional-exit-aborts")
       \o F(o.reqErr.type # "UserError", "the-users-exception-propagates")
      ELSE <<>>)
=============================================================================
