------------------------------- MODULE Dimse -------------------------------
(***************************************************************************)
(* DIMSE message fragmentation, grouping of fragments (PDVs) into          *)
(* P-DATA-TF PDUs, and reassembly (PS3.7 section 6.3.1, PS3.8 Annex E).    *)
(*                                                                         *)
(* A message is a command stream of lc bytes and a data stream of ld bytes *)
(* (ld = 0: no data set); byte i of a stream is the token i.  The SENDER   *)
(* cuts the command stream, then the data stream, into non-empty fragments *)
(* of at most F = max - 6 payload bytes (PDU length = 4-byte PDV length +   *)
(* context id + message control header + payload = payload + 6; max = 0    *)
(* means "no limit").  Where it cuts is free.  The GROUPER packs           *)
(* consecutive fragments into PDUs (any composition).  The REASSEMBLER     *)
(* consumes PDUs fragment by fragment - one action per PDU, as             *)
(* fsm.DIMSEDecoder.process - and says after each PDU whether it is still  *)
(* receiving.                                                              *)
(*                                                                         *)
(* The maximum length is a 32-bit quantity: it is carried as two 16-bit    *)
(* limbs <<hi, lo>> (TLC integers are 32-bit signed).                      *)
(***************************************************************************)
EXTENDS Naturals, Sequences, FiniteSets, TLC

VARIABLES
  lc, ld,        \* stream lengths
  maxHi, maxLo,  \* maximum PDU length in force (limbs); 0,0 = unlimited
  ctx,           \* presentation context id of the message
  sentC, sentD,  \* bytes already emitted of each stream
  frags,         \* fragments emitted so far: Seq([cmd, last, off, n, ctx, pdulen])
  fed,           \* number of fragments already given to the reassembler
  rc, rd,        \* tokens reassembled so far: command, data (sequences of <<off, n>> ranges)
  cmdDone, dataDone, needsData,
  receiving,     \* the reassembler's own statement after the last PDU
  phase          \* "send" | "recv" | "done"

vars == <<lc, ld, maxHi, maxLo, ctx, sentC, sentD, frags, fed, rc, rd, cmdDone, dataDone, needsData, receiving, phase>>

Unlimited == maxHi = 0 /\ maxLo = 0
LeqMax(x) == Unlimited \/ (x \div 65536 < maxHi) \/ (x \div 65536 = maxHi /\ x % 65536 <= maxLo)

InitWith(a, b, hi, lo, c) ==
  /\ lc = a /\ ld = b /\ maxHi = hi /\ maxLo = lo /\ ctx = c
  /\ sentC = 0 /\ sentD = 0 /\ frags = <<>> /\ fed = 0 /\ rc = <<>> /\ rd = <<>>
  /\ cmdDone = FALSE /\ dataDone = FALSE /\ needsData = (b > 0) /\ receiving = TRUE /\ phase = "send"

(* ------------------------------- sender -------------------------------- *)
Frag(isCmd, n, last, c, pdulen) ==
  /\ phase = "send"
  /\ n >= 1                                              \* NonEmpty
  /\ pdulen = n + 6 /\ LeqMax(pdulen)                    \* SizeBound
  /\ c = ctx                                             \* ContextConstant
  /\ IF isCmd
     THEN /\ sentC + n <= lc /\ sentD = 0               \* CommandBeforeData
          /\ last = (sentC + n = lc)
          /\ frags' = Append(frags, [cmd |-> TRUE, last |-> last, off |-> sentC, n |-> n])
          /\ sentC' = sentC + n /\ UNCHANGED sentD
     ELSE /\ sentC = lc /\ sentD + n <= ld
          /\ last = (sentD + n = ld)
          /\ frags' = Append(frags, [cmd |-> FALSE, last |-> last, off |-> sentD, n |-> n])
          /\ sentD' = sentD + n /\ UNCHANGED sentC
  /\ UNCHANGED <<lc, ld, maxHi, maxLo, ctx, fed, rc, rd, cmdDone, dataDone, needsData, receiving, phase>>

SendDone ==      \* the sender stops: legal only when everything has been emitted (ConcatIsOriginal)
  /\ phase = "send" /\ sentC = lc /\ sentD = ld
  /\ phase' = "recv"
  /\ UNCHANGED <<lc, ld, maxHi, maxLo, ctx, sentC, sentD, frags, fed, rc, rd, cmdDone, dataDone, needsData, receiving>>

(* ----------------------- grouper + reassembler ------------------------- *)
(* Feed(k): the next k fragments arrive as one P-DATA-TF PDU.  The reassembler processes them in  *)
(* order and stops at the fragment that completes the message.                                   *)
RECURSIVE Absorb(_, _)
Absorb(st, fs) ==      \* st = [rc, rd, cd, dd]
  IF fs = <<>> THEN st
  ELSE LET f == Head(fs)
           st2 == IF f.cmd THEN [st EXCEPT !.rc = Append(@, <<f.off, f.n>>), !.cd = (@ \/ f.last)]
                  ELSE [st EXCEPT !.rd = Append(@, <<f.off, f.n>>), !.dd = (@ \/ f.last)]
           complete == st2.cd /\ (~needsData \/ st2.dd)
       IN IF complete THEN st2 ELSE Absorb(st2, Tail(fs))

Feed(k, stillReceiving) ==
  /\ phase = "recv" /\ k >= 1 /\ fed + k <= Len(frags)
  /\ LET st == Absorb([rc |-> rc, rd |-> rd, cd |-> cmdDone, dd |-> dataDone], SubSeq(frags, fed + 1, fed + k))
         complete == st.cd /\ (~needsData \/ st.dd)
     IN /\ rc' = st.rc /\ rd' = st.rd /\ cmdDone' = st.cd /\ dataDone' = st.dd
        /\ receiving' = ~complete
        /\ stillReceiving = ~complete                       \* CompletionExact: never earlier, never later
        /\ phase' = IF complete THEN "done" ELSE "recv"
  /\ fed' = fed + k
  /\ UNCHANGED <<lc, ld, maxHi, maxLo, ctx, sentC, sentD, frags, needsData>>

(* ------------------------------ properties ----------------------------- *)
RECURSIVE Tiles(_, _)
Tiles(ranges, from) == IF ranges = <<>> THEN from ELSE
                       IF Head(ranges)[1] = from THEN Tiles(Tail(ranges), from + Head(ranges)[2]) ELSE 999999
ReassembledEqualsSent == phase = "done" => (Tiles(rc, 0) = lc /\ Tiles(rd, 0) = ld /\ fed = Len(frags))
CompletionExact == (phase = "done") <=> (~receiving)
NothingBeforeEnd == (phase = "recv" /\ fed < Len(frags)) => receiving
OneLastPerStream ==
  /\ Cardinality({i \in 1..Len(frags) : frags[i].cmd /\ frags[i].last}) <= 1
  /\ Cardinality({i \in 1..Len(frags) : ~frags[i].cmd /\ frags[i].last}) <= 1
  /\ \A i \in 1..Len(frags) : frags[i].last => (i = Len(frags) \/ frags[i].cmd # frags[i + 1].cmd)
CommandBeforeData == \A i, j \in 1..Len(frags) : (frags[i].cmd /\ ~frags[j].cmd) => i < j
=============================================================================
