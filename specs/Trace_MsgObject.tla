--------------------------- MODULE Trace_MsgObject ---------------------------
EXTENDS MsgObject, Json, IOUtils, TLCExt
Traces == JsonDeserialize(IOEnv.TRACE_FILE)
VARIABLES tid, l
tvars == <<vars, tid, l>>
Tr == Traces[tid]
Ev == Tr[l]
IsEvent(name) == l <= Len(Tr) /\ Ev.ev = name
TraceInit == /\ tid \in 1..Len(Traces) /\ l = 2 /\ Traces[tid][1].ev = "New" /\ InitWith(Traces[tid][1].cls)
             /\ TLCSet(tid, [reached |-> 1, inv |-> ""])
TraceNext ==
  /\ \/ IsEvent("A") /\ SetA(Ev.n)
     \/ IsEvent("B") /\ SetB(Ev.n)
     \/ IsEvent("DS") /\ SetDataSet(Ev.v)
     \/ IsEvent("SEND") /\ Send(Ev.glen, Ev.after, Ev.asc, Ev.code, Ev.flag, Ev.ndata, Ev.lenA, Ev.lenB)
     \/ IsEvent("LSEND") /\ LSend(Ev.glen, Ev.after, Ev.asc, Ev.code, Ev.flag, Ev.ndata)
  /\ l' = l + 1 /\ tid' = tid
  /\ IF TLCGet(tid).reached < l THEN TLCSet(tid, [reached |-> l, inv |-> ""]) ELSE TRUE
TraceSpec == TraceInit /\ [][TraceNext]_tvars
Report == \A i \in 1..Len(Traces) :
   PrintT("@@" \o ToJson([tid |-> i, reached |-> TLCGet(i).reached, len |-> Len(Traces[i]), inv |-> TLCGet(i).inv]) \o "@@")
=============================================================================
