------------------------------ MODULE StorageDir ------------------------------
(* Directory-backed storage (StorageAE / ClientStorageAE, _get_storage_file): every received      *)
(* instance ends up in its own file and no previously stored file is overwritten or truncated.     *)
(* dir maps file names to content tokens.  Store(uid, d) must create a FRESH name and leave every  *)
(* existing entry unchanged, also when the same instance UID is stored again, and whichever of two *)
(* concurrent handler threads gets there first.                                                    *)
EXTENDS Naturals, FiniteSets, Sequences, TLC
CONSTANTS UIDs, Datas, MaxStores
VARIABLES dir, n
vars == <<dir, n>>
Names == UNION {{<<u, k>> : k \in 0..MaxStores} : u \in UIDs}      \* <<uid, suffix number>>
Init == dir = [x \in {} |-> 0] /\ n = 0
Store(name, d) ==
  /\ n < MaxStores
  /\ name \notin DOMAIN dir                                        \* FreshName
  /\ dir' = [x \in DOMAIN dir \cup {name} |-> IF x = name THEN d ELSE dir[x]]
  /\ n' = n + 1
Next == \E u \in UIDs, k \in 0..MaxStores, d \in Datas : Store(<<u, k>>, d)
Spec == Init /\ [][Next]_vars
NeverClobber == [][\A x \in DOMAIN dir : x \in DOMAIN dir' /\ dir'[x] = dir[x]]_vars
OneFilePerStore == Cardinality(DOMAIN dir) = n
=============================================================================
