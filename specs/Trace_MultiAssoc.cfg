SPECIFICATION TraceSpec
POSTCONDITION Report
