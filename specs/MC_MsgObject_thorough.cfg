SPECIFICATION MCSpec
CONSTANTS Depth = 4
 Lens = {1, 2, 63, 64}
INVARIANT FlagConsistent
INVARIANT Emit
