--------------------------- MODULE Trace_ULProvider ---------------------------
(* Validates executions recorded from the real DULServiceProvider (substrate S1: the          *)
(* unmodified run() stepped over a simulated socket / clock / queue) against ULProvider.      *)
(* Batch protocol: the file named by TRACE_FILE holds an array of traces; tid picks one in    *)
(* the initial state; register tid holds the longest matched prefix and the first invariant   *)
(* that failed on it; the POSTCONDITION prints one JSON line per trace.                       *)
EXTENDS ULProvider, Json, IOUtils, TLCExt

Traces == JsonDeserialize(IOEnv.TRACE_FILE)

VARIABLES tid, l, bad
tvars == <<vars, tid, l, bad>>

Tr == Traces[tid]
Ev == Tr[l]
IsEvent(name) == l <= Len(Tr) /\ Ev.ev = name

TraceInit ==
  /\ tid \in 1..Len(Traces)
  /\ l = 2 /\ bad = ""
  /\ Len(Traces[tid]) >= 1 /\ Traces[tid][1].ev = "Start"
  /\ InitFor(Traces[tid][1].req)
  /\ TLCSet(tid, [reached |-> 1, inv |-> ""])

SrcOfEvt(e) == CASE e = 0 -> "none" [] e = 2 -> "conn" [] e = 17 -> "eof" [] e = 18 -> "timer"
                 [] e \in {1, 7, 8, 9, 11, 14, 15} -> "user" [] OTHER -> "frame"

ArtimOK(a) == a = artim'
EvqNums(q) == [i \in 1..Len(q) |-> q[i].e]

(* fields the standard leaves free are bound to what the implementation chose *)
FreeOf(list) == IF Len(list) >= 1 /\ Len(list[1].f) = 2 THEN list[1].f ELSE <<0, 0>>

(* when the reassembly state is unknown DT-2/AR-6 may indicate nothing or one message *)
MsgIndOf(list) == IF Len(list) = 1 /\ list[1].k = "MSG" THEN list ELSE <<>>

StepInv ==   \* name of the first property that fails in the step just taken, "" if none
  IF ~TypeOK' THEN "TypeOK"
  ELSE IF ~ArtimExactly' THEN "ArtimExactly"
  ELSE IF ~IdleImpliesClosed' THEN "IdleImpliesClosed"
  ELSE IF ~PairedSlot' THEN "PairedSlot"
  ELSE IF ~ToldGone' THEN "ToldGone"
  ELSE IF ~((\E x \in 1..Len(out'.wire) : out'.wire[x].k = "PD") => st \in {6, 8}) THEN "PDataOnlyWhenEstablished"
  ELSE IF ~((\E x \in 1..Len(out'.ind) : out'.ind[x].k = "MSG") => st \in {6, 7}) THEN "PDataOnlyWhenEstablished"
  ELSE IF ~((ended /\ user # "assoc") => out'.ind = <<>>) THEN "NoIndicationAfterEnd"
  ELSE ""

TrIter ==
  /\ IsEvent("Iter")
  \* Evt19 is raised for an invalid frame - or for an outgoing message whose fragment generator fails
  /\ \E inv \in BOOLEAN, fail \in BOOLEAN, src \in (IF Ev.newevt = 19 THEN {"frame", "user"} ELSE {SrcOfEvt(Ev.newevt)}) :
       /\ Iterate(Ev.rcv, src, FreeOf(Ev.wire), FreeOf(Ev.ind), inv, fail, MsgIndOf(Ev.ind), Ev.sendfail)
       /\ (src = "user" /\ Ev.newevt = 19) => (IF gen # <<>> THEN Head(gen).k = "BAD" ELSE uq # <<>> /\ Head(uq).k = "GEN" /\ Head(Head(uq).frags).k = "BAD")
       \* a grey frame taken as invalid must show up as Evt19, otherwise as its type's event
       /\ (Ev.newevt # 0 /\ src = "frame") =>
              Ev.newevt = (IF Head(stream).grey /\ inv THEN 19 ELSE EvtOfPdu(Head(stream).k))
  \* every logged field of the post-state and every output must be the specification's
  /\ st' = Ev.st
  /\ sock' = Ev.sock
  /\ artim' = Ev.artim
  /\ EvqNums(evq') = Ev.evq
  /\ raw' = Ev.raw
  /\ Len(uq') = Ev.uq
  /\ Len(gen') = Ev.gen
  /\ out'.evt = Ev.evt
  /\ out'.wire = Ev.wire
  /\ out'.ind = Ev.ind
  /\ out'.closed = Ev.closed

TrPeerSend == IsEvent("PeerSend") /\ PeerSend(Ev.frames, Ev.n)
TrArrive   == IsEvent("Arrive") /\ Arrive(Ev.n)
TrPeerFin  == IsEvent("PeerFin") /\ PeerFin
TrPeerReset == IsEvent("PeerReset") /\ PeerReset
TrPeerDeaf == IsEvent("PeerDeaf") /\ PeerDeaf
TrUserPut  == IsEvent("UserPut") /\ UserPut(Ev.item)
Idle       == out' = NoOut /\ UNCHANGED <<isReq, st, sock, stream, transit, rx, raw, peerFin, wdead, nid, evq, slot, uq, gen, artim, dec, user, ended>>
TrTick     == IsEvent("Tick") /\ (IF artim = "run" THEN Tick ELSE Idle)
TrTock     == IsEvent("Tock") /\ Idle      \* time advances without reaching the ARTIM limit

(* the scenario is over: where the property demands it, the provider must be home *)
Home == st = 1 /\ sock = "none" /\ user # "assoc" /\ artim = "off" /\ evq = <<>>
TrEnd == IsEvent("End") /\ (Ev.home => Home) /\ Idle

TraceNext ==
  /\ (TrEnd \/ TrIter \/ TrPeerSend \/ TrArrive \/ TrPeerFin \/ TrPeerReset \/ TrPeerDeaf \/ TrUserPut \/ TrTick \/ TrTock)
  /\ l' = l + 1 /\ tid' = tid
  /\ bad' = (IF bad # "" THEN bad ELSE StepInv)
  /\ IF TLCGet(tid).reached < l
     THEN TLCSet(tid, [reached |-> l, inv |-> bad'])
     ELSE TRUE

TraceSpec == TraceInit /\ [][TraceNext]_tvars

Report ==
  \A i \in 1..Len(Traces) :
     PrintT("@@" \o ToJson([tid |-> i, reached |-> TLCGet(i).reached, len |-> Len(Traces[i]), inv |-> TLCGet(i).inv]) \o "@@")
=============================================================================
