--------------------------- MODULE MC_AssocLife ---------------------------
(* Closure of AssocLife for TLC: small value sets (the values are data - the harness instantiates  *)
(* each script with the value classes of the property), a history of the application-level actions *)
(* (the script), printed at every terminal state.                                                  *)
EXTENDS AssocLife, Json
VARIABLE hist
mvars == <<vars, hist>>

MCTriples == {<<1, 2, 3>>}
MCReasons == {5}

H(a, name) == a /\ hist' = Append(hist, name)

MCInit == Init /\ hist = <<>>
MCNext ==
  \/ H(RqRequest, "RqRequest") \/ H(RqAssocInd, "RqAssocInd") \/ H(RqSend, "RqSend") \/ H(RqWait, "RqWait")
  \/ H(RqRecv, "RqRecv") \/ H(RqExitNormal, "RqExitNormal") \/ H(RqRelDone, "RqRelDone") \/ H(RqExitError, "RqExitError")
  \/ (\E r \in Reasons : H(RqAbort(r), "RqAbort") \/ H(AcAbort(r), "AcAbort"))
  \/ (\E t \in Triples : H(AcRefuse(t), "AcRefuse"))
  \/ H(AcAccept, "AcAccept") \/ H(AcRecv, "AcRecv") \/ H(AcRespond, "AcRespond") \/ H(AcReturn, "AcReturn")
  \/ H(AcRelease, "AcRelease") \/ H(AcRelDone, "AcRelDone")
  \/ (SysNext /\ UNCHANGED hist)
  \/ (Terminal /\ UNCHANGED mvars)
MCStep ==     \* MCNext without the stuttering at the end: a simulated behaviour ends in its terminal state
  \/ H(RqRequest, "RqRequest") \/ H(RqAssocInd, "RqAssocInd") \/ H(RqSend, "RqSend") \/ H(RqWait, "RqWait")
  \/ H(RqRecv, "RqRecv") \/ H(RqExitNormal, "RqExitNormal") \/ H(RqRelDone, "RqRelDone") \/ H(RqExitError, "RqExitError")
  \/ (\E r \in Reasons : H(RqAbort(r), "RqAbort") \/ H(AcAbort(r), "AcAbort"))
  \/ (\E t \in Triples : H(AcRefuse(t), "AcRefuse"))
  \/ H(AcAccept, "AcAccept") \/ H(AcRecv, "AcRecv") \/ H(AcRespond, "AcRespond") \/ H(AcReturn, "AcReturn")
  \/ H(AcRelease, "AcRelease") \/ H(AcRelDone, "AcRelDone")
  \/ (SysNext /\ UNCHANGED hist)
MCSimSpec == MCInit /\ [][MCStep]_mvars
MCSpec == MCInit /\ [][MCNext]_mvars /\ WF_mvars(MCNext)

PrintScripts == Terminal => PrintT("@@" \o ToJson([script |-> hist, acted |-> acted, r2a |-> wrote["R"], a2r |-> wrote["A"],
                                                   rqErr |-> rqErr, acErr |-> acErr, svc |-> svc, entered |-> entered]) \o "@@")
MCBothFinish == <>[]Terminal
=============================================================================
