SPECIFICATION Spec
CONSTANTS N = 2
 Shared = FALSE
 Tables <- TablesSmall
INVARIANT OwnAssociationOwnData
PROPERTY AbortIsLocal
PROPERTY NoRequestWhileClosing
PROPERTY NoNewAssociationAfterQuit
CONSTRAINT Bound
