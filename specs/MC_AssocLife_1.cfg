SPECIFICATION MCSpec
CONSTANTS
  Triples <- MCTriples
  Reasons <- MCReasons
  Timeouts = FALSE
  Strict = TRUE
  MaxReq = 1
INVARIANT RefusalFaithful
INVARIANT AbortFaithful
INVARIANT ReleaseFaithful
INVARIANT ExitFaithful
INVARIANT ServiceOnlyWhenAccepted
INVARIANT PrintScripts
PROPERTY MCBothFinish
