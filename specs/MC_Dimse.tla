------------------------------ MODULE MC_Dimse ------------------------------
(* Exhaustive exploration of Dimse: every message shape within the bounds, every way of cutting  *)
(* it under every maximum, every grouping of the fragments into PDUs.  Each complete behaviour   *)
(* is printed (fragments, grouping, the reassembler's statement after every PDU) and replayed    *)
(* into the real DIMSEDecoder by the harness.                                                    *)
EXTENDS Dimse, Json
CONSTANTS MaxLc, MaxLd, Maxes
VARIABLE groups          \* history: Seq([k, receiving]) one entry per PDU fed
mcvars == <<vars, groups>>

MCInit == /\ \E a \in 1..MaxLc, b \in 0..MaxLd, m \in Maxes : InitWith(a, b, 0, m, 1)
          /\ groups = <<>>
MCFrag == \E isCmd \in BOOLEAN, n \in 1..3, last \in BOOLEAN :
             Frag(isCmd, n, last, ctx, n + 6) /\ UNCHANGED groups
MCSendDone == SendDone /\ UNCHANGED groups
MCFeed == \E k \in 1..(Len(frags) - fed), r \in BOOLEAN :
             Feed(k, r) /\ groups' = Append(groups, [k |-> k, receiving |-> r])
MCNext == MCFrag \/ MCSendDone \/ MCFeed
MCSpec == MCInit /\ [][MCNext]_mcvars

(* the sender can always finish, whatever it did so far (progress: the bound leaves room for >= 1 byte) *)
SenderNeverStuck == (phase = "send" /\ ~(sentC = lc /\ sentD = ld)) => ENABLED MCFrag
Emit == phase = "done" => PrintT("@@" \o ToJson([lc |-> lc, ld |-> ld, max |-> maxLo, frags |-> frags, groups |-> groups]) \o "@@")
=============================================================================
