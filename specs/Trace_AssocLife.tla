-------------------------- MODULE Trace_AssocLife --------------------------
(* Validates what was observed of ONE real association (substrate S3: real application, handler and   *)
(* provider threads) against AssocLife.  Three logs are recorded without any common clock:            *)
(*   rq   events of the requesting application thread, in its program order                           *)
(*   ac   events of the accepting handler thread, in its program order                                *)
(*   r2a / a2r  every PDU each side wrote, in stream order                                            *)
(* TLC searches for an interleaving of the two application logs and of the (never logged) provider    *)
(* steps (request taken, PDU handled, ARTIM, stop, close) that is a behaviour of AssocLife and reproduces both streams exactly.  Logged arguments      *)
(* (what a receive returned, the values given to refuse / abort) are bound to the specification's.   *)
(* Batch protocol as in Trace_ULProvider: register tid = best progress and the clauses failing there. *)
EXTENDS AssocLife, Json, IOUtils, TLCExt, SequencesExt

Cases == JsonDeserialize(IOEnv.TRACE_FILE)
NoVals == {}
VARIABLES tid, i, j, fin
tvars == <<vars, tid, i, j, fin>>

C == Cases[tid][1]
Total(c) == Len(c.rq) + Len(c.ac) + 1
Seq2(s) == [x \in 1..Len(s) |-> s[x]]          \* JSON arrays arrive as sequences already; normalises <<>> 
Fld(e) == IF "f" \in DOMAIN e THEN Seq2(e.f) ELSE <<>>

TraceInit ==
  /\ tid \in 1..Len(Cases) /\ i = 1 /\ j = 1 /\ fin = FALSE /\ Init
  /\ TLCSet(tid, [reached |-> 0, inv |-> <<>>])

RqEv == C.rq[i]
AcEv == C.ac[j]

RqStep ==
  /\ i <= Len(C.rq) /\ ~fin
  /\ LET e == RqEv IN
     CASE e.ev = "RqRequest" -> RqRequest
       [] e.ev = "RqAssocInd" -> RqAssocInd /\ Head(ind["R"]).k = e.res /\ Head(ind["R"]).f = Fld(e)
       [] e.ev = "RqSend" -> RqSendD(Fld(e))
       [] e.ev = "RqWait" -> RqWait
       [] e.ev = "RqRecv" -> RqRecv /\ Head(ind["R"]).k = e.res /\ Head(ind["R"]).f = Fld(e)
       [] e.ev = "RqAbort" -> RqAbort(e.r)
       [] e.ev = "RqExitNormal" -> RqExitNormal
       [] e.ev = "RqRelDone" -> RqRelDone
       [] e.ev = "RqExitError" -> RqExitError
       [] e.ev = "RqTimeout" -> RqTimeout
       [] OTHER -> FALSE
  /\ i' = i + 1 /\ j' = j

AcStep ==
  /\ j <= Len(C.ac) /\ ~fin
  /\ LET e == AcEv IN
     CASE e.ev = "AcRefuse" -> AcRefuse(Fld(e))
       [] e.ev = "AcAccept" -> AcAccept
       [] e.ev = "AcRecv" -> AcRecv /\ Head(ind["A"]).k = e.res /\ Head(ind["A"]).f = Fld(e)
       [] e.ev = "AcRespond" -> AcRespondD(Fld(e))
       [] e.ev = "AcReturn" -> AcReturn
       [] e.ev = "AcAbort" -> AcAbort(e.r)
       [] e.ev = "AcRelease" -> AcRelease
       [] e.ev = "AcRelDone" -> AcRelDone
       [] e.ev = "AcTimeout" -> AcTimeout
       [] OTHER -> FALSE
  /\ j' = j + 1 /\ i' = i

(* when arbitrary traffic is validated (~Strict) a service returning to the handler loop is not logged either *)
Silent == (SysNext \/ (~Strict /\ AcReturn)) /\ ~fin /\ UNCHANGED <<i, j>>

(* everything consumed and both sides finished: what the model wrote and concluded must be what was observed *)
FinalClauses ==
     (IF wrote["R"] # Seq2(C.r2a) THEN <<"requestor-stream-differs-from-the-specification">> ELSE <<>>)
  \o (IF wrote["A"] # Seq2(C.a2r) THEN <<"acceptor-stream-differs-from-the-specification">> ELSE <<>>)
  \o (IF svc # C.svc THEN <<"services-invoked-differs">> ELSE <<>>)
  \o (IF entered # C.entered THEN <<"body-entered-differs">> ELSE <<>>)
  \o (IF Strict /\ (rqErr.type # C.rqErr.type \/ rqErr.f # Seq2(C.rqErr.f)) THEN <<"error-leaving-the-requesting-block-differs">> ELSE <<>>)
  \o (IF ~RefusalFaithful THEN <<"RefusalFaithful">> ELSE <<>>)
  \o (IF ~AbortFaithful THEN <<"AbortFaithful">> ELSE <<>>)
  \o (IF ~ReleaseFaithful THEN <<"ReleaseFaithful">> ELSE <<>>)
  \o (IF ~ExitFaithful THEN <<"ExitFaithful">> ELSE <<>>)

Finish ==
  /\ ~fin /\ i = Len(C.rq) + 1 /\ j = Len(C.ac) + 1 /\ Terminal
  /\ fin' = TRUE /\ UNCHANGED <<vars, i, j>>
  /\ LET bad == FinalClauses IN
       IF bad = <<>> THEN TLCSet(tid, [reached |-> Total(C), inv |-> <<>>])
       ELSE IF TLCGet(tid).reached < Total(C) - 1 \/ (TLCGet(tid).reached = Total(C) - 1 /\ TLCGet(tid).inv = <<>>)
            THEN TLCSet(tid, [reached |-> Total(C) - 1, inv |-> bad]) ELSE TRUE

Progress == IF TLCGet(tid).reached < i' + j' - 2 THEN TLCSet(tid, [reached |-> i' + j' - 2, inv |-> <<>>]) ELSE TRUE

TraceNext ==
  /\ tid' = tid
  /\ \/ (RqStep /\ fin' = fin /\ Progress)
     \/ (AcStep /\ fin' = fin /\ Progress)
     \/ (Silent /\ fin' = fin)
     \/ Finish

TraceSpec == TraceInit /\ [][TraceNext]_tvars

Report == \A k \in 1..Len(Cases) :
   PrintT("@@" \o ToJson([tid |-> k, reached |-> TLCGet(k).reached, len |-> Total(Cases[k][1]), inv |-> TLCGet(k).inv]) \o "@@")
=============================================================================
