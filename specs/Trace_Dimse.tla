---------------------------- MODULE Trace_Dimse ----------------------------
(* Validates what the library's fragmenter (DIMSEMessage.encode / Association.send) and          *)
(* reassembler (fsm.DIMSEDecoder.process) did, against Dimse.  Batch protocol as Trace_ULProvider. *)
EXTENDS Dimse, Json, IOUtils, TLCExt

Traces == JsonDeserialize(IOEnv.TRACE_FILE)
VARIABLES tid, l
tvars == <<vars, tid, l>>
Tr == Traces[tid]
Ev == Tr[l]
IsEvent(name) == l <= Len(Tr) /\ Ev.ev = name

TraceInit ==
  /\ tid \in 1..Len(Traces) /\ l = 2
  /\ Traces[tid][1].ev = "Msg"
  /\ InitWith(Traces[tid][1].lc, Traces[tid][1].ld, Traces[tid][1].maxHi, Traces[tid][1].maxLo, Traces[tid][1].ctx)
  /\ TLCSet(tid, [reached |-> 1, inv |-> ""])

TrFrag == IsEvent("Frag") /\ Frag(Ev.cmd, Ev.n, Ev.last, Ev.ctx, Ev.pdulen)
TrSendDone == IsEvent("SendDone") /\ SendDone
TrFeed == IsEvent("Feed") /\ Feed(Ev.k, Ev.receiving)
TrEnd == IsEvent("End") /\ (Ev.done => phase = "done") /\ UNCHANGED vars

TraceNext ==
  /\ (TrFrag \/ TrSendDone \/ TrFeed \/ TrEnd)
  /\ l' = l + 1 /\ tid' = tid
  /\ IF TLCGet(tid).reached < l THEN TLCSet(tid, [reached |-> l, inv |-> ""]) ELSE TRUE
TraceSpec == TraceInit /\ [][TraceNext]_tvars
Report == \A i \in 1..Len(Traces) :
   PrintT("@@" \o ToJson([tid |-> i, reached |-> TLCGet(i).reached, len |-> Len(Traces[i]), inv |-> TLCGet(i).inv]) \o "@@")
=============================================================================
