SPECIFICATION Spec
CONSTANT Lens <- LensBig
INVARIANT Conservation
INVARIANT PrefixOfSent
INVARIANT Aligned
PROPERTY AllRecognised
