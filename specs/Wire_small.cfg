SPECIFICATION Spec
CONSTANT Mode = "small"
INVARIANT RoundTrip
INVARIANT TotalLength
INVARIANT LengthsExact
INVARIANT Emit
