SPECIFICATION TraceSpec
POSTCONDITION Report
CONSTANT ReadMax = 64
