--------------------------- MODULE MC_Negotiation ---------------------------
(* The acceptor relation is never empty and rejects what it must: for every configuration and every *)
(* request of the small universe, the canonical answer satisfies every clause, and each of five    *)
(* deliberately wrong answers violates at least one.                                               *)
EXTENDS Negotiation
CONSTANT MaxCtx
AS == {"S1", "S2", "U"}
TSs == {"T1", "T2", "T3"}
RECURSIVE Perms(_, _)
Perms(S, n) == IF n = 0 THEN {<<>>} ELSE {<<x>> \o p : x \in S, p \in Perms(S, n - 1)}
Lists == {p \in UNION {Perms(TSs, n) : n \in 1..2} : Cardinality(Range(p)) = Len(p)}
Ctxs == UNION {[1..k -> [as : AS, ts : Lists]] : k \in 0..MaxCtx}
VARIABLES cfg, rq
Init == /\ cfg \in [served : {<<>>, <<"S1">>, <<"S1", "S2">>}, supported : {<<>>, <<"T1">>, <<"T2", "T1">>, <<"T1", "T2", "T3">>}]
        /\ \E cs \in Ctxs : rq = [called |-> "B", calling |-> "A", appctx |-> "ctx",
                                  ctxs |-> [i \in 1..Len(cs) |-> [id |-> 2 * i - 1, as |-> cs[i].as, ts |-> cs[i].ts]]]
Next == UNCHANGED <<cfg, rq>>
Spec == Init /\ [][Next]_<<cfg, rq>>
Can == Canonical(cfg, rq)
Achievable == AcceptClauses(cfg, rq, Can) = <<>>
(* wrong answers *)
Swapped == [Can EXCEPT !.called = rq.calling, !.calling = rq.called]
AllAccepted == [Can EXCEPT !.ctxs = [i \in 1..Len(@) |-> [@[i] EXCEPT !.res = 0]]]
Dropped == [Can EXCEPT !.ctxs = IF @ = <<>> THEN @ ELSE Tail(@)]
NoRouting == [Can EXCEPT !.routing = <<>>]
WrongsCaught ==
  /\ AcceptClauses(cfg, rq, Swapped) # <<>>
  /\ (\E i \in 1..Len(Can.ctxs) : Can.ctxs[i].res # 0) => AcceptClauses(cfg, rq, AllAccepted) # <<>>
  /\ (rq.ctxs # <<>>) => AcceptClauses(cfg, rq, Dropped) # <<>>
  /\ (Can.routing # <<>>) => AcceptClauses(cfg, rq, NoRouting) # <<>>
=============================================================================
