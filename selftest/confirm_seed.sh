#!/bin/sh
# confirm_seed.sh <PROP> <X>   - confirm a sub-agent's seeded change in a fresh scratch worktree of /repo HEAD
# (patch applies, 70 stable tests pass with it, demo fails with it and passes without), then file it under seeded/.
P=$1; X=$2; SRCDIR=${3:-$1}; OUTX=${4:-$2}; SRC=/tmp/seedout/$SRCDIR; WT=/tmp/confirm_$P_$X_$$
set +e
git -C /repo worktree add --detach -q $WT HEAD
trap "git -C /repo worktree remove --force $WT" EXIT
cd $WT
D0=$( /venv/bin/python $SRC/${X}_demo.py $WT >/tmp/confirm_demo0.log 2>&1; echo $? )
git apply $SRC/$X.patch.diff
T=$( /venv/bin/python -m pytest -q -p no:cacheprovider tests/test_dimsemessages.py tests/test_pdu.py 2>&1 | tail -1 )
D1=$( /venv/bin/python $SRC/${X}_demo.py $WT >/tmp/confirm_demo1.log 2>&1; echo $? )
echo "$P/$OUTX (from $SRCDIR/$X): demo on HEAD exit=$D0, tests with patch: $T, demo with patch exit=$D1"
if [ "$D0" = 0 ] && [ "$D1" = 1 ] && echo "$T" | grep -q "70 passed"; then
  DEST=/verif/seeded/$P-$OUTX; mkdir -p $DEST
  cp $SRC/$X.patch.diff $DEST/patch.diff; cp $SRC/${X}_demo.py $DEST/demo.py
  /venv/bin/python - $SRC/${X}_meta.json $DEST/meta.json "$T" $(git -C /repo rev-parse --short HEAD) <<'PY'
import json, sys
m = json.load(open(sys.argv[1]))
m['confirmed'] = {'repo_head': sys.argv[4], 'tests_with_patch': sys.argv[3], 'demo_exit_without_patch': 0, 'demo_exit_with_patch': 1,
                  'how': 'selftest/confirm_seed.sh in a scratch worktree outside /repo and /verif'}
json.dump(m, open(sys.argv[2], 'w'), indent=1)
PY
  echo CONFIRMED
else
  echo NOT-CONFIRMED; tail -5 /tmp/confirm_demo0.log /tmp/confirm_demo1.log
fi
