"""C07 finding 2: reassembly rewrites (0000,0800) Command Data Set Type of the received command set.

PS3.7 E.1: Command Data Set Type is 0101H when there is no data set, and ANY other value means
that a data set is present (dcm4che sends 0000H, other toolkits 0102H, the library itself 0001H).
A message whose command set carries e.g. 0000H and a data set is fragmented by the library
(DIMSEMessage.encode, as in C06), delivered in every grouping of the fragments into PDUs, in
memory and file-backed.  The reconstructed message must have an *identical* command set; observed:
(0000,0800) of the reconstructed command set is 0001H, not the transmitted value.
"""
import sys
import itertools
import warnings
REPO = sys.argv[1] if len(sys.argv) > 1 else '/tmp/wt/C07h'
sys.path.insert(0, REPO)
warnings.simplefilter('ignore')

from pydicom.uid import UID, ImplicitVRLittleEndian                     # noqa: E402
import pynetdicom2                                                      # noqa: E402
assert pynetdicom2.__file__.startswith(REPO), pynetdicom2.__file__
from pynetdicom2 import fsm, pdu, dsutils, asceprovider                 # noqa: E402
from pynetdicom2 import dimsemessages as dm                             # noqa: E402
from pynetdicom2 import applicationentity                               # noqa: E402

SOP = '1.2.840.10008.5.1.4.1.1.2'
MAX_LEN = 64


def compositions(items):
    for cuts in itertools.product((False, True), repeat=len(items) - 1):
        groups = [[items[0]]]
        for cut, item in zip(cuts, items[1:]):
            if cut:
                groups.append([item])
            else:
                groups[-1].append(item)
        yield groups


def main():
    ae = applicationentity.ClientAE('LOCAL')
    contexts = {1: asceprovider.PContextDef(1, UID(SOP), UID(ImplicitVRLittleEndian))}
    data = bytes(bytearray(range(90)))
    bad = []
    total = 0
    for ds_type in (0x0000, 0x0001, 0x0102, 0xFFFF):
        msg = dm.CStoreRQMessage()
        msg.sop_class_uid = SOP
        msg.affected_sop_instance_uid = '1.2.3.4'
        msg.message_id = 5
        msg.priority = dm.PRIORITY_MEDIUM
        msg.move_originator_aet = 'MOVER'
        msg.move_originator_message_id = 1
        msg.data_set = data
        # legal: any value other than 0101H announces a data set
        msg.command_set.CommandDataSetType = ds_type
        msg.set_length()
        sent_command = dsutils.encode(msg.command_set, True, True)
        fragments = [p.data_value_items[0] for p in msg.encode(1, MAX_LEN)]

        for use_file in (False, True):
            for groups in compositions(fragments):
                total += 1
                decoder = fsm.DIMSEDecoder(contexts, {SOP} if use_file else set(), ae.get_file)
                for group in groups:
                    assert decoder.receiving
                    decoder.process(pdu.PDataTfPDU.decode(pdu.PDataTfPDU(group).encode()))
                assert not decoder.receiving
                got = decoder.msg
                if use_file:
                    payload = got.data_set.read()
                    got.data_set.close()
                    assert payload.endswith(data)
                else:
                    assert got.data_set == data
                got_command = dsutils.encode(got.command_set, True, True)
                if got_command != sent_command:
                    bad.append((ds_type, use_file, got.command_set.CommandDataSetType))
        print('sent CommandDataSetType 0x%04X -> received 0x%04X' % (
            ds_type, got.command_set.CommandDataSetType))

    if bad:
        kinds = sorted(set('sent 0x%04X / %s / got 0x%04X' % (
            s, 'file' if f else 'memory', g) for s, f, g in bad))
        print('\nPROPERTY C07 VIOLATED: command set of the reconstructed message is not identical '
              'to the transmitted one in %d of %d deliveries:' % (len(bad), total))
        for kind in kinds:
            print('   ', kind)
        return 1
    print('command sets identical in all %d deliveries' % total)
    return 0


if __name__ == '__main__':
    sys.exit(main())
