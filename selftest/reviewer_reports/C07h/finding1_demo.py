"""C07 finding 1: file-backed reception aborts the association for 12 of the 23 DIMSE types.

A message of every one of the 23 command-field codes, carrying a data set, on a SOP class that is
configured for file storage (ae.store_in_file), is fragmented by the library itself
(DIMSEMessage.encode) and fed, one fragment per P-DATA-TF PDU, into the real upper-layer state
machine (fsm.StateMachine in Sta6) that uses the real default file callback AEBase.get_file.

Expected (property C07): the message is delivered with a readable DICOM file holding exactly the
transmitted data-set bytes.  Observed: for every type whose command set has no
(0000,0002) Affected SOP Class UID or no (0000,1000) Affected SOP Instance UID the default
get_file()/write_meta() raises AttributeError, the decoder fails and the association is aborted
(A-ABORT sent, A-P-ABORT indicated) -- the message is never delivered.
"""
import sys
import warnings
REPO = sys.argv[1] if len(sys.argv) > 1 else '/tmp/wt/C07h'
sys.path.insert(0, REPO)
warnings.simplefilter('ignore')

import pydicom                                                          # noqa: E402
from pydicom.uid import UID, ImplicitVRLittleEndian                     # noqa: E402
import pynetdicom2                                                      # noqa: E402
assert pynetdicom2.__file__.startswith(REPO), pynetdicom2.__file__
from six.moves import queue                                             # noqa: E402
from pynetdicom2 import fsm, pdu, dsutils, asceprovider, dulprovider    # noqa: E402
from pynetdicom2 import dimsemessages as dm                             # noqa: E402
from pynetdicom2 import applicationentity                               # noqa: E402

SOP = '1.2.840.10008.5.1.4.1.1.2'      # CT Image Storage: member of sopclass.STORAGE_SOP_CLASSES
MAX_LEN = 64


class FakeSocket(object):
    def __init__(self):
        self.sent = []

    def sendall(self, data):
        self.sent.append(data)

    def close(self):
        pass


class FakeProvider(object):
    """Only what fsm.StateMachine reads from its provider."""
    def __init__(self):
        self.primitive = None
        self.dul_socket = FakeSocket()
        self.to_service_user = queue.Queue()
        self.requestor = 0


def build(cls):
    msg = cls()
    for kw in cls.command_fields:
        if kw == 'CommandGroupLength':
            continue
        vr = pydicom.datadict.dictionary_VR(pydicom.datadict.tag_for_keyword(kw))
        if vr == 'UI':
            value = SOP if 'Class' in kw else '1.2.3.4'
        elif vr == 'US':
            value = 1
        elif vr == 'AE':
            value = 'SOMEAE'
        elif vr == 'AT':
            value = [0x00100010]
        else:
            raise AssertionError((kw, vr))
        setattr(msg.command_set, kw, value)
    return msg


def main():
    ae = applicationentity.ClientAE('LOCAL')
    # configuration of the SOP class for file storage, through the public API
    ae.update_context_def_list([SOP], store_in_file=True)
    assert SOP in ae.store_in_file

    ds = pydicom.Dataset()
    ds.SOPClassUID = SOP
    ds.SOPInstanceUID = '1.2.3.4'
    ds.PatientName = 'Reassembly^Test'
    ds_bytes = dsutils.encode(ds, True, True)

    failures = []
    for code, cls in sorted(dm.MESSAGE_TYPE.items()):
        msg = build(cls)
        # (C-CANCEL-RQ and N-GET-RSP have no SOP class attribute among the library's fields for
        # them: these two are legitimately received in memory)
        msg.data_set = ds_bytes
        msg.set_length()
        sent_command = dsutils.encode(msg.command_set, True, True)
        pdus = [pdu.PDataTfPDU.decode(p.encode()) for p in msg.encode(1, MAX_LEN)]

        provider = FakeProvider()
        machine = fsm.StateMachine(provider, dulprovider.Timer(10), ae.store_in_file, ae.get_file)
        machine.accepted_contexts = {
            1: asceprovider.PContextDef(1, UID(SOP), UID(ImplicitVRLittleEndian))}
        machine.current_state = fsm.States.STA_6

        problem = None
        for index, p_data in enumerate(pdus):
            provider.primitive = p_data
            machine.action(fsm.Events.EVT_10)
            last = index == len(pdus) - 1
            if machine.current_state != fsm.States.STA_6:
                item = provider.to_service_user.get_nowait()
                problem = 'association ABORTED at fragment %d of %d (state %d, indication %r)' % (
                    index + 1, len(pdus), machine.current_state, item)
                break
            if not last and not provider.to_service_user.empty():
                problem = 'completion signalled early'
                break
        if problem is None:
            try:
                got, pc_id = provider.to_service_user.get_nowait()
            except queue.Empty:
                problem = 'no completion after the last fragment'
            else:
                if type(got) is not cls or pc_id != 1:
                    problem = 'wrong type/context'
                elif dsutils.encode(got.command_set, True, True) != sent_command:
                    problem = 'command set differs'
                elif isinstance(got.data_set, bytes):
                    if msg.sop_class_uid == SOP:
                        problem = 'SOP class configured for file storage but data set kept in memory'
                    elif got.data_set != ds_bytes:
                        problem = 'data set differs'
                else:
                    fp = got.data_set
                    whole = fp.read()
                    fp.seek(0)
                    read = pydicom.dcmread(fp)
                    if not whole.endswith(ds_bytes) or read.PatientName != 'Reassembly^Test' \
                            or read.file_meta.TransferSyntaxUID != ImplicitVRLittleEndian:
                        problem = 'file is not the transmitted data set'
                    fp.close()
        print('%-24s 0x%04X : %s' % (cls.__name__, code, problem or 'ok'))
        if problem:
            failures.append(cls.__name__)

    if failures:
        print('\nPROPERTY C07 VIOLATED: file-backed reception failed for %d of %d message types: %s'
              % (len(failures), len(dm.MESSAGE_TYPE), ', '.join(failures)))
        return 1
    print('\nall 23 message types received into a file')
    return 0


if __name__ == '__main__':
    sys.exit(main())
