import os
import sys
import socket
import threading
import warnings

REPO = sys.argv[1] if len(sys.argv) > 1 else '/tmp/wt/C17h'
sys.path.insert(0, REPO)
warnings.simplefilter('ignore')

import pydicom  # noqa: E402
import pynetdicom2  # noqa: E402
assert pynetdicom2.__file__.startswith(REPO), pynetdicom2.__file__
from pynetdicom2 import (fsm, asceprovider, applicationentity, sopclass,  # noqa: E402
                         dimsemessages, statuses, exceptions, dsutils, uids)


# --- in-process "network": fsm.socket is replaced by a shim, so that a requested
# --- association is served by AssociationAcceptor of the addressed AE over socketpair()
class FakeSock(object):
    def __init__(self, net):
        self._net = net
        self._s = None

    def connect(self, addr):
        ae = self._net.aes[addr[1]]
        a, b = socket.socketpair()
        self._s = a

        def run():
            try:
                asceprovider.AssociationAcceptor(b, ('fake', 0), ae,
                                                 max_pdu_length=ae.max_pdu_length)
            except Exception as exc:  # what kills the acceptor thread of the AE
                self._net.errors.append(exc)
            finally:
                b.close()
        thread = threading.Thread(target=run)
        thread.daemon = True
        thread.start()

    def __getattr__(self, name):
        return getattr(self._s, name)


class FakeNet(object):
    AF_INET = socket.AF_INET
    SOCK_STREAM = socket.SOCK_STREAM
    error = socket.error

    def __init__(self):
        self.aes = {}      # 'port' -> AE
        self.errors = []

    def socket(self, *args, **kwargs):
        return FakeSock(self)


NET = FakeNet()
fsm.socket = NET


def finish(problems):
    if problems:
        print('PROPERTY C17 VIOLATED:')
        for line in problems:
            print('  - ' + line)
    else:
        print('OK: no violation observed')
    sys.stdout.flush()
    os._exit(1 if problems else 0)


# ---------------------------------------------------------------------------------------
# Finding 1: C-FIND-RQ / C-MOVE-RQ is never answered when the application handler signals
#            EventHandlingError (C-ECHO / C-STORE / N-ACTION are answered in the same case)
# ---------------------------------------------------------------------------------------
class Srv(applicationentity.AE):
    find_mode = 'call'

    def on_receive_echo(self, context):
        raise exceptions.EventHandlingError('echo handler failed')

    def on_receive_find(self, context, ds):
        if self.find_mode == 'call':
            raise exceptions.EventHandlingError('find handler failed')

        def gen():
            match = pydicom.Dataset()
            match.PatientID = 'A'
            yield match, statuses.C_FIND_PENDING
            raise exceptions.EventHandlingError('find handler failed after first match')
        return gen()

    def on_receive_move(self, context, ds, destination):
        raise exceptions.EventHandlingError('unknown move destination')


srv = Srv('SRV', 0, bind_and_activate=False)
srv.add_scp(sopclass.verification_scp).add_scp(sopclass.qr_find_scp).add_scp(sopclass.qr_move_scp)
srv.timeout = 5
NET.aes[1] = srv

cli = applicationentity.ClientAE('CLI')
cli.add_scu(sopclass.verification_scu).add_scu(sopclass.qr_find_scu).add_scu(sopclass.qr_move_scu)
cli.timeout = 4
REMOTE = {'aet': 'SRV', 'address': 'fake', 'port': 1}

query = pydicom.Dataset()
query.QueryRetrieveLevel = 'PATIENT'
query.PatientID = '*'


def run_request(make_request, sop_class, message_id):
    """Sends one request, returns list of (pc_id sent on, responses) until final one or until
    association is gone"""
    responses = []
    try:
        with cli.request_association(REMOTE) as assoc:
            pc_id, ts = assoc.sop_classes_as_scu[sop_class]
            rq = make_request(ts)
            rq.message_id = message_id
            rq.sop_class_uid = sop_class
            assoc.send(rq, pc_id)
            while True:
                rsp, rsp_pc = assoc.receive()
                responses.append((rsp_pc, rsp))
                if rsp.status not in (0xFF00, 0xFF01):
                    break
    except exceptions.NetDICOMError as exc:
        responses.append(exc)
    return pc_id, responses


def echo_rq(ts):
    return dimsemessages.CEchoRQMessage()


def find_rq(ts):
    rq = dimsemessages.CFindRQMessage()
    rq.priority = dimsemessages.PRIORITY_MEDIUM
    rq.data_set = dsutils.encode(query, ts.is_implicit_VR, ts.is_little_endian)
    return rq


def move_rq(ts):
    rq = dimsemessages.CMoveRQMessage()
    rq.priority = dimsemessages.PRIORITY_MEDIUM
    rq.move_destination = 'NOWHERE'
    rq.data_set = dsutils.encode(query, ts.is_implicit_VR, ts.is_little_endian)
    return rq


problems = []


def check(name, make_request, sop_class, rsp_type, message_id):
    pc_id, responses = run_request(make_request, sop_class, message_id)
    final = responses[-1]
    if isinstance(final, Exception):
        problems.append(
            '%s (message id %d, context %d): handler raised EventHandlingError, request was '
            'NOT answered: %d response(s) received, then %r (acceptor thread died with %r)'
            % (name, message_id, pc_id, len(responses) - 1, final,
               NET.errors[-1] if NET.errors else None))
        return
    rsp_pc, rsp = final
    status = statuses.Status(rsp.status, rsp_type)
    if (rsp_pc != pc_id or rsp.command_field != rsp_type.command_field or
            rsp.message_id_being_responded_to != message_id or
            rsp.sop_class_uid != sop_class or not status.is_failure):
        problems.append('%s: bad final response on context %d:\n%r' % (name, rsp_pc, rsp))
    else:
        print('%s (message id %d): answered, status %s' % (name, message_id, status))


# control: same handler outcome for C-ECHO is answered with the failure status
check('C-ECHO', echo_rq, uids.VERIFICATION_SOP_CLASS, dimsemessages.CEchoRSPMessage, 1)
# C-FIND: handler call raises
srv.find_mode = 'call'
check('C-FIND (handler raises)', find_rq, uids.PATIENT_ROOT_FIND_SOP_CLASS,
      dimsemessages.CFindRSPMessage, 0)
# C-FIND: iterator returned by the handler raises after first match
srv.find_mode = 'iter'
check('C-FIND (iterator raises after 1st match)', find_rq, uids.STUDY_ROOT_FIND_SOP_CLASS,
      dimsemessages.CFindRSPMessage, 65535)
# C-MOVE
check('C-MOVE (handler raises)', move_rq, uids.PATIENT_ROOT_MOVE_SOP_CLASS,
      dimsemessages.CMoveRSPMessage, 2)

finish(problems)
