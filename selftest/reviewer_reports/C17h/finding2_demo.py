import os
import sys
import socket
import threading
import warnings

REPO = sys.argv[1] if len(sys.argv) > 1 else '/tmp/wt/C17h'
sys.path.insert(0, REPO)
warnings.simplefilter('ignore')

import pydicom  # noqa: E402
import pynetdicom2  # noqa: E402
assert pynetdicom2.__file__.startswith(REPO), pynetdicom2.__file__
from pynetdicom2 import (fsm, asceprovider, applicationentity, sopclass,  # noqa: E402
                         dimsemessages, statuses, exceptions, dsutils, uids)


# --- in-process "network": fsm.socket is replaced by a shim, so that a requested
# --- association is served by AssociationAcceptor of the addressed AE over socketpair()
class FakeSock(object):
    def __init__(self, net):
        self._net = net
        self._s = None

    def connect(self, addr):
        ae = self._net.aes[addr[1]]
        a, b = socket.socketpair()
        self._s = a

        def run():
            try:
                asceprovider.AssociationAcceptor(b, ('fake', 0), ae,
                                                 max_pdu_length=ae.max_pdu_length)
            except Exception as exc:  # what kills the acceptor thread of the AE
                self._net.errors.append(exc)
            finally:
                b.close()
        thread = threading.Thread(target=run)
        thread.daemon = True
        thread.start()

    def __getattr__(self, name):
        return getattr(self._s, name)


class FakeNet(object):
    AF_INET = socket.AF_INET
    SOCK_STREAM = socket.SOCK_STREAM
    error = socket.error

    def __init__(self):
        self.aes = {}      # 'port' -> AE
        self.errors = []

    def socket(self, *args, **kwargs):
        return FakeSock(self)


NET = FakeNet()
fsm.socket = NET


def finish(problems):
    if problems:
        print('PROPERTY C17 VIOLATED:')
        for line in problems:
            print('  - ' + line)
    else:
        print('OK: no violation observed')
    sys.stdout.flush()
    os._exit(1 if problems else 0)


# ---------------------------------------------------------------------------------------
# Finding 2: N-ACTION-RSP of the storage commitment provider does not repeat SOP Instance UID
#            of the request (nor its Action Type ID): both are constants
# ---------------------------------------------------------------------------------------
SC = uids.STORAGE_COMMITMENT_SOP_CLASS
WELL_KNOWN = '1.2.840.10008.1.20.1.1'
reports = []


class Srv(applicationentity.AE):
    fail = True

    def on_commitment_request(self, remote_ae, uids_):
        if self.fail:
            raise exceptions.EventHandlingError('no')
        refs = list(uids_)
        return {'aet': 'CLI', 'address': 'fake', 'port': 2}, refs, None


class Cli(applicationentity.AE):
    def on_commitment_response(self, transaction_uid, success, failure):
        reports.append((transaction_uid, list(success), list(failure)))


srv = Srv('SRV', 0, bind_and_activate=False).add_scp(sopclass.StorageCommitment())
srv.timeout = 5
cli = Cli('CLI', 0, bind_and_activate=False)
cli.add_scu(sopclass.storage_commitment_scu).add_scp(sopclass.StorageCommitment())
cli.timeout = 5
NET.aes[1] = srv
NET.aes[2] = cli

problems = []


def n_action(assoc, message_id, instance_uid, action_type):
    pc_id, ts = assoc.sop_classes_as_scu[SC]
    rq = dimsemessages.NActionRQMessage()
    rq.message_id = message_id
    rq.sop_class_uid = SC
    rq.requested_sop_instance_uid = instance_uid
    rq.action_type_id = action_type
    ds = pydicom.Dataset()
    ds.TransactionUID = '1.2.826.0.1.99.%d' % message_id
    ref = pydicom.Dataset()
    ref.ReferencedSOPClassUID = '1.2.840.10008.5.1.4.1.1.7'
    ref.ReferencedSOPInstanceUID = '1.2.826.0.1.5.%d' % message_id
    ds.ReferencedSOPSequence = pydicom.Sequence([ref])
    rq.data_set = dsutils.encode(ds, ts.is_implicit_VR, ts.is_little_endian)
    assoc.send(rq, pc_id)
    rsp, rsp_pc = assoc.receive()
    what = 'N-ACTION-RQ(message id %d, Requested SOP Instance UID %s, Action Type ID %d)' % (
        message_id, instance_uid, action_type)
    print('%s -> N-ACTION-RSP(context %d, responded to %r, class %s, Affected SOP Instance UID '
          '%s, Action Type ID %r, status 0x%04X)' % (
              what, rsp_pc, rsp.message_id_being_responded_to, rsp.sop_class_uid,
              rsp.affected_sop_instance_uid, rsp.action_type_id, rsp.status))
    if rsp_pc != pc_id or rsp.message_id_being_responded_to != message_id \
            or rsp.command_field != 0x8130 or rsp.sop_class_uid != SC:
        problems.append('%s: response does not correlate at all' % what)
    if rsp.affected_sop_instance_uid != instance_uid:
        problems.append('%s: response carries Affected SOP Instance UID %s (status 0x%04X)' % (
            what, rsp.affected_sop_instance_uid, rsp.status))
    if rsp.action_type_id != action_type:
        # not named by the property statement: reported, does not decide the exit code
        print('  note: response carries Action Type ID %r, request had %r' % (
            rsp.action_type_id, action_type))


with cli.request_association({'aet': 'SRV', 'address': 'fake', 'port': 1}) as assoc:
    # handler signals EventHandlingError -> PROCESSING_FAILURE response
    srv.fail = True
    n_action(assoc, 0, WELL_KNOWN, 1)                 # control: well-known instance
    n_action(assoc, 1, '1.2.826.0.1.3680043.2.1', 1)  # any other instance
    n_action(assoc, 65535, WELL_KNOWN, 2)             # any other action type
    # handler succeeds -> SUCCESS response (N-EVENT-REPORT follows on its own association)
    srv.fail = False
    n_action(assoc, 2, '1.2.826.0.1.3680043.2.2', 1)
    import time
    for _ in range(50):
        if reports:
            break
        time.sleep(0.1)

finish(problems)
