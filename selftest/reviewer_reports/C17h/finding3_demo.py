import os
import sys
import socket
import threading
import warnings

REPO = sys.argv[1] if len(sys.argv) > 1 else '/tmp/wt/C17h'
sys.path.insert(0, REPO)
warnings.simplefilter('ignore')

import pydicom  # noqa: E402
import pynetdicom2  # noqa: E402
assert pynetdicom2.__file__.startswith(REPO), pynetdicom2.__file__
from pynetdicom2 import (fsm, asceprovider, applicationentity, sopclass,  # noqa: E402
                         dimsemessages, statuses, exceptions, dsutils, uids)


# --- in-process "network": fsm.socket is replaced by a shim, so that a requested
# --- association is served by AssociationAcceptor of the addressed AE over socketpair()
class FakeSock(object):
    def __init__(self, net):
        self._net = net
        self._s = None

    def connect(self, addr):
        ae = self._net.aes[addr[1]]
        a, b = socket.socketpair()
        self._s = a

        def run():
            try:
                asceprovider.AssociationAcceptor(b, ('fake', 0), ae,
                                                 max_pdu_length=ae.max_pdu_length)
            except Exception as exc:  # what kills the acceptor thread of the AE
                self._net.errors.append(exc)
            finally:
                b.close()
        thread = threading.Thread(target=run)
        thread.daemon = True
        thread.start()

    def __getattr__(self, name):
        return getattr(self._s, name)


class FakeNet(object):
    AF_INET = socket.AF_INET
    SOCK_STREAM = socket.SOCK_STREAM
    error = socket.error

    def __init__(self):
        self.aes = {}      # 'port' -> AE
        self.errors = []

    def socket(self, *args, **kwargs):
        return FakeSock(self)


NET = FakeNet()
fsm.socket = NET


def finish(problems):
    if problems:
        print('PROPERTY C17 VIOLATED:')
        for line in problems:
            print('  - ' + line)
    else:
        print('OK: no violation observed')
    sys.stdout.flush()
    os._exit(1 if problems else 0)


# ---------------------------------------------------------------------------------------
# Finding 3: when C-FIND handler returns a final status (Failure / Cancel / Success class),
#            qr_find_scp sends it and then a second final response with status Success.
#            That response answers no outstanding request and is taken by the peer for the
#            answer to its NEXT request.
# ---------------------------------------------------------------------------------------
class Srv(applicationentity.AE):
    outcome = None

    def on_receive_find(self, context, ds):
        if self.outcome is None:
            match = pydicom.Dataset()
            match.PatientID = 'A'
            return iter([(match, statuses.C_FIND_PENDING), (match, statuses.C_FIND_PENDING_WARNING)])
        # no match can be produced: handler reports final status of the operation
        return iter([(pydicom.Dataset(), self.outcome)])


srv = Srv('SRV', 0, bind_and_activate=False)
srv.add_scp(sopclass.qr_find_scp).add_scp(sopclass.verification_scp)
srv.timeout = 5
NET.aes[1] = srv
cli = applicationentity.ClientAE('CLI').add_scu(sopclass.qr_find_scu).add_scu(sopclass.verification_scu)
cli.timeout = 2
FIND = uids.PATIENT_ROOT_FIND_SOP_CLASS
query = pydicom.Dataset()
query.QueryRetrieveLevel = 'PATIENT'
query.PatientID = '*'

problems = []


def find(assoc, message_id):
    """one C-FIND operation as seen on the wire: list of (message id responded to, status)
    up to and including the first final response"""
    pc_id, ts = assoc.sop_classes_as_scu[FIND]
    rq = dimsemessages.CFindRQMessage()
    rq.message_id = message_id
    rq.sop_class_uid = FIND
    rq.priority = dimsemessages.PRIORITY_MEDIUM
    rq.data_set = dsutils.encode(query, ts.is_implicit_VR, ts.is_little_endian)
    assoc.send(rq, pc_id)
    seen = []
    while True:
        rsp, rsp_pc = assoc.receive()
        status = statuses.Status(rsp.status, dimsemessages.CFindRSPMessage)
        seen.append((rsp.command_field, rsp_pc == pc_id, rsp.message_id_being_responded_to, status))
        if not status.is_pending:
            return seen


for outcome in (statuses.C_FIND_UNABLE_TO_PROCESS, statuses.C_FIND_OUT_OF_RESOURCES,
                statuses.Status(0xFE00, dimsemessages.CFindRSPMessage)):
    with cli.request_association({'aet': 'SRV', 'address': 'fake', 'port': 1}) as assoc:
        # request 1: handler returns a final status
        srv.outcome = outcome
        first = find(assoc, 1)
        print('request 1, handler returned %r: %r' % (outcome, first))
        if [(m, int(s)) for _, _, m, s in first] != [(1, int(outcome))]:
            problems.append('request 1: expected one final response with %r, got %r' % (outcome, first))
        # request 2 on the same association: handler returns two matches
        srv.outcome = None
        second = find(assoc, 65535)
        print('request 2 (message id 65535, handler returned 2 pending matches): %r' % (second,))
        wrong = [item for item in second if item[2] != 65535]
        if wrong:
            problems.append(
                'handler returned %r for request 1: while request 65535 was the only outstanding '
                'one, response(s) %r arrived (Message ID Being Responded To is not 65535, status is '
                'not what handler returned for any of them); requester saw request 65535 complete '
                'with no match although handler returned two' % (outcome, wrong))
        # what is left in the pipe now belongs to nobody
        try:
            while True:
                rsp, _ = assoc.receive()
                print('   left over: responded to %r status 0x%04X' % (
                    rsp.message_id_being_responded_to, rsp.status))
        except exceptions.DCMTimeoutError:
            pass

finish(problems)
