#!/usr/bin/env python
"""C16 finding 2: when the provider's application ends its result sequence with a
final status of its own (failure / cancel / success), qr_find_scp sends that
response AND a second final response (Success).  The query user stops at the
first final response, so the second one stays queued on the association and is
taken for the answer to the NEXT query: that query returns "no matches,
Success" although the application produced matches, and its real responses
are shifted further down the line.

usage: finding2_demo.py [repository path]     exit 1 = property violated
"""
import sys
import time
import warnings

REPO = sys.argv[1] if len(sys.argv) > 1 else '/tmp/wt/C16h'
sys.path.insert(0, REPO)
warnings.simplefilter('ignore')

import pynetdicom2  # noqa: E402
assert pynetdicom2.__file__.startswith(REPO), pynetdicom2.__file__
from pynetdicom2 import applicationentity, sopclass, statuses, dimsemessages  # noqa: E402
from pydicom.dataset import Dataset  # noqa: E402


def match(i):
    ds = Dataset()
    ds.PatientID = str(i)
    return ds


class Provider(applicationentity.AE):
    """First query: two matches, then the application's own final status.
    Second query: three matches (library appends the final Success)."""

    def __init__(self, final):
        applicationentity.AE.__init__(self, 'SRV', 0)
        self.final = final
        self.calls = 0

    def on_receive_find(self, context, ds):
        self.calls += 1
        if self.calls == 1:
            yield match(1), statuses.C_FIND_PENDING
            yield match(2), statuses.C_FIND_PENDING_WARNING
            # final response carries no identifier
            yield Dataset(), self.final
        else:
            yield match(10), statuses.C_FIND_PENDING
            yield match(11), statuses.C_FIND_PENDING_WARNING
            yield match(12), statuses.C_FIND_PENDING


def show(items):
    return [(None if ds is None else str(ds.get('PatientID')), '0x%04X' % int(st))
            for ds, st in items]


def run(final, sop_class, scu, scp):
    srv = Provider(final).add_scp(scp)
    port = srv.server_address[1]
    problems = []
    with srv:
        client = applicationentity.ClientAE('CL').add_scu(scu)
        remote = dict(address='127.0.0.1', port=port, aet='SRV')
        with client.request_association(remote) as assoc:
            find = assoc.get_scu(sop_class)
            query = Dataset()
            query.PatientID = '*'
            first = show(find(query, 1))
            time.sleep(0.5)
            stale = assoc.dul.to_service_user.qsize()
            second = show(find(query, 2))

    exp_first = [('1', '0xFF00'), ('2', '0xFF01'), (None, '0x%04X' % int(final))]
    exp_second = [('10', '0xFF00'), ('11', '0xFF01'), ('12', '0xFF00'), (None, '0x0000')]
    print('  query 1 received: %s' % first)
    if first != exp_first:
        problems.append('query 1: expected %s' % exp_first)
    if stale:
        problems.append('after the final response of query 1, %d more response(s) to query 1 '
                        'arrived (two final responses for one request)' % stale)
    print('  query 2 received: %s' % second)
    if second != exp_second:
        problems.append('query 2: application yielded 3 matches, expected %s' % exp_second)
    return problems


def main():
    bad = False
    cases = [
        ('failure 0xC000', statuses.C_FIND_UNABLE_TO_PROCESS),
        ('cancel  0xFE00', statuses.Status(0xFE00, dimsemessages.CFindRSPMessage)),
        ('success 0x0000', statuses.SUCCESS),
    ]
    variants = [
        ('Q/R find', sopclass.PATIENT_ROOT_FIND_SOP_CLASS, sopclass.qr_find_scu,
         sopclass.qr_find_scp),
        ('worklist', sopclass.MODALITY_WORK_LIST_INFORMATION_FIND_SOP_CLASS,
         sopclass.modality_work_list_scu, sopclass.modality_work_list_scp),
    ]
    for i, (name, final) in enumerate(cases):
        vname, sop_class, scu, scp = variants[i % 2]
        print('%s, application ends its results with final status %s:' % (vname, name))
        problems = run(final, sop_class, scu, scp)
        for problem in problems:
            print('  FAIL ' + problem)
        bad = bad or bool(problems)
    if bad:
        print('VIOLATION of C16: the responses are not followed by exactly one final response; '
              'the surplus final response is delivered as the result of the next query')
        return 1
    print('no violation')
    return 0


if __name__ == '__main__':
    sys.exit(main())
