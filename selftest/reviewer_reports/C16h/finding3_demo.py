#!/usr/bin/env python
"""C16 finding 3: a C-CANCEL-FIND-RQ from the query user tears the association
down on the provider side, and the matches that are still queued are lost.

The user starts a C-FIND, and after the first pending response sends the
C-CANCEL-FIND-RQ that PS3.7 9.3.2.3 allows at any time before the final
response (this is the only way a Cancel final status can come about).
qr_find_scp never looks at incoming messages while it answers, so the cancel
request is read by AssociationAcceptor._loop afterwards; it has no Affected
SOP Class UID, `supported_scp[None]` fails, ClassNotSupportedError escapes
from handle(), the provider is killed about one second later with most of
the responses still in its outgoing queue and the connection is dropped.

Expected (C16): a prefix of the matches, in order, followed by exactly one
final response (Success after all 40 matches, or Cancel after fewer), and the
iteration ends normally.
Observed: ~12 matches, no final response, AssociationAbortedError.

usage: finding3_demo.py [repository path]     exit 1 = property violated
"""
import sys
import time
import warnings

REPO = sys.argv[1] if len(sys.argv) > 1 else '/tmp/wt/C16h'
sys.path.insert(0, REPO)
warnings.simplefilter('ignore')

import pynetdicom2  # noqa: E402
assert pynetdicom2.__file__.startswith(REPO), pynetdicom2.__file__
from pynetdicom2 import applicationentity, asceprovider, sopclass, statuses  # noqa: E402
from pynetdicom2 import dimsemessages  # noqa: E402
from pydicom.dataset import Dataset  # noqa: E402

N = 40
MSG_ID = 7


class Provider(applicationentity.AE):
    def on_receive_find(self, context, ds):
        for i in range(N):
            rsp = Dataset()
            rsp.PatientID = str(i)
            yield rsp, statuses.C_FIND_PENDING

    def handle_error(self, request, client_address):
        exc = sys.exc_info()[1]
        print('  provider side: association handler died with %r' % (exc,))


def main():
    srv = Provider('SRV', 0).add_scp(sopclass.qr_find_scp)
    port = srv.server_address[1]
    got = []
    error = None
    start = time.time()
    with srv:
        client = applicationentity.ClientAE('CL').add_scu(sopclass.qr_find_scu)
        assoc = asceprovider.AssociationRequester(
            client, client.max_pdu_length, dict(address='127.0.0.1', port=port, aet='SRV'))
        assoc.request()
        try:
            find = assoc.get_scu(sopclass.PATIENT_ROOT_FIND_SOP_CLASS)
            pc_id = assoc.sop_classes_as_scu[sopclass.PATIENT_ROOT_FIND_SOP_CLASS][0]
            query = Dataset()
            query.PatientID = '*'
            for ds, status in find(query, MSG_ID):
                got.append((None if ds is None else str(ds.PatientID), int(status)))
                if len(got) == 1:
                    cancel = dimsemessages.CCancelRQMessage()
                    cancel.message_id_being_responded_to = MSG_ID
                    assoc.send(cancel, pc_id)
        except Exception as exc:  # pylint: disable=broad-except
            error = exc
        finally:
            try:
                if error is None:
                    assoc.release()
                else:
                    assoc.kill()
            except Exception:  # pylint: disable=broad-except
                pass
    elapsed = time.time() - start

    problems = []
    pending = [item for item in got if item[1] in (0xFF00, 0xFF01)]
    finals = [item for item in got if item[1] not in (0xFF00, 0xFF01)]
    print('  user received %d pending response(s) and %d final response(s) in %.1f s%s' % (
        len(pending), len(finals), elapsed,
        '' if error is None else ', then %r was raised' % (error,)))
    if error is not None:
        problems.append('iteration ended with %r instead of a final response' % (error,))
    if [pid for pid, _ in pending] != [str(i) for i in range(len(pending))]:
        problems.append('pending responses are not a prefix of what the application yielded')
    if len(finals) != 1 or got[-1:] != finals:
        problems.append('expected exactly one final response at the end, got %r' % (finals,))
    elif finals[0][1] == 0 and len(pending) != N:
        problems.append('final Success after only %d of %d matches' % (len(pending), N))
    elif finals[0][1] not in (0, 0xFE00):
        problems.append('unexpected final status 0x%04X' % finals[0][1])

    for problem in problems:
        print('  FAIL ' + problem)
    if problems:
        print('VIOLATION of C16: matches the provider application produced were not delivered '
              'and no final response ended the iteration')
        return 1
    print('no violation')
    return 0


if __name__ == '__main__':
    sys.exit(main())
