#!/usr/bin/env python
"""C16 finding 1: a C-FIND whose responses need more than ~15 s to leave the
provider is cut off by the provider itself.

Two ordinary configurations are run in parallel (library defaults everywhere,
only the number/size of matches and the maximum PDU length vary):

  A. 250 small matches, default maximum PDU length (one data fragment each)
  B. 24 matches of about 2 KB, requester's maximum PDU length 128
     (every response is split into ~18 P-DATA-TF PDUs)

Expected (property C16): the user receives every match, in order, then one
final Success.  Observed: a prefix of the matches, then AssociationAbortedError.

usage: finding1_demo.py [repository path]     exit 1 = property violated
"""
import sys
import threading
import time
import warnings

REPO = sys.argv[1] if len(sys.argv) > 1 else '/tmp/wt/C16h'
sys.path.insert(0, REPO)
warnings.simplefilter('ignore')

import pynetdicom2  # noqa: E402
assert pynetdicom2.__file__.startswith(REPO), pynetdicom2.__file__
from pynetdicom2 import applicationentity, sopclass, statuses, dsutils  # noqa: E402
from pydicom.dataset import Dataset  # noqa: E402


def match(i, size):
    ds = Dataset()
    ds.PatientName = 'Name^%d' % i
    ds.PatientID = str(i)
    if size:
        ds.StudyDescription = ('%04d' % i) * (size // 4)
    return ds


class Provider(applicationentity.AE):
    def __init__(self, results, **kwargs):
        applicationentity.AE.__init__(self, 'SRV', 0, **kwargs)  # port 0: ephemeral
        self.results = results

    def on_receive_find(self, context, ds):
        for item in self.results:
            yield item

    def handle_error(self, request, client_address):
        pass  # keep output readable


def run(name, n, size, client_max_pdu, report):
    pending = [statuses.C_FIND_PENDING, statuses.C_FIND_PENDING_WARNING]
    results = [(match(i, size), pending[i % 2]) for i in range(n)]
    srv = Provider(results).add_scp(sopclass.qr_find_scp)
    port = srv.server_address[1]
    got = []
    error = None
    start = time.time()
    with srv:
        client = applicationentity.ClientAE('CL', max_pdu_length=client_max_pdu)
        client.add_scu(sopclass.qr_find_scu)
        assoc = applicationentity.asceprovider.AssociationRequester(
            client, client.max_pdu_length,
            dict(address='127.0.0.1', port=port, aet='SRV'))
        assoc.request()
        try:
            find = assoc.get_scu(sopclass.PATIENT_ROOT_FIND_SOP_CLASS)
            query = Dataset()
            query.PatientName = '*'
            for ds, status in find(query, 1):
                got.append((ds, int(status)))
        except Exception as exc:  # pylint: disable=broad-except
            error = exc
        finally:
            try:
                if error is None:
                    assoc.release()
                else:
                    assoc.kill()
            except Exception:  # pylint: disable=broad-except
                pass
    elapsed = time.time() - start

    def enc(ds):
        return None if ds is None else dsutils.encode(ds, True, True)

    expected = [(enc(ds), int(st)) for ds, st in results] + [(None, 0)]
    received = [(enc(ds), st) for ds, st in got]
    ok = error is None and received == expected
    report[name] = (ok, 'scenario %s: provider yielded %d matches; user received %d responses '
                        'in %.1f s%s%s' % (
                            name, n, len(got), elapsed,
                            '' if error is None else ', then %r was raised' % (error,),
                            '' if ok or error is not None else ' (content differs)'))


def main():
    report = {}
    threads = [
        threading.Thread(target=run, args=('A (250 small matches, default PDU length)',
                                           250, 0, 65536, report)),
        threading.Thread(target=run, args=('B (24 matches of 2 KB, maximum PDU length 128)',
                                           24, 2000, 128, report)),
    ]
    for thread in threads:
        thread.start()
    for thread in threads:
        thread.join()
    bad = False
    for name in sorted(report):
        ok, text = report[name]
        print(('ok   ' if ok else 'FAIL ') + text)
        bad = bad or not ok
    if bad:
        print('VIOLATION of C16: the query user did not receive exactly the matches the '
              'provider produced followed by one final response')
        return 1
    print('no violation')
    return 0


if __name__ == '__main__':
    sys.exit(main())
