"""C16 (user side, foreign SCP): a peer packs the PDVs of consecutive C-FIND-RSP
messages into one P-DATA-TF PDU (last data fragment of the pending response
followed by the command fragment of the final response).  The query user must
yield pending match, then the final response.  Observed: the PDVs after the
end of the first message are thrown away, the final response is never
delivered and the iteration ends in DCMTimeoutError instead."""
import sys, socket, struct, threading
repo = sys.argv[1] if len(sys.argv) > 1 else '/tmp/wt/C16h'
sys.path.insert(0, repo)
import pynetdicom2
assert pynetdicom2.__file__.startswith(repo), pynetdicom2.__file__
from pynetdicom2 import applicationentity as aemod, sopclass, statuses, pdu, dsutils, dimsemessages, exceptions
from pydicom.dataset import Dataset


def read_pdu(sock):
    head = b''
    while len(head) < 6:
        chunk = sock.recv(6 - len(head))
        if not chunk:
            return None
        head += chunk
    length = struct.unpack('>L', head[2:6])[0]
    body = b''
    while len(body) < length:
        body += sock.recv(length - len(body))
    return head + body


def rsp_pdvs(pc_id, sop_class, status, identifier):
    """PDVs (one command, optionally one data) of one C-FIND-RSP"""
    rsp = dimsemessages.CFindRSPMessage()
    rsp.message_id_being_responded_to = 1
    rsp.sop_class_uid = sop_class
    rsp.status = status
    if identifier is not None:
        rsp.data_set = dsutils.encode(identifier, True, True)
    rsp.set_length()
    items = [pdu.PresentationDataValueItem(pc_id, b'\x03' + dsutils.encode(rsp.command_set, True, True))]
    if identifier is not None:
        items.append(pdu.PresentationDataValueItem(pc_id, b'\x02' + rsp.data_set))
    return items


def foreign_scp(listener, layout):
    sock, _ = listener.accept()
    rq = pdu.AAssociateRqPDU.decode(read_pdu(sock))
    items = [rq.variable_items[0]]
    pc = rq.variable_items[1]
    items.append(pdu.PresentationContextItemAC(
        pc.context_id, 0, pdu.TransferSyntaxSubItem('1.2.840.10008.1.2')))
    for other in rq.variable_items[2:-1]:
        items.append(pdu.PresentationContextItemAC(other.context_id, 3, pdu.TransferSyntaxSubItem('')))
    items.append(rq.variable_items[-1])
    sock.sendall(pdu.AAssociateAcPDU(called_ae_title=rq.called_ae_title,
                                     calling_ae_title=rq.calling_ae_title,
                                     variable_items=items).encode())
    # C-FIND-RQ: command + identifier
    got_data = False
    while not got_data:
        p = pdu.PDataTfPDU.decode(read_pdu(sock))
        got_data = any(i.data_value[:1] == b'\x02' for i in p.data_value_items)
    m = Dataset(); m.PatientName = 'P1'; m.PatientID = '1'
    pend = rsp_pdvs(pc.context_id, pc.abs_sub_item.name, 0xFF00, m)
    final = rsp_pdvs(pc.context_id, pc.abs_sub_item.name, 0x0000, None)
    if layout == 'separate':
        pdus = [[pend[0]], [pend[1]], [final[0]]]
    elif layout == 'msg-per-pdu':
        pdus = [pend, final]
    elif layout == 'data+next-command':
        pdus = [[pend[0]], [pend[1], final[0]]]
    else:  # everything in one PDU
        pdus = [pend + final]
    for items in pdus:
        sock.sendall(pdu.PDataTfPDU(items).encode())
    while True:  # release or abort or close
        raw = read_pdu(sock)
        if raw is None:
            break
        if raw[:1] == b'\x05':
            sock.sendall(pdu.AReleaseRpPDU().encode())
            break
        if raw[:1] == b'\x07':
            break
    sock.close()


bad = 0
for layout in ('separate', 'msg-per-pdu', 'data+next-command', 'all-in-one'):
    listener = socket.socket()
    listener.bind(('127.0.0.1', 0))  # ephemeral port
    listener.listen(1)
    t = threading.Thread(target=foreign_scp, args=(listener, layout))
    t.daemon = True
    t.start()
    c = aemod.ClientAE('SCU').add_scu(sopclass.qr_find_scu, [sopclass.PATIENT_ROOT_FIND_SOP_CLASS])
    c.timeout = 3
    q = Dataset(); q.PatientName = '*'; q.QueryRetrieveLevel = 'PATIENT'
    out = []
    try:
        with c.request_association(dict(aet='X', address='127.0.0.1',
                                        port=listener.getsockname()[1])) as a:
            for d, st in a.get_scu(sopclass.PATIENT_ROOT_FIND_SOP_CLASS)(q, 1):
                out.append((None if d is None else str(d.PatientID), int(st)))
    except Exception as exc:  # pylint: disable=broad-except
        out.append(repr(exc))
    listener.close()
    ok = out == [('1', 0xFF00), (None, 0)]
    print('%-18s %s %r' % (layout, 'ok' if ok else 'VIOLATION', out))
    bad += not ok
sys.exit(1 if bad else 0)
