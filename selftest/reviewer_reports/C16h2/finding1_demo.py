"""C16: provider application ends a C-FIND with its own final status (cancel /
failure / success) and, as PS3.4 C.4.1.3 demands, no identifier (None).
Expected: user gets the pending matches, then ONE final response with that
status and no data set.  Observed: provider crashes, association is torn
down, user gets AssociationAbortedError and never sees the final status."""
import sys, io, contextlib
repo = sys.argv[1] if len(sys.argv) > 1 else '/tmp/wt/C16h'
sys.path.insert(0, repo)
import pynetdicom2
assert pynetdicom2.__file__.startswith(repo), pynetdicom2.__file__
from pynetdicom2 import applicationentity as aemod, sopclass, statuses
from pydicom.dataset import Dataset


def run(results, scp, scu):
    class S(aemod.AE):
        def on_receive_find(self, ctx, ds):
            return iter(results)
        def handle_error(self, request, client_address):  # keep output short
            import traceback
            sys.stdout.write('provider thread died: %s' % traceback.format_exc().splitlines()[-1] + '\n')
    srv = S('SCP', 0).add_scp(scp)   # port 0: ephemeral
    out = []
    with srv:
        c = aemod.ClientAE('SCU').add_scu(scu)
        c.timeout = 5
        remote = dict(aet='SCP', address='127.0.0.1', port=srv.server_address[1])
        with c.request_association(remote) as a:
            for d, st in a.get_scu(scu.sop_classes[0])(q, 1):
                out.append((d, int(st)))
    return out


q = Dataset(); q.PatientName = 'A*'; q.QueryRetrieveLevel = 'PATIENT'
m = Dataset(); m.PatientName = 'P1'; m.PatientID = '1'
bad = 0
for name, scp, scu in (('qr', sopclass.qr_find_scp, sopclass.qr_find_scu),
                       ('mwl', sopclass.modality_work_list_scp, sopclass.modality_work_list_scu)):
    for final in (0xFE00, 0xA700, 0xC001, 0x0000):
        results = [(m, statuses.C_FIND_PENDING),
                   (None, statuses.Status(final, None))]
        try:
            out = run(results, scp, scu)
        except Exception as exc:  # pylint: disable=broad-except
            print('%s final 0x%04X: VIOLATION user got %r instead of final response' % (name, final, exc))
            bad += 1
            continue
        got = [(None if d is None else d.PatientID, s) for d, s in out]
        if got != [('1', 0xFF00), (None, final)]:
            print('%s final 0x%04X: VIOLATION got %r' % (name, final, got))
            bad += 1
        else:
            print('%s final 0x%04X: ok' % (name, final))
sys.exit(1 if bad else 0)
