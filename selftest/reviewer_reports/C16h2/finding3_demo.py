"""C16 (one-call wrapper): pynetdicom2.c_find() takes its Message ID from a
per-thread counter that only grows.  The 65536th call made by one thread (a
worklist poller reaches that in a few days) uses Message ID 65536, which does
not fit (0000,0110) US: the request can not be encoded and the call raises
instead of returning the matches the SCP produces.
The counter's only input is the number of earlier calls; to stay under 60 s the
demo makes 3 real calls and replays the other 65533 by calling the counter
function the wrapper itself calls (pynetdicom2._new_msg_id)."""
import sys
repo = sys.argv[1] if len(sys.argv) > 1 else '/tmp/wt/C16h'
sys.path.insert(0, repo)
import pynetdicom2
assert pynetdicom2.__file__.startswith(repo), pynetdicom2.__file__
from pynetdicom2 import applicationentity as aemod, sopclass, statuses
from pydicom.dataset import Dataset


class S(aemod.AE):
    def on_receive_find(self, ctx, ds):
        return iter([(ds, statuses.C_FIND_PENDING)])


def call(remote, q):
    return [(None if d is None else str(d.PatientName), int(s))
            for d, s in pynetdicom2.c_find(remote, 'SCU', q)]


srv = S('SCP', 0).add_scp(sopclass.qr_find_scp)  # ephemeral port
q = Dataset(); q.PatientName = 'A*'; q.QueryRetrieveLevel = 'PATIENT'
expected = [('A*', 0xFF00), (None, 0)]
bad = 0
with srv:
    remote = dict(aet='SCP', address='127.0.0.1', port=srv.server_address[1])
    calls = 0
    assert call(remote, q) == expected; calls += 1          # call 1
    while calls < 65534:                                     # calls 2..65534 (replayed)
        pynetdicom2._new_msg_id(); calls += 1
    for _ in range(2):                                       # calls 65535, 65536
        calls += 1
        try:
            got = call(remote, q)
        except Exception as exc:  # pylint: disable=broad-except
            print('call %d: VIOLATION %s' % (calls, str(exc).splitlines()[0])); bad += 1
        else:
            print('call %d: %s %r' % (calls, 'ok' if got == expected else 'VIOLATION', got))
            bad += got != expected
sys.exit(1 if bad else 0)
