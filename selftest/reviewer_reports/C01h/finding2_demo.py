"""C01 finding 2: a user-information sub-item with item type 0 (GenericUserDataSubItem, integer
field item_type at its minimum) is silently dropped on decode together with every sub-item that
follows it."""
import sys
REPO = sys.argv[1] if len(sys.argv) > 1 else '/tmp/wt/C01h'
sys.path.insert(0, REPO)
import pynetdicom2
assert pynetdicom2.__file__.startswith(REPO), pynetdicom2.__file__
from pynetdicom2 import pdu, userdataitems as u

problems = []


def describe(items):
    return [(type(i).__name__, getattr(i, 'item_type', None)) for i in items]


def check(label, user_data):
    original = pdu.AAssociateRqPDU('CALLED', 'CALLING', [
        pdu.ApplicationContextItem('1.2.840.10008.3.1.1.1'),
        pdu.PresentationContextItemRQ(1, pdu.AbstractSyntaxSubItem('1.2.840.10008.1.1'),
                                      [pdu.TransferSyntaxSubItem('1.2.840.10008.1.2')]),
        pdu.UserInformationItem(user_data)])
    raw = original.encode()
    assert len(raw) == original.total_length()
    try:
        decoded = pdu.AAssociateRqPDU.decode(raw)
    except Exception as exc:  # pylint: disable=broad-except
        problems.append('%s: decode raised %s: %s' % (label, type(exc).__name__, exc))
        return
    got = decoded.variable_items[-1].user_data
    if describe(got) != describe(user_data):
        problems.append('%s: sub-items sent %s, sub-items decoded %s (no error reported)'
                        % (label, describe(user_data), describe(got)))
    again = decoded.encode()
    if again != raw:
        problems.append('%s: re-encoded PDU is %d bytes, original was %d bytes'
                        % (label, len(again), len(raw)))


# controls: every other value of the field is fine, including 1 and the maximum
for item_type in (0x01, 0x57, 0x5A, 0xFF):
    check('control item_type=0x%02X' % item_type,
          [u.MaximumLengthSubItem(16384), u.GenericUserDataSubItem(item_type, b'abc'),
           u.ImplementationClassUIDSubItem('1.2.3'), u.ImplementationVersionNameSubItem('V1')])
assert not problems, problems

check('item_type=0x00 in the middle',
      [u.MaximumLengthSubItem(16384), u.GenericUserDataSubItem(0x00, b'abc'),
       u.ImplementationClassUIDSubItem('1.2.3'), u.ImplementationVersionNameSubItem('V1')])
check('item_type=0x00 first',
      [u.GenericUserDataSubItem(0x00, b''), u.MaximumLengthSubItem(16384)])
check('item_type=0x00 last',
      [u.MaximumLengthSubItem(16384), u.GenericUserDataSubItem(0x00, b'\x01\x02')])

if problems:
    print('PROPERTY C01 VIOLATED:')
    for p in problems:
        print(' -', p)
    sys.exit(1)
print('ok')
sys.exit(0)
