"""C01 finding 1: UserIdentityNegotiationSubItemAc computes its length from the number of
characters of server_response but writes the UTF-8 encoded bytes, so a non-ASCII server response
produces a PDU that can not be decoded back."""
import sys
REPO = sys.argv[1] if len(sys.argv) > 1 else '/tmp/wt/C01h'
sys.path.insert(0, REPO)
import pynetdicom2
assert pynetdicom2.__file__.startswith(REPO), pynetdicom2.__file__
from pynetdicom2 import pdu, userdataitems as u

import warnings
warnings.simplefilter("ignore")
problems = []


def snapshot(obj):
    if isinstance(obj, (list, tuple)):
        return [snapshot(x) for x in obj]
    if hasattr(obj, '__dict__') and type(obj).__module__.startswith('pynetdicom2'):
        return (type(obj).__name__, dict((k, snapshot(v)) for k, v in vars(obj).items()))
    if isinstance(obj, str):
        return str(obj)
    return obj


def check(label, original):
    raw = original.encode()
    if len(raw) != original.total_length():
        problems.append('%s: encode() produced %d bytes but total_length() (and the length '
                        'fields written in the PDU) say %d' % (label, len(raw), original.total_length()))
    try:
        decoded = type(original).decode(raw)
    except Exception as exc:  # pylint: disable=broad-except
        problems.append('%s: PDU produced by encode() can not be decoded: %s: %s'
                        % (label, type(exc).__name__, exc))
        return
    if snapshot(decoded) != snapshot(original):
        problems.append('%s: decoded fields differ from the original' % label)
    if decoded.encode() != raw:
        problems.append('%s: re-encoded bytes differ' % label)


def ac_pdu(user_data, tail):
    items = [pdu.ApplicationContextItem('1.2.840.10008.3.1.1.1'),
             pdu.PresentationContextItemAC(1, 0, pdu.TransferSyntaxSubItem('1.2.840.10008.1.2')),
             pdu.UserInformationItem(user_data)]
    if tail:  # items may come in any order: a presentation context after the user information
        items.append(pdu.PresentationContextItemAC(3, 0, pdu.TransferSyntaxSubItem('1.2.840.10008.1.2')))
    return pdu.AAssociateAcPDU('CALLED', 'CALLING', items)


# control: same shape, ASCII response -> must be fine (otherwise the harness is wrong)
check('control (ASCII response)',
      ac_pdu([u.MaximumLengthSubItem(16384), u.UserIdentityNegotiationSubItemAc('Zoe')], False))
assert not problems, problems
# control: the request flavour of the sub-item handles the very same text correctly
check('control (RQ sub-item, non-ASCII)',
      pdu.AAssociateRqPDU('A', 'B', [pdu.UserInformationItem(
          [u.MaximumLengthSubItem(16384), u.UserIdentityNegotiationSubItem(u'Zo\xeb', u'p\xe4ss')])]))
assert not problems, problems

response = u'<Response><Attribute>Zo\xeb</Attribute></Response>'  # SAML responses are UTF-8 XML
check('UserIdentityNegotiationSubItemAc last in list',
      ac_pdu([u.MaximumLengthSubItem(16384), u.UserIdentityNegotiationSubItemAc(response)], False))
check('UserIdentityNegotiationSubItemAc followed by another sub-item',
      ac_pdu([u.UserIdentityNegotiationSubItemAc(response), u.ImplementationClassUIDSubItem('1.2.3')], True))
item = u.UserIdentityNegotiationSubItemAc(u'\xeb')
if len(item.encode()) != item.total_length:
    problems.append('sub-item alone: encode() gives %d bytes, total_length is %d, item length '
                    'field written is %d' % (len(item.encode()), item.total_length, item.item_length))

if problems:
    print('PROPERTY C01 VIOLATED:')
    for p in problems:
        print(' -', p)
    sys.exit(1)
print('ok')
sys.exit(0)
