"""C03 counter-example: requestor side, A-ASSOCIATE-AC and the first P-DATA-TF
delivered in ONE transport segment give a different result than the same bytes
delivered one PDU per segment.

Peer byte stream (identical in both runs):
    [A-ASSOCIATE-AC] [P-DATA-TF: C-STORE-RQ command] [P-DATA-TF: data set]

 * one PDU per segment  -> local user gets A-ASSOCIATE confirmation, then a
                           C-STORE-RQ indication; nothing is sent back.
 * one segment          -> local user gets A-ASSOCIATE confirmation, then an
                           A-P-ABORT; provider sends an A-ABORT PDU back.

No fixed ports: fsm.socket is replaced by a shim that hands out one end of a
socket.socketpair().
"""
import sys
import os

REPO = sys.argv[1] if len(sys.argv) > 1 else '/tmp/wt/C03h'
sys.path.insert(0, REPO)

import socket
import threading
import time

import pynetdicom2
assert pynetdicom2.__file__.startswith(os.path.abspath(REPO)), pynetdicom2.__file__

from pynetdicom2 import fsm, pdu, userdataitems, dimsemessages, exceptions
from pynetdicom2 import applicationentity, asceprovider

CT = '1.2.840.10008.5.1.4.1.1.2'
IMPLICIT_LE = '1.2.840.10008.1.2'


class _Conn(object):
    """socketpair end that tolerates connect() (transport is already open)"""

    def __init__(self, sock):
        self._sock = sock

    def connect(self, _address):
        pass

    def __getattr__(self, name):
        return getattr(self._sock, name)


class _SocketShim(object):
    """stands in for the `socket` module inside pynetdicom2.fsm"""
    AF_INET = socket.AF_INET
    SOCK_STREAM = socket.SOCK_STREAM
    error = socket.error

    def __init__(self):
        self.pending = []

    def socket(self, *_args):
        return _Conn(self.pending.pop(0))


SHIM = _SocketShim()
fsm.socket = SHIM


def storage_like_scp(asce, ctx, msg):  # never called: only configuration matters
    raise AssertionError


storage_like_scp.sop_classes = [CT]
storage_like_scp.store_in_file = True  # same flag sopclass.storage_scp carries


def recv_pdu(sock, timeout=5.0):
    sock.settimeout(timeout)
    buf = b''
    while len(buf) < 6:
        chunk = sock.recv(6 - len(buf))
        if not chunk:
            return buf
        buf += chunk
    need = 6 + int.from_bytes(buf[2:6], 'big')
    while len(buf) < need:
        chunk = sock.recv(need - len(buf))
        if not chunk:
            break
        buf += chunk
    return buf


def peer_stream(rq_bytes):
    """what the peer (acceptor, SCU of CT Image Storage) sends: AC + one C-STORE-RQ"""
    rq = pdu.AAssociateRqPDU.decode(rq_bytes)
    ctx_items = [i for i in rq.variable_items
                 if isinstance(i, pdu.PresentationContextItemRQ)]
    assert len(ctx_items) == 1 and ctx_items[0].abs_sub_item.name == CT
    pc_id = ctx_items[0].context_id
    ac = pdu.AAssociateAcPDU(
        called_ae_title=rq.called_ae_title,
        calling_ae_title=rq.calling_ae_title,
        variable_items=[
            rq.variable_items[0],
            pdu.PresentationContextItemAC(pc_id, 0, pdu.TransferSyntaxSubItem(IMPLICIT_LE)),
            pdu.UserInformationItem([
                userdataitems.MaximumLengthSubItem(16384),
                userdataitems.ImplementationClassUIDSubItem('1.2.3.4.5'),
                # peer accepts the proposed role: requestor is SCP of CT Image Storage
                userdataitems.ScpScuRoleSelectionSubItem(CT, 0, 1),
            ])
        ])
    msg = dimsemessages.CStoreRQMessage()
    msg.sop_class_uid = CT
    msg.message_id = 1
    msg.priority = dimsemessages.PRIORITY_MEDIUM
    msg.affected_sop_instance_uid = '1.2.3.4.5.6.7'
    # (0008,0018) SOP Instance UID, implicit VR little endian
    msg.data_set = b'\x08\x00\x18\x00\x0e\x00\x00\x00' + b'1.2.3.4.5.6.7\x00'
    del msg.command_set.MoveOriginatorApplicationEntityTitle
    del msg.command_set.MoveOriginatorMessageID
    msg.set_length()
    return [ac.encode()] + [p.encode() for p in msg.encode(pc_id, 16384)]


def run(one_segment):
    local, remote = socket.socketpair()
    SHIM.pending.append(local)

    # full AE (never bound, never listening) that is SCP of CT Image Storage with
    # datasets stored in a file; on associations it requests it proposes the SCP
    # role for that class (ScpScuRoleSelectionSubItem(CT, 0, 1))
    ae = applicationentity.AE('LOCAL', 0, bind_and_activate=False)
    ae.timeout = 5
    ae.add_scp(storage_like_scp)
    assert CT in ae.store_in_file

    seen = []

    def user():
        assoc = asceprovider.AssociationRequester(
            ae, ae.max_pdu_length, {'aet': 'PEER', 'address': 'x', 'port': 0})
        try:
            assoc.request()
            seen.append('A-ASSOCIATE confirmation (accept)')
            try:
                msg, pc_id = assoc.receive()
                seen.append('P-DATA indication: %s pc=%d' % (type(msg).__name__, pc_id))
                if hasattr(msg.data_set, 'close'):
                    msg.data_set.close()
            except exceptions.AssociationAbortedError as exc:
                seen.append('A-P-ABORT indication source=%s' % (exc.source,))
            except exceptions.DCMTimeoutError:
                seen.append('timeout')
        finally:
            assoc.dul.is_killed = True

    thread = threading.Thread(target=user)
    thread.start()

    rq_bytes = recv_pdu(remote)
    pdus = peer_stream(rq_bytes)
    if one_segment:
        remote.sendall(b''.join(pdus))
    else:
        for raw in pdus:
            remote.sendall(raw)
            time.sleep(0.5)   # one PDU per segment

    thread.join(20)
    # what did the provider send back after its A-ASSOCIATE-RQ?
    remote.settimeout(0.5)
    back = b''
    try:
        while True:
            chunk = remote.recv(4096)
            if not chunk:
                break
            back += chunk
    except (socket.timeout, socket.error):
        pass
    remote.close()
    ae.server_close()
    return seen, back, b''.join(pdus)


def main():
    split_seen, split_back, stream_a = run(one_segment=False)
    bad = None
    for attempt in range(5):
        once_seen, once_back, stream_b = run(one_segment=True)
        assert stream_a == stream_b, 'peer stream must be identical'
        if (once_seen, once_back) != (split_seen, split_back):
            bad = (once_seen, once_back)
            break
    print('peer stream: %d bytes, 3 PDUs (A-ASSOCIATE-AC, 2 x P-DATA-TF)' % len(stream_a))
    print('one PDU per segment : indications=%r sent back=%r' % (split_seen, split_back))
    if bad is None:
        print('one segment         : same result')
        return 0
    print('one segment         : indications=%r sent back=%r' % bad)
    print('VIOLATION of C03: same byte stream, different indications / PDUs sent back, '
          'depending only on how the stream was cut into segments')
    return 1


if __name__ == '__main__':
    sys.exit(main())
