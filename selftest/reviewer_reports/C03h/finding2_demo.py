"""C03 counter-example (second use of the same provider object).

Bytes that follow the PDU which ends an association (A-ASSOCIATE-RJ here; the
same holds for A-RELEASE-RP and A-ABORT) are dropped when they come in a later
segment (the provider has closed the connection by then), but are KEPT in
DULServiceProvider.raw_pdu when they come in the same segment as that PDU.
raw_pdu is never reset, so on the next association requested through the same
provider they are glued in front of the new peer's byte stream and the
A-ASSOCIATE-AC of the second association is mis-framed.

Peer streams (identical in both runs):
    association 1:  [A-ASSOCIATE-RJ] + 2 trailing bytes
    association 2:  [A-ASSOCIATE-AC]

Only the segmentation of association 1's stream differs:
    run A: [A-ASSOCIATE-RJ] | [2 bytes]          (one PDU per segment)
    run B: [A-ASSOCIATE-RJ + 2 bytes]            (everything at once)
"""
import sys
import os

REPO = sys.argv[1] if len(sys.argv) > 1 else '/tmp/wt/C03h'
sys.path.insert(0, REPO)

import socket
import time

import pynetdicom2
assert pynetdicom2.__file__.startswith(os.path.abspath(REPO)), pynetdicom2.__file__

from pynetdicom2 import fsm, pdu, userdataitems, dulprovider, exceptions

VERIFICATION = '1.2.840.10008.1.1'
IMPLICIT_LE = '1.2.840.10008.1.2'
TRAILING = b'\x00\x00'


class _Conn(object):
    def __init__(self, sock):
        self._sock = sock

    def connect(self, _address):
        pass

    def __getattr__(self, name):
        return getattr(self._sock, name)


class _SocketShim(object):
    AF_INET = socket.AF_INET
    SOCK_STREAM = socket.SOCK_STREAM
    error = socket.error

    def __init__(self):
        self.pending = []

    def socket(self, *_args):
        return _Conn(self.pending.pop(0))


SHIM = _SocketShim()
fsm.socket = SHIM


def make_rq():
    rq = pdu.AAssociateRqPDU(
        called_ae_title='PEER', calling_ae_title='LOCAL',
        variable_items=[
            pdu.ApplicationContextItem('1.2.840.10008.3.1.1.1'),
            pdu.PresentationContextItemRQ(
                1, pdu.AbstractSyntaxSubItem(VERIFICATION),
                [pdu.TransferSyntaxSubItem(IMPLICIT_LE)]),
            pdu.UserInformationItem([
                userdataitems.MaximumLengthSubItem(16384),
                userdataitems.ImplementationClassUIDSubItem('1.2.3.4')])
        ])
    rq.called_presentation_address = ('x', 0)
    return rq


def make_ac():
    return pdu.AAssociateAcPDU(
        called_ae_title='PEER', calling_ae_title='LOCAL',
        variable_items=[
            pdu.ApplicationContextItem('1.2.840.10008.3.1.1.1'),
            pdu.PresentationContextItemAC(1, 0, pdu.TransferSyntaxSubItem(IMPLICIT_LE)),
            pdu.UserInformationItem([
                userdataitems.MaximumLengthSubItem(16384),
                userdataitems.ImplementationClassUIDSubItem('1.2.3.4.5')])
        ]).encode()


def read_exact_pdu(sock):
    sock.settimeout(5)
    buf = b''
    while len(buf) < 6:
        buf += sock.recv(6 - len(buf))
    need = 6 + int.from_bytes(buf[2:6], 'big')
    while len(buf) < need:
        buf += sock.recv(need - len(buf))
    return buf


def describe(primitive):
    if primitive is None:
        return 'nothing (timeout)'
    if isinstance(primitive, tuple):
        return 'P-DATA indication'
    return type(primitive).__name__


def indication(dul, timeout=2.0):
    try:
        return dul.receive(timeout)
    except exceptions.DCMTimeoutError:
        return None


def wait_state(dul, state, timeout=5.0):
    end = time.time() + timeout
    while time.time() < end:
        if dul.state_machine.current_state == state and not dul.event:
            return True
        time.sleep(0.01)
    return False


def run(segments_1):
    """segments_1: how association 1's peer stream is cut"""
    dul = dulprovider.DULServiceProvider(frozenset(), None)
    seen = []
    try:
        # ---- association 1: rejected by the peer
        local, remote = socket.socketpair()
        SHIM.pending.append(local)
        dul.send(make_rq())
        read_exact_pdu(remote)
        for seg in segments_1:
            try:
                remote.sendall(seg)
            except socket.error:
                pass  # provider has already closed the connection
            time.sleep(0.3)
        seen.append('assoc 1: ' + describe(indication(dul)))
        assert wait_state(dul, fsm.States.STA_1), 'provider must be idle again'
        remote.close()

        # ---- association 2, same provider object: accepted by the (new) peer
        local, remote = socket.socketpair()
        SHIM.pending.append(local)
        dul.send(make_rq())
        read_exact_pdu(remote)
        remote.sendall(make_ac())
        seen.append('assoc 2: ' + describe(indication(dul)))
        seen.append('bytes left unframed in provider: %d' % len(dul.raw_pdu))
        remote.close()
    finally:
        dul.is_killed = True
        dul.join(5)
    return seen


def main():
    rj = pdu.AAssociateRjPDU(1, 1, 1).encode()
    per_pdu = run([rj, TRAILING])
    at_once = run([rj + TRAILING])
    print('association 1 stream = A-ASSOCIATE-RJ + %r, association 2 stream = A-ASSOCIATE-AC'
          % TRAILING)
    print('cut after the RJ PDU :', per_pdu)
    print('everything at once   :', at_once)
    if per_pdu != at_once:
        print('VIOLATION of C03: the same peer byte streams give different indications, '
              'depending only on the segmentation of the first stream '
              '(stale DULServiceProvider.raw_pdu survives the closed connection)')
        return 1
    return 0


if __name__ == '__main__':
    sys.exit(main())
