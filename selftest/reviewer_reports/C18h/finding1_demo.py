"""C18 borderline finding: the standard's Warning codes 0x0107 / 0x0116 (PS3.7 Annex C.4.2, C.4.3)
are registered by name in pynetdicom2.statuses but classified 'Failure' for every response class.
Also runs the exhaustive totality / int round-trip check (which passes)."""
import sys, inspect, warnings
warnings.simplefilter('ignore')
repo = sys.argv[1] if len(sys.argv) > 1 else '/tmp/wt/C18h'
sys.path.insert(0, repo)
import pynetdicom2
assert pynetdicom2.__file__.startswith(repo), pynetdicom2.__file__
from pynetdicom2 import statuses as st, dimsemessages as d

classes = [c for _, c in inspect.getmembers(d, inspect.isclass)
           if issubclass(c, d.DIMSEResponseMessage)] + [None]
problems = []

# 1. exhaustive totality and int round trip (expected to hold)
for c in classes:
    for code in range(65536):
        s = st.Status(code, c)
        if sum([s.is_success, s.is_pending, s.is_failure, s.is_warning, s.is_cancel]) != 1 or int(s) != code:
            problems.append('totality/int: %r 0x%04X' % (c, code))

# 2. PS3.7 Annex C: 0107H "Attribute list error" and 0116H "Attribute Value out of range" are
#    status class *Warning* (the operation was performed); they are returned by N-GET / N-SET / N-CREATE.
std_warning = {
    0x0107: [d.NGetRSPMessage, d.NSetRSPMessage, d.NCreateRSPMessage],
    0x0116: [d.NSetRSPMessage, d.NCreateRSPMessage],
}
for code, cls_list in std_warning.items():
    for c in cls_list:
        s = st.Status(code, c)
        if not s.is_warning:
            problems.append('%s(0x%04X) -> %s; PS3.7 Annex C says Warning' % (c.__name__, code, s))

if problems:
    print('\n'.join(problems[:40]))
    sys.exit(1)
print('ok')
