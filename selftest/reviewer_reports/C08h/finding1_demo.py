#!/usr/bin/env python
"""C08 counter-example: Association.send() sets the group length at once, but
encodes the command set (and decides whether data-set fragments follow) later,
piecewise, in the DUL provider thread.  A message object that is sent again
with changed fields (the re-use pattern the property quantifies over) is put on
the wire with

  S1  Command Data Set Type = 'data set present' and NO data-set fragments,
  S2  Command Data Set Type = 'no data set' FOLLOWED by data-set fragments,
  S3  a Command Group Length that differs from the number of bytes that follow.

Everything runs in-process over socket.socketpair(): the library side is a real
AE + AssociationAcceptor + DULServiceProvider, the peer is a raw socket whose
byte stream is checked with an independent PS3.7/PS3.8 parser.

usage: finding1_demo.py [repository path]      exit 1 = property violated
"""
from __future__ import print_function
import sys
REPO = sys.argv[1] if len(sys.argv) > 1 else '/tmp/wt/C08h'
sys.path.insert(0, REPO)

import socket
import struct
import threading
import time
import warnings

warnings.filterwarnings('ignore')

import pynetdicom2
assert pynetdicom2.__file__.startswith(REPO), pynetdicom2.__file__

from pydicom import uid
from pynetdicom2 import applicationentity, asceprovider, dimsemessages, pdu, userdataitems
from pynetdicom2 import sopclass

FIND = sopclass.STUDY_ROOT_FIND_SOP_CLASS
MOVE = sopclass.STUDY_ROOT_MOVE_SOP_CLASS
COMMIT = sopclass.STORAGE_COMMITMENT_SOP_CLASS
IMPLICIT = uid.ImplicitVRLittleEndian

# an identifier, implicit VR little endian: (0010,0020) PatientID = 'P1'
IDENTIFIER = struct.pack('<HHL', 0x0010, 0x0020, 2) + b'P1'
# (0008,0058) Failed SOP Instance UID List
FAILED_LIST = struct.pack('<HHL', 0x0008, 0x0058, 4) + b'1.2\0'


# --------------------------------------------------------------------------
# independent checker of what arrived at the peer
# --------------------------------------------------------------------------
def split_pdus(raw):
    pos = 0
    while pos + 6 <= len(raw):
        ptype, _, length = struct.unpack('>BBL', raw[pos:pos + 6])
        yield ptype, raw[pos + 6:pos + 6 + length]
        pos += 6 + length


def pdvs(raw):
    for ptype, body in split_pdus(raw):
        if ptype != 4:
            continue
        pos = 0
        while pos < len(body):
            length, _ = struct.unpack('>LB', body[pos:pos + 5])
            yield bytearray(body[pos + 5:pos + 4 + length])[0], body[pos + 6:pos + 4 + length]
            pos += 4 + length


def elements(cmd):
    pos = 0
    while pos + 8 <= len(cmd):
        group, elem, length = struct.unpack('<HHL', cmd[pos:pos + 8])
        yield (group, elem), cmd[pos + 8:pos + 8 + length]
        pos += 8 + length


def check_stream(raw):
    """Returns (messages, violations) for the P-DATA stream received by the peer"""
    messages, violations = [], []
    cmd, expect = b'', 'command'
    current = None
    for header, data in pdvs(raw):
        is_command, is_last = bool(header & 1), bool(header & 2)
        if is_command:
            if expect == 'data':
                violations.append(
                    'message #%d (%s): Command Data Set Type = %04XH (data set present) but no '
                    'data-set fragment follows, the next PDV is a command fragment'
                    % (len(messages), current['name'], current['ds_type']))
            cmd += data
            expect = 'command'
            if not is_last:
                continue
            elems = dict(elements(cmd))
            group_length = struct.unpack('<L', elems[(0, 0)])[0]
            follows = len(cmd) - 12
            field = struct.unpack('<H', elems[(0, 0x0100)])[0]
            current = {
                'name': dimsemessages.MESSAGE_TYPE[field].__name__,
                'ds_type': struct.unpack('<H', elems[(0, 0x0800)])[0],
                'status': struct.unpack('<H', elems[(0, 0x0900)])[0] if elems.get((0, 0x0900)) else None,
                'data_fragments': 0,
            }
            messages.append(current)
            if group_length != follows:
                violations.append(
                    'message #%d (%s): Command Group Length = %d but %d bytes follow the '
                    'element in the group' % (len(messages), current['name'], group_length, follows))
            cmd = b''
            expect = 'command' if current['ds_type'] == 0x0101 else 'data'
        else:
            if expect != 'data':
                violations.append(
                    'message #%d (%s): Command Data Set Type = 0101H (no data set) but a '
                    'data-set fragment follows' % (len(messages), current['name']))
                expect = 'data'
            current['data_fragments'] += 1
            if is_last:
                expect = 'command'
    if expect == 'data':
        violations.append('message #%d (%s): data set present is announced, stream ends without '
                          'data-set fragments' % (len(messages), current['name']))
    return messages, violations


# --------------------------------------------------------------------------
# harness
# --------------------------------------------------------------------------
class SlowSocket(object):
    """The acceptor's transport connection.  Everything is delegated to the real socket; the
    only thing that is added is that sendall() may take some time to return (as a TCP send
    does when the peer reads slowly): hook(data) is called after the bytes are written."""

    def __init__(self, sock, hook):
        self._sock, self._hook = sock, hook

    def __getattr__(self, name):
        return getattr(self._sock, name)

    def fileno(self):
        return self._sock.fileno()

    def sendall(self, data):
        self._sock.sendall(data)
        if self._hook:
            self._hook(data)


def recv_pdu(sock, timeout):
    sock.settimeout(timeout)
    try:
        head = b''
        while len(head) < 6:
            chunk = sock.recv(6 - len(head))
            if not chunk:
                return None
            head += chunk
        length = struct.unpack('>L', head[2:])[0]
        body = b''
        while len(body) < length:
            chunk = sock.recv(length - len(body))
            if not chunk:
                return None
            body += chunk
        return head + body
    except socket.timeout:
        return None


def run(service, sop_class, request, hook=None):
    """One association: peer proposes sop_class, sends `request`, returns all P-DATA bytes
    the library has transmitted while `service` handled the request."""
    ae = applicationentity.AE('SCP', 0, supported_ts=[IMPLICIT], bind_and_activate=False)
    ae.timeout = 5
    done = threading.Event()

    def wrapped(asce, ctx, msg):
        try:
            service(asce, ctx, msg)
        finally:
            done.set()
    wrapped.sop_classes = [sop_class]
    ae.add_scp(wrapped)

    lib_side, peer = socket.socketpair()
    acceptor = threading.Thread(
        target=asceprovider.AssociationAcceptor,
        args=(SlowSocket(lib_side, hook), ('peer', 0), ae, 16384))
    acceptor.daemon = True
    acceptor.start()
    try:
        rq = pdu.AAssociateRqPDU(
            called_ae_title='SCP', calling_ae_title='PEER',
            variable_items=[
                pdu.ApplicationContextItem(asceprovider.APPLICATION_CONTEXT_NAME),
                pdu.PresentationContextItemRQ(1, pdu.AbstractSyntaxSubItem(sop_class),
                                              [pdu.TransferSyntaxSubItem(IMPLICIT)]),
                pdu.UserInformationItem([
                    userdataitems.MaximumLengthSubItem(16384),
                    userdataitems.ImplementationClassUIDSubItem('1.2.3.4')])])
        peer.sendall(rq.encode())
        ac = recv_pdu(peer, 5)
        assert ac and bytearray(ac)[0] == 2, 'association was not accepted'

        request.set_length()
        for item in request.encode(1, 16384):
            peer.sendall(item.encode())

        received = b''
        while True:
            item = recv_pdu(peer, 0.6 if done.is_set() else 5)
            if item is None:
                if done.is_set():
                    break
                continue
            if bytearray(item)[0] != 4:
                break
            received += item
        return received
    finally:
        peer.close()
        acceptor.join(10)
        ae.server_close()


def is_last_command_pdu(data):
    raw = bytearray(data)
    return raw[0] == 4 and raw[11] == 3


class Schedule(object):
    """'The transport accepts the command fragment slowly': sendall() of the first command
    P-DATA-TF returns only after the service user went on to its next response."""

    def __init__(self):
        self.command_written = threading.Event()
        self.user_moved_on = threading.Event()

    def hook(self, data):
        if is_last_command_pdu(data) and not self.command_written.is_set():
            self.command_written.set()
            self.user_moved_on.wait(5)


def find_rq():
    msg = dimsemessages.CFindRQMessage()
    msg.message_id = 7
    msg.sop_class_uid = FIND
    msg.priority = dimsemessages.PRIORITY_MEDIUM
    msg.data_set = IDENTIFIER
    return msg


def move_rq():
    msg = dimsemessages.CMoveRQMessage()
    msg.message_id = 7
    msg.sop_class_uid = MOVE
    msg.priority = dimsemessages.PRIORITY_MEDIUM
    msg.move_destination = 'DEST'
    msg.data_set = IDENTIFIER
    return msg


def action_rq():
    msg = dimsemessages.NActionRQMessage()
    msg.message_id = 7
    msg.sop_class_uid = COMMIT
    msg.requested_sop_instance_uid = '1.2.840.10008.1.20.1.1'
    msg.action_type_id = 1
    msg.data_set = IDENTIFIER
    return msg


# --- S1: C-FIND provider, one response object for all responses ------------
def s1_find_scp(schedule):
    def service(asce, ctx, msg):
        rsp = dimsemessages.CFindRSPMessage()
        rsp.message_id_being_responded_to = msg.message_id
        rsp.sop_class_uid = msg.sop_class_uid
        # one match
        rsp.status = 0xFF00
        rsp.data_set = IDENTIFIER
        asce.send(rsp, ctx.id)
        schedule.command_written.wait(5)
        # no more matches: final response, same object, no identifier
        rsp.status = 0x0000
        rsp.data_set = None
        asce.send(rsp, ctx.id)
        schedule.user_moved_on.set()
    return service


# --- S2: C-MOVE provider, pending (no data set) then final warning with identifier ---
def s2_move_scp(schedule):
    def service(asce, ctx, msg):
        rsp = dimsemessages.CMoveRSPMessage()
        rsp.message_id_being_responded_to = msg.message_id
        rsp.sop_class_uid = msg.sop_class_uid
        rsp.status = 0xFF00
        rsp.num_of_remaining_sub_ops = 0
        rsp.num_of_completed_sub_ops = 0
        rsp.num_of_failed_sub_ops = 1
        rsp.num_of_warning_sub_ops = 0
        asce.send(rsp, ctx.id)
        schedule.command_written.wait(5)
        # final response (sub-operations complete, one or more failures) carries the list of
        # failed instances
        rsp.status = 0xB000
        rsp.data_set = FAILED_LIST
        asce.send(rsp, ctx.id)
        schedule.user_moved_on.set()
    return service


# --- S3: two event reports, SOP instance UIDs of different length ----------
def s3_event_reports(gap):
    def service(asce, ctx, msg):
        rsp = dimsemessages.NActionRSPMessage()
        rsp.message_id_being_responded_to = msg.message_id
        rsp.sop_class_uid = ctx.sop_class
        rsp.affected_sop_instance_uid = msg.requested_sop_instance_uid
        rsp.action_type_id = 1
        rsp.status = 0
        asce.send(rsp, ctx.id)
        time.sleep(0.3)

        report = dimsemessages.NEventReportRQMessage()
        report.sop_class_uid = ctx.sop_class
        report.event_type_id = 1
        report.message_id = 1
        report.affected_sop_instance_uid = '1.2.3'
        report.data_set = IDENTIFIER
        asce.send(report, ctx.id)
        # next report: fields are filled in one after another, the user needs a moment for
        # the rest (here: `gap` seconds, think of encoding the next event information)
        report.message_id = 2
        report.affected_sop_instance_uid = '1.2.3.4.5.6.7.8.9.10.11.12'
        time.sleep(gap)
        report.data_set = IDENTIFIER
        asce.send(report, ctx.id)
    return service


# --- N: no schedule control at all, results arrive with a delay ------------
def natural_find_scp(delays):
    def service(asce, ctx, msg):
        rsp = dimsemessages.CFindRSPMessage()
        rsp.message_id_being_responded_to = msg.message_id
        rsp.sop_class_uid = msg.sop_class_uid
        for delay in delays:
            time.sleep(delay)  # the data base needs some time for the next match
            rsp.status = 0xFF00
            rsp.data_set = IDENTIFIER
            asce.send(rsp, ctx.id)
        time.sleep(delays[-1])  # ... and to find out that there are no more
        rsp.status = 0x0000
        rsp.data_set = None
        asce.send(rsp, ctx.id)
    return service


def report(title, sent, raw):
    messages, violations = check_stream(raw)
    print('== ' + title)
    print('   handed to Association.send():', sent)
    print('   seen by the peer            :',
          ', '.join('%s(status=%s, ds_type=%04XH, %d data fragment(s))'
                    % (m['name'], '%04XH' % m['status'] if m['status'] is not None else '-',
                       m['ds_type'], m['data_fragments'])
                    for m in messages))
    for line in violations:
        print('   VIOLATION:', line)
    if not violations:
        print('   well-formed')
    return len(violations)


def main():
    total = 0

    schedule = Schedule()
    raw = run(s1_find_scp(schedule), FIND, find_rq(), schedule.hook)
    total += report('S1  C-FIND-RSP object re-used: pending + identifier, then success',
                    'RSP(FF00H, identifier), RSP(0000H, no data set)', raw)

    schedule = Schedule()
    raw = run(s2_move_scp(schedule), MOVE, move_rq(), schedule.hook)
    total += report('S2  C-MOVE-RSP object re-used: pending, then warning + failed UID list',
                    'RSP(FF00H, no data set), RSP(B000H, identifier)', raw)

    raw = run(s3_event_reports(0.3), COMMIT, action_rq())
    total += report('S3  N-EVENT-REPORT-RQ object re-used, instance UID of another length '
                    '(no control of the schedule, only a 0.3 s pause of the user)',
                    'N-ACTION-RSP, RQ(uid 5 chars), RQ(uid 26 chars)', raw)

    natural = 0
    for delay in (0.02, 0.035, 0.05, 0.065, 0.08):
        raw = run(natural_find_scp([delay] * 4), FIND, find_rq())
        natural += report('N   C-FIND-RSP object re-used, no control of the schedule, the next '
                          'match takes %d ms' % (delay * 1000),
                          '4 x RSP(FF00H, identifier), RSP(0000H, no data set)', raw)
    print('natural schedule: %d violation(s) in 5 queries (informative, timing dependent)'
          % natural)
    total += natural

    if total:
        print('\nFAIL: %d ill-formed transmissions (C08 violated)' % total)
        return 1
    print('\nOK: every transmitted command set was well-formed')
    return 0


if __name__ == '__main__':
    sys.exit(main())
