#!/usr/bin/env python
"""C08 counter-example 2: a file-like data set that has no bytes (left).

DIMSEMessage.data_set decides the Command Data Set Type by the truth value of what is
assigned.  b'' is false -> 0101H (no data set), consistent.  A file-like object is true
whatever it contains -> 0001H (data set present); fragment_file() then reads nothing and not
a single data-set fragment follows the command set.

 (a) all 23 message classes, data_set = empty io.BytesIO / empty temporary file
 (b) sopclass.storage_scu() with the name of a Part 10 file that consists of preamble and
     file meta information only (the library's own way to attach a file-like data set)

usage: finding2_demo.py [repository path]      exit 1 = property violated
"""
from __future__ import print_function
import sys
REPO = sys.argv[1] if len(sys.argv) > 1 else '/tmp/wt/C08h'
sys.path.insert(0, REPO)

import io
import os
import struct
import tempfile
import warnings

warnings.filterwarnings('ignore')

import pynetdicom2
assert pynetdicom2.__file__.startswith(REPO), pynetdicom2.__file__

from pydicom import uid
from pydicom.dataset import Dataset
from pydicom import filebase
from pydicom.filewriter import write_file_meta_info
from pynetdicom2 import applicationentity, asceprovider, dimsemessages, sopclass


def examine(pdus):
    """-> (Command Data Set Type, number of data-set fragments) of one transmitted message"""
    command, fragments = b'', 0
    for item in pdus:
        for value in item.data_value_items:
            header = bytearray(value.data_value)[0]
            if header & 1:
                command += value.data_value[1:]
            else:
                fragments += 1
    pos, ds_type = 0, None
    while pos < len(command):
        group, elem, length = struct.unpack('<HHL', command[pos:pos + 8])
        if (group, elem) == (0, 0x0800):
            ds_type = struct.unpack('<H', command[pos + 8:pos + 10])[0]
        pos += 8 + length
    return ds_type, fragments


def main():
    bad = 0

    # (a) every message class
    for name, source in (('io.BytesIO()', io.BytesIO), ('tempfile.TemporaryFile()', tempfile.TemporaryFile)):
        failed = []
        for field, cls in sorted(dimsemessages.MESSAGE_TYPE.items()):
            msg = cls()
            msg.data_set = source()
            msg.set_length()                         # what Association.send() does
            ds_type, fragments = examine(list(msg.encode(1, 16384)))
            if (ds_type == 0x0101) != (fragments == 0):
                failed.append(cls.__name__)
        print('(a) data_set = empty %s: %d of %d message classes transmit Command Data Set Type '
              '!= 0101H without any data-set fragment' % (name, len(failed), len(dimsemessages.MESSAGE_TYPE)))
        bad += len(failed)

    # control: the bytes flavour of the same data set is handled
    msg = dimsemessages.CStoreRQMessage()
    msg.data_set = b''
    msg.set_length()
    print('    control, data_set = b\'\': ds_type=%04XH, %d fragment(s)' % examine(list(msg.encode(1, 16384))))

    # (b) storage SCU with a file name
    fd, path = tempfile.mkstemp(suffix='.dcm')
    try:
        with os.fdopen(fd, 'wb') as fp:
            fp.write(b'\0' * 128 + b'DICM')
            meta = Dataset()
            meta.MediaStorageSOPClassUID = '1.2.840.10008.5.1.4.1.1.7'
            meta.MediaStorageSOPInstanceUID = '1.2.3.4'
            meta.TransferSyntaxUID = uid.ImplicitVRLittleEndian
            meta.ImplementationClassUID = '1.2.3'
            write_file_meta_info(filebase.DicomFileLike(fp), meta)

        ae = applicationentity.ClientAE('SCU', supported_ts=[uid.ImplicitVRLittleEndian])
        assoc = asceprovider.Association(ae, None, 16384)
        assoc.dul.kill()                             # no transport in this demo

        class Collector(object):
            pdus = None

            def send(self, primitive):
                self.pdus = list(primitive)          # what the DUL thread does with it
        assoc.dul = Collector()
        response = dimsemessages.CStoreRSPMessage()
        response.status = 0
        assoc.receive = lambda: (response, 1)

        ctx = asceprovider.PContextDef(1, uid.UID('1.2.840.10008.5.1.4.1.1.7'),
                                       uid.ImplicitVRLittleEndian)
        sopclass.storage_scu(assoc, ctx, path, 1)
        ds_type, fragments = examine(assoc.dul.pdus)
        print('(b) storage_scu(<file with file meta information only>): C-STORE-RQ with '
              'ds_type=%04XH, %d data-set fragment(s)' % (ds_type, fragments))
        if (ds_type == 0x0101) != (fragments == 0):
            bad += 1
    finally:
        os.unlink(path)

    if bad:
        print("FAIL: Command Data Set Type does not say 'no data set' although no data-set "
              "fragments follow (%d cases)" % bad)
        return 1
    print('OK')
    return 0


if __name__ == '__main__':
    sys.exit(main())
