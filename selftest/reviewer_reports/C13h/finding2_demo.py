#!/usr/bin/env python
"""C13 finding 2: acceptor role, peer never sends its first PDU - the provider reports the
transport as closed when ARTIM expires, but the connection is NOT released: the peer sees the
close only when the *user* timeout (ae.timeout) runs out, not when ARTIM does.

The library's own server path is used: AE (socketserver.ThreadingTCPServer) ->
process_request() -> AssociationAcceptor (a socketserver.StreamRequestHandler).  The
connection is one side of a socketpair (no TCP port).

Why: AssociationAcceptor.__init__ first starts the provider on the socket and then runs
StreamRequestHandler.__init__, whose setup() does `self.rfile = self.connection.makefile('rb')`.
A Python socket with an outstanding makefile() object is only *marked* closed by close();
the descriptor is really closed when the last makefile object goes away, i.e. in finish(),
i.e. after handle() returned.  AA-2 (ARTIM expired in Sta2) gives no indication to the local
user, so handle() keeps sitting in dul.receive(ae.timeout).

exit 1 = property violated, exit 0 = property holds.
"""
import socket
import sys
import time

REPO = sys.argv[1] if len(sys.argv) > 1 else '/tmp/wt/C13h'
sys.path.insert(0, REPO)
import pynetdicom2  # noqa: E402
assert pynetdicom2.__file__.startswith(REPO), pynetdicom2.__file__
from pynetdicom2 import fsm, asceprovider  # noqa: E402
from pynetdicom2 import applicationentity as aemod, sopclass as sc  # noqa: E402

ARTIM = 10.0
MARGIN = 4.0
USER_TIMEOUT = 30  # AEBase.timeout, "connection timeout in seconds" (library default: 15)

# observation only: remember the acceptor object the server creates
acceptors = []
_orig_handle = asceprovider.AssociationAcceptor.handle


def _handle(self):
    acceptors.append(self)
    return _orig_handle(self)


asceprovider.AssociationAcceptor.handle = _handle


def main():
    ae = aemod.AE('SCP', 0, bind_and_activate=False).add_scp(sc.verification_scp)
    ae.timeout = USER_TIMEOUT

    server_side, peer = socket.socketpair()
    t0 = time.time()
    ae.process_request(server_side, ('peer.invalid', 11112))  # what serve_forever() does

    # the peer connects and never sends anything, and never closes
    peer.settimeout(0.25)
    t_idle = None
    t_eof = None
    reported = False
    while time.time() - t0 < USER_TIMEOUT + 8:
        now = time.time() - t0
        if t_idle is None and acceptors:
            dul = acceptors[0].dul
            if now > 1 and dul.state_machine.current_state == fsm.States.STA_1 \
                    and dul.dul_socket is None:
                t_idle = now
                print('t=%5.1f s  provider: state Sta1, dul_socket None (ARTIM expired, AA-2 '
                      '"closed" the transport)' % now)
                print('            server side socket object: _closed=%s, fileno()=%d '
                      '(descriptor still open)'
                      % (getattr(server_side, '_closed', '?'), server_side.fileno()))
        try:
            data = peer.recv(16)
        except socket.timeout:
            data = None
        if data == b'':
            t_eof = time.time() - t0
            print('t=%5.1f s  peer: connection closed by the acceptor' % t_eof)
            break
        if not reported and now > ARTIM + MARGIN:
            reported = True
            print('t=%5.1f s  peer: connection is still open (no EOF), %d s after ARTIM expired'
                  % (now, MARGIN))

    if t_eof is None:
        print('PROPERTY C13 VIOLATED: connection never closed within %d s' % (USER_TIMEOUT + 8))
        return 1
    if t_eof > ARTIM + MARGIN:
        print('PROPERTY C13 VIOLATED: peer never sent its first PDU; the provider went idle at '
              't=%.1f s but the transport connection was released only at t=%.1f s - bounded '
              'by the user timeout ae.timeout=%d s, not by ARTIM (%d s)'
              % (t_idle if t_idle is not None else -1, t_eof, USER_TIMEOUT, ARTIM))
        return 1
    print('property holds: connection released at t=%.1f s' % t_eof)
    return 0


if __name__ == '__main__':
    sys.exit(main())
