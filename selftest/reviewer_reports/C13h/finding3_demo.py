#!/usr/bin/env python
"""C13 finding 3: release collision, requester role - the association never ends.

The local user (plain `with ae.request_association(...)`) leaves the block, so
AssociationRequester.release() sends A-RELEASE-RQ.  The peer (the association acceptor) has
requested the release at the same moment: its A-RELEASE-RQ crosses ours (PS3.8 9.2.3,
release collision: AR-8 -> Sta9; the requester answers with A-RELEASE-RP (AR-9 -> Sta11),
gets the peer's A-RELEASE-RP (AR-3) and closes the transport -> Sta1).

Observed: Association.release() takes whatever PDU arrives next for the release confirmation.
It gets the peer's A-RELEASE-RQ (the collision indication), returns it and calls kill().  The
A-RELEASE response primitive is never issued, so the provider sits in Sta9, where no timer
runs; after ~1 s DULServiceProvider.kill() ends the provider thread.  No A-RELEASE-RP, no
A-ABORT, no close: the peer waits forever and the local socket stays open.

The peer is a scripted in-process socketpair end (no TCP port).
exit 1 = property violated, exit 0 = property holds.
"""
import socket
import struct
import sys
import threading
import time

REPO = sys.argv[1] if len(sys.argv) > 1 else '/tmp/wt/C13h'
sys.path.insert(0, REPO)
import pynetdicom2  # noqa: E402
assert pynetdicom2.__file__.startswith(REPO), pynetdicom2.__file__
from pynetdicom2 import fsm, pdu, userdataitems  # noqa: E402
from pynetdicom2 import applicationentity as aemod, sopclass as sc  # noqa: E402

WAIT = 13.0  # ARTIM (10 s) + margin, although no timer is involved here at all


class _Sock(socket.socket):
    def connect(self, addr):  # already connected (socketpair)
        pass


class SocketShim(object):
    """Replaces the `socket` module seen by pynetdicom2.fsm (AE-1 opens the connection).
    AE-1 runs on the provider thread and DULServiceProvider is that thread."""
    error = socket.error
    AF_INET = socket.AF_INET
    SOCK_STREAM = socket.SOCK_STREAM

    def __init__(self):
        self.opened = []

    def socket(self, *args, **kwargs):
        mine, peer = socket.socketpair()
        self.opened.append((threading.current_thread(), peer))
        return _Sock(fileno=mine.detach())


shim = SocketShim()
fsm.socket = shim


def read_pdu(sock, timeout):
    sock.settimeout(timeout)
    buf = b''
    while len(buf) < 6:
        data = sock.recv(6 - len(buf))
        if not data:
            return None
        buf += data
    length = struct.unpack('>L', buf[2:6])[0]
    while len(buf) < 6 + length:
        data = sock.recv(6 + length - len(buf))
        if not data:
            return None
        buf += data
    return buf


def make_ac(raw_rq):
    rq = pdu.AAssociateRqPDU.decode(raw_rq)
    items = [rq.variable_items[0]]
    for item in rq.variable_items[1:-1]:
        items.append(pdu.PresentationContextItemAC(item.context_id, 0, item.ts_sub_items[0]))
    items.append(pdu.UserInformationItem([userdataitems.MaximumLengthSubItem(16384)]))
    return pdu.AAssociateAcPDU(rq.called_ae_title, rq.calling_ae_title, items).encode()


def main():
    ae = aemod.ClientAE('SCU').add_scu(sc.verification_scu)
    ae.timeout = 5
    result = {}

    def user():
        try:
            with ae.request_association(dict(address='peer.invalid', port=104, aet='SCP')):
                pass  # nothing to do; leaving the block releases the association
            result['outcome'] = 'release() returned normally'
        except Exception as exc:  # pylint: disable=broad-except
            result['outcome'] = repr(exc)
        result['done'] = time.time()

    thread = threading.Thread(target=user)
    thread.daemon = True
    thread.start()
    deadline = time.time() + 5
    while not shim.opened:
        assert time.time() < deadline
        time.sleep(0.01)
    provider, peer = shim.opened[0]

    raw = read_pdu(peer, 5)
    assert raw[0:1] == b'\x01'
    peer.sendall(make_ac(raw))
    raw = read_pdu(peer, 5)
    assert raw[0:1] == b'\x05', 'expected A-RELEASE-RQ, got %r' % (raw,)
    # the peer's own A-RELEASE-RQ was sent before it saw ours: release collision
    peer.sendall(pdu.AReleaseRqPDU().encode())

    thread.join(30)
    print('local user: %s' % result.get('outcome'))

    # acceptor side of a collision (Sta10) waits for the requester's A-RELEASE-RP
    got = None
    try:
        got = read_pdu(peer, WAIT)
        what = 'connection closed' if got is None else 'PDU type %d' % got[0]
    except socket.timeout:
        what = 'nothing at all (no A-RELEASE-RP, no A-ABORT, no close)'
    waited = time.time() - result['done']
    state = provider.state_machine.current_state
    print('peer, %.1f s after release() returned: received %s' % (waited, what))
    print('provider: thread alive=%s, state=Sta%d, dul_socket=%r'
          % (provider.is_alive(), state + 1, provider.dul_socket))

    if state != fsm.States.STA_1 or provider.dul_socket is not None:
        print('PROPERTY C13 VIOLATED: after a release collision the provider is abandoned in '
              'Sta%d with the transport open; the association is never terminated' % (state + 1))
        return 1
    print('property holds')
    return 0


if __name__ == '__main__':
    sys.exit(main())
