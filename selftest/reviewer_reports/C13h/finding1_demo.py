#!/usr/bin/env python
"""C13 finding 1: requester role - the provider is killed in a non-idle state and the
transport is never closed when the peer stays silent.

Two scenarios run in parallel against scripted in-process peers (socketpair, no TCP port):

 A. association established, the local user aborts (exception inside the
    `with ae.request_association(...)` block -> AssociationRequester.abort()); the peer reads
    the A-ABORT and then never closes its side.
    PS3.8: AA-1 -> Sta13 with ARTIM armed; on expiry AA-2 closes the transport -> Sta1.
 B. the peer accepts the transport connection but never sends its first PDU
    (no A-ASSOCIATE-AC/RJ); the local user gets DCMTimeoutError after ae.timeout.

Expected by property C13: provider back in Sta1 with the transport closed within a bounded
time (ARTIM = 10 s where it depends on the peer).
Observed: Association.kill() polls stop() for ~1 s, then DULServiceProvider.kill() ends the
provider thread where it stands (Sta13 / Sta5).  Nobody closes the socket and ARTIM never
gets the chance to fire.

exit 1 = property violated, exit 0 = property holds.
"""
import socket
import struct
import sys
import threading
import time

REPO = sys.argv[1] if len(sys.argv) > 1 else '/tmp/wt/C13h'
sys.path.insert(0, REPO)
import pynetdicom2  # noqa: E402
assert pynetdicom2.__file__.startswith(REPO), pynetdicom2.__file__
from pynetdicom2 import fsm, pdu, userdataitems, exceptions  # noqa: E402
from pynetdicom2 import applicationentity as aemod, sopclass as sc  # noqa: E402

ARTIM = 10.0
MARGIN = 3.0


class _Sock(socket.socket):
    def connect(self, addr):  # already connected (socketpair)
        pass


class SocketShim(object):
    """Replaces the `socket` module seen by pynetdicom2.fsm (AE-1 opens the connection).

    AE-1 runs on the provider thread, and DULServiceProvider *is* that thread, so the shim
    also tells us which provider owns which connection - no patching of the library."""
    error = socket.error
    AF_INET = socket.AF_INET
    SOCK_STREAM = socket.SOCK_STREAM

    def __init__(self):
        self.opened = []  # (provider, peer side of the connection)

    def socket(self, *args, **kwargs):
        mine, peer = socket.socketpair()
        self.opened.append((threading.current_thread(), peer))
        return _Sock(fileno=mine.detach())


shim = SocketShim()
fsm.socket = shim


def read_pdu(sock, timeout):
    sock.settimeout(timeout)
    buf = b''
    while len(buf) < 6:
        data = sock.recv(6 - len(buf))
        if not data:
            return None
        buf += data
    length = struct.unpack('>L', buf[2:6])[0]
    while len(buf) < 6 + length:
        data = sock.recv(6 + length - len(buf))
        if not data:
            return None
        buf += data
    return buf


def make_ac(raw_rq):
    rq = pdu.AAssociateRqPDU.decode(raw_rq)
    items = [rq.variable_items[0]]
    for item in rq.variable_items[1:-1]:
        items.append(pdu.PresentationContextItemAC(item.context_id, 0, item.ts_sub_items[0]))
    items.append(pdu.UserInformationItem([userdataitems.MaximumLengthSubItem(16384)]))
    return pdu.AAssociateAcPDU(rq.called_ae_title, rq.calling_ae_title, items).encode()


class UserAbort(Exception):
    pass


class Scenario(object):
    def __init__(self, name, timeout, abort_in_body):
        self.name = name
        self.ae = aemod.ClientAE('SCU').add_scu(sc.verification_scu)
        self.ae.timeout = timeout
        self.abort_in_body = abort_in_body
        self.outcome = None
        self.user_done = None
        self.thread = threading.Thread(target=self.user)
        self.thread.daemon = True

    def user(self):
        """The local user: plain use of the public API."""
        remote = dict(address='peer.invalid', port=104, aet='SCP')
        try:
            with self.ae.request_association(remote):
                if self.abort_in_body:
                    raise UserAbort('local user decides to abort the association')
        except Exception as exc:  # pylint: disable=broad-except
            self.outcome = exc
        self.user_done = time.time()

    def start(self):
        before = len(shim.opened)
        self.thread.start()
        deadline = time.time() + 5
        while len(shim.opened) == before:
            assert time.time() < deadline, 'provider did not open the transport connection'
            time.sleep(0.01)
        self.provider, self.peer = shim.opened[before]


def main():
    sc_a = Scenario('A: local abort, peer never closes its side', 5, True)
    sc_b = Scenario('B: requester, peer never sends its first PDU', 2, False)
    sc_a.start()
    sc_b.start()

    # --- peer A: accept, read the A-ABORT, then stay silent and keep the connection open
    raw = read_pdu(sc_a.peer, 5)
    assert raw and raw[0:1] == b'\x01'
    sc_a.peer.sendall(make_ac(raw))
    raw = read_pdu(sc_a.peer, 5)
    assert raw and raw[0:1] == b'\x07', 'expected A-ABORT, got %r' % (raw,)
    t_abort = time.time()

    # --- peer B: read the A-ASSOCIATE-RQ and never answer
    raw = read_pdu(sc_b.peer, 5)
    assert raw and raw[0:1] == b'\x01'

    sc_a.thread.join(30)
    sc_b.thread.join(30)
    assert isinstance(sc_a.outcome, UserAbort), repr(sc_a.outcome)
    assert isinstance(sc_b.outcome, exceptions.DCMTimeoutError), repr(sc_b.outcome)
    print('A: abort()/kill() returned to the local user %.1f s after the peer got the A-ABORT'
          % (sc_a.user_done - t_abort))
    print('B: local user got DCMTimeoutError and kill() returned')

    # wait until ARTIM (armed by AA-1 when the A-ABORT was sent) must have expired
    while time.time() < t_abort + ARTIM + MARGIN:
        time.sleep(0.1)

    failures = []
    for scen in (sc_a, sc_b):
        dul = scen.provider
        scen.peer.setblocking(False)
        try:
            eof = scen.peer.recv(1) == b''
        except (BlockingIOError, socket.error):
            eof = False
        state = dul.state_machine.current_state
        ok = (state == fsm.States.STA_1 and dul.dul_socket is None and eof)
        print('%s\n   %.1f s after the local user was done: provider thread alive=%s, '
              'state=Sta%d, dul_socket=%r, peer saw the connection close=%s'
              % (scen.name, time.time() - scen.user_done, dul.is_alive(), state + 1,
                 dul.dul_socket, eof))
        if not ok:
            failures.append(scen.name)

    if failures:
        print('PROPERTY C13 VIOLATED (provider not idle / transport still open %.0f s after '
              'ARTIM should have expired) in: %s' % (MARGIN, '; '.join(failures)))
        return 1
    print('property holds')
    return 0


if __name__ == '__main__':
    sys.exit(main())
