"""C20 finding 1: Storage Commitment SCP sends the N-EVENT-REPORT of the reverse association
with the presentation context (id and transfer syntax) that was negotiated on ANOTHER
association (the one the N-ACTION arrived on).

Two modalities use one commitment server concurrently.  They differ only in their own
presentation context numbering (modality B also has Verification configured, so Storage
Commitment is context 3 in the associations it requests).  Both must get their own
N-EVENT-REPORT with their own transaction UID.

exit 1 = property violated, exit 0 = fine.
"""
import sys
import threading
import time
import warnings

REPO = sys.argv[1] if len(sys.argv) > 1 else '/tmp/wt/C20h'
sys.path.insert(0, REPO)
import pynetdicom2  # noqa
assert pynetdicom2.__file__.startswith(REPO), pynetdicom2.__file__
from pynetdicom2 import applicationentity as aemod, sopclass  # noqa
from pydicom import uid  # noqa

warnings.simplefilter('ignore')
CT = '1.2.840.10008.5.1.4.1.1.2'


class Pacs(aemod.AE):
    """commitment provider: answers N-ACTION, reports the result on a new association"""
    def __init__(self, *a, **k):
        aemod.AE.__init__(self, *a, **k)
        self.modalities = {}

    def on_commitment_request(self, remote_aet, uids):
        aet = remote_aet.decode() if isinstance(remote_aet, bytes) else str(remote_aet)
        return self.modalities[aet.strip()], list(uids), []


class Modality(aemod.AE):
    def __init__(self, *a, **k):
        aemod.AE.__init__(self, *a, **k)
        self.reports = []
        self.got_report = threading.Event()

    def on_commitment_response(self, transaction_uid, success, failure):
        self.reports.append((str(transaction_uid), [tuple(map(str, s)) for s in success],
                             list(failure)))
        self.got_report.set()


def main():
    pacs = Pacs('PACS', 0).add_scp(sopclass.StorageCommitment())
    pacs_addr = dict(address='127.0.0.1', port=pacs.server_address[1], aet='PACS')

    # modality A: Storage Commitment is its first context (id 1) - same as on PACS
    mod_a = Modality('MODA', 0)\
        .add_scu(sopclass.storage_commitment_scu)\
        .add_scp(sopclass.StorageCommitment())
    # modality B: also verifies connectivity, so Storage Commitment is its context 3
    mod_b = Modality('MODB', 0)\
        .add_scu(sopclass.verification_scu)\
        .add_scu(sopclass.storage_commitment_scu)\
        .add_scp(sopclass.StorageCommitment())
    mods = {'MODA': mod_a, 'MODB': mod_b}
    for name, mod in mods.items():
        pacs.modalities[name] = dict(address='127.0.0.1', port=mod.server_address[1], aet=name)

    print('PACS contexts :', {k: str(v.sop_class) for k, v in pacs.context_def_list.items()})
    for name, mod in mods.items():
        print(name, 'contexts :', {k: str(v.sop_class) for k, v in mod.context_def_list.items()})

    problems = []
    expected = {}

    def run(name, mod):
        transaction = uid.generate_uid()
        uids = [(CT, uid.generate_uid()) for _ in range(3)]
        expected[name] = (str(transaction), [tuple(map(str, u)) for u in uids])
        try:
            with mod.request_association(pacs_addr) as asce:
                srv = asce.get_scu(sopclass.STORAGE_COMMITMENT_SOP_CLASS)
                status = srv(transaction, uids, 1)
                if not status.is_success:
                    problems.append('%s: N-ACTION status %r' % (name, status))
                mod.got_report.wait(8)
        except Exception as exc:  # pylint: disable=broad-except
            problems.append('%s: requesting side failed: %r' % (name, exc))

    with pacs, mod_a, mod_b:
        threads = [threading.Thread(target=run, args=item) for item in mods.items()]
        for t in threads:
            t.start()
        for t in threads:
            t.join()
        time.sleep(0.5)

    for name, mod in mods.items():
        want_tr, want_uids = expected[name]
        if not mod.reports:
            problems.append('%s: the N-EVENT-REPORT for its commitment request never arrived '
                            '(it was sent on the reverse association with the context id of '
                            'the N-ACTION association)' % name)
        elif mod.reports != [(want_tr, want_uids, [])]:
            problems.append('%s: wrong report %r' % (name, mod.reports))
        else:
            print(name, ': own N-EVENT-REPORT received, ok')

    if problems:
        print('PROPERTY C20 VIOLATED:')
        for p in problems:
            print('  -', p)
        return 1
    print('ok')
    return 0


if __name__ == '__main__':
    rc = main()
    sys.stdout.flush()
    import os
    os._exit(rc)
