"""C20 finding 2: the abort of some associations makes a healthy concurrent association fail.

The upper layer provider thread of an association that has ended (A-ABORT received, connection
lost, ...) runs a loop without any blocking call until somebody calls kill() on it.  On the
acceptor side that happens only when the service function returns - and the C-FIND / C-MOVE
services do not notice the abort, they keep producing responses.  Every such thread takes one
CPU (and the interpreter lock), so the other associations of the same application entity are
slowed down until they run into their timeouts.

Scenario (all inside the quantified space: N concurrent clients against one server entity, some
aborting mid-transfer, loopback TCP, default timeouts):
  phase 1  K clients run a long C-FIND (slow data source on the server) and consume the results;
           at the same time a healthy client stores one instance          -> works
  phase 2  the K clients abort mid-transfer (A-ABORT, as request_association does on an error);
           the same healthy client stores the same instance again          -> time out / abort

exit 1 = property violated, exit 0 = fine.
"""
import os
import sys
import threading
import time
import warnings

REPO = sys.argv[1] if len(sys.argv) > 1 else '/tmp/wt/C20h'
sys.path.insert(0, REPO)
import pynetdicom2  # noqa
assert pynetdicom2.__file__.startswith(REPO), pynetdicom2.__file__
from pynetdicom2 import applicationentity as aemod, sopclass, statuses  # noqa
from pydicom import Dataset  # noqa

warnings.simplefilter('ignore')
CT = '1.2.840.10008.5.1.4.1.1.2'
K = 8
SIZE = 2000000


class Server(aemod.AE):
    def on_receive_store(self, context, ds):
        ds.read()
        return statuses.SUCCESS

    def on_receive_find(self, context, ds):
        for i in range(450):            # slow data source: 45 s for the complete answer
            time.sleep(0.1)
            rsp = Dataset()
            rsp.PatientName = 'X%d' % i
            rsp.QueryRetrieveLevel = 'PATIENT'
            yield rsp, statuses.C_FIND_PENDING


def store(remote):
    """one healthy association: stores one instance, returns (seconds, error)"""
    ae = aemod.ClientAE('GOOD', max_pdu_length=16384).add_scu(sopclass.storage_scu, [CT])
    ds = Dataset()
    ds.SOPClassUID = CT
    ds.SOPInstanceUID = '1.2.3.4'
    ds.PatientName = 'P'
    ds.PixelData = b'\x01' * SIZE
    ds['PixelData'].VR = 'OB'
    start = time.time()
    try:
        with ae.request_association(remote) as asce:
            status = asce.get_scu(CT)(ds, 1)
            if int(status) != 0:
                return time.time() - start, 'status %r' % status
    except Exception as exc:  # pylint: disable=broad-except
        return time.time() - start, repr(exc)
    return time.time() - start, None


def main():
    srv = Server('SRV', 0)
    srv.add_scp(sopclass.storage_scp).add_scp(sopclass.qr_find_scp)
    remote = dict(address='127.0.0.1', port=srv.server_address[1], aet='SRV')
    give_up = threading.Event()
    received = []

    def finder():
        ae = aemod.ClientAE('FIND').add_scu(sopclass.qr_find_scu)
        query = Dataset()
        query.PatientName = '*'
        query.QueryRetrieveLevel = 'PATIENT'
        try:
            with ae.request_association(remote) as asce:
                find = asce.get_scu(sopclass.PATIENT_ROOT_FIND_SOP_CLASS)
                for _, _ in find(query, 1):
                    received.append(1)
                    if give_up.is_set():
                        raise KeyError('user gives up')   # -> A-ABORT mid-transfer
        except KeyError:
            pass

    with srv:
        finders = [threading.Thread(target=finder) for _ in range(K)]
        for t in finders:
            t.start()
        time.sleep(1)

        cpu = time.process_time()
        took1, err1 = store(remote)
        cpu1 = (time.process_time() - cpu) / took1
        print('phase 1: %d live C-FIND associations (%d responses so far); healthy store: '
              '%.1f s, error=%s, cpu load %.2f' % (K, len(received), took1, err1, cpu1))

        give_up.set()
        for t in finders:
            t.join()
        time.sleep(1)
        cpu = time.process_time()
        time.sleep(1)
        idle = time.process_time() - cpu
        print('phase 2: the %d C-FIND associations were aborted by their requestors; '
              'cpu used by the idle process in 1 s: %.2f s' % (K, idle))

        cpu = time.process_time()
        took2, err2 = store(remote)
        print('phase 2: healthy store: %.1f s, error=%s' % (took2, err2))

    if err1:
        print('inconclusive: healthy association failed even before any abort')
        return 0
    if err2 or took2 > 2 * took1 + 2:
        print('PROPERTY C20 VIOLATED: the healthy association worked next to %d live '
              'associations (%.1f s), and %s after these were aborted by their peers'
              % (K, took1, 'failed with ' + err2 if err2 else 'took %.1f s' % took2))
        return 1
    print('ok')
    return 0


if __name__ == '__main__':
    rc = main()
    sys.stdout.flush()
    os._exit(rc)
