"""C06 finding 2: a DIMSE message whose transmission takes longer than AE.timeout is cut off in
the middle (no last fragment, no A-ABORT), although the peer reads as fast as it can.

Two facts combine:
 * the DUL provider loop sends at most one P-DATA-TF PDU per pass and every pass first sits in
   select(..., 0.05) waiting for *incoming* data (dulprovider._check_network), so an outgoing
   message advances at 20 PDUs per second, whatever the PDU size;
 * Association.send() only queues the message; the caller goes on to receive(), whose
   AE.timeout clock therefore runs while the request/response is still being written.  When it
   expires (DCMTimeoutError) the association is torn down with kill(), which stops the provider
   thread after about one more second, in the middle of the message.

Part A (strictly inside the quantified space): acceptor, verification_scp, peer announces
   maximum PDU length 7, C-ECHO-RSP without data set (78 command bytes = 78 PDUs = 3.9 s),
   AE.timeout = 2.
Part B (all defaults, practical size): requester, storage_scu, AE.timeout = 15 (default), peer
   announces 16384 (DCMTK default), 6 MiB image = 385 PDUs = 19 s.

Exit 1 = violation observed, 0 = not observed.   Run time about 25 s.
"""
import sys
REPO = sys.argv[1] if len(sys.argv) > 1 else '/tmp/wt/C06h'
sys.path.insert(0, REPO)
import socket
import struct
import threading
import time
import warnings
warnings.simplefilter('ignore')

import pynetdicom2
assert pynetdicom2.__file__.startswith(REPO), pynetdicom2.__file__
from pynetdicom2 import applicationentity, asceprovider, dimsemessages, dsutils, exceptions, \
    pdu, userdataitems, sopclass, fsm
from pydicom.dataset import Dataset
from pydicom.uid import ImplicitVRLittleEndian

ECHO = '1.2.840.10008.1.1'
SC = '1.2.840.10008.5.1.4.1.1.7'


def recv_exact(sock, n):
    buf = b''
    while len(buf) < n:
        chunk = sock.recv(n - len(buf))
        if not chunk:
            raise EOFError
        buf += chunk
    return buf


def recv_pdu(sock):
    head = recv_exact(sock, 6)
    return head[0], recv_exact(sock, struct.unpack('>I', head[2:6])[0])


def drain_message(sock, quiet):
    """Reads P-DATA-TF PDUs of one message without ever stalling; returns
    (complete, pdus, command bytes, data bytes, other PDU types seen, time of last PDU)."""
    sock.settimeout(quiet)
    n = cmd = ds = 0
    other = []
    start = last = time.time()
    try:
        while True:
            ptype, body = recv_pdu(sock)
            if ptype != 4:
                other.append(ptype)
                continue
            n += 1
            last = time.time()
            flag, size = body[5], len(body) - 6
            if flag & 1:
                cmd += size
                if flag & 2 and not EXPECT_DS[0]:
                    return True, n, cmd, ds, other, last - start
            else:
                ds += size
                if flag & 2:
                    return True, n, cmd, ds, other, last - start
    except (socket.timeout, EOFError, OSError):
        return False, n, cmd, ds, other, last - start


EXPECT_DS = [False]


def part_a():
    EXPECT_DS[0] = False
    ae = applicationentity.AE('SCP', 0, supported_ts=[ImplicitVRLittleEndian],
                              bind_and_activate=False)
    ae.add_scp(sopclass.verification_scp)
    ae.timeout = 2
    ours, theirs = socket.socketpair()
    theirs.settimeout(10)
    server = threading.Thread(
        target=asceprovider.AssociationAcceptor, args=(ours, ('peer', 0), ae, 65536))
    server.daemon = True
    server.start()
    rq = pdu.AAssociateRqPDU(
        called_ae_title='SCP', calling_ae_title='PEER',
        variable_items=[
            pdu.ApplicationContextItem(asceprovider.APPLICATION_CONTEXT_NAME),
            pdu.PresentationContextItemRQ(1, pdu.AbstractSyntaxSubItem(ECHO),
                                          [pdu.TransferSyntaxSubItem(ImplicitVRLittleEndian)]),
            pdu.UserInformationItem([
                userdataitems.MaximumLengthSubItem(7),
                userdataitems.ImplementationClassUIDSubItem('1.2.3.4')])])
    theirs.sendall(rq.encode())
    ptype, _ = recv_pdu(theirs)
    assert ptype == 2
    echo = dimsemessages.CEchoRQMessage()
    echo.message_id = 1
    echo.sop_class_uid = ECHO
    echo.set_length()
    for p in echo.encode(1, 16384):
        theirs.sendall(p.encode())
    complete, n, cmd, ds, other, took = drain_message(theirs, 4)
    print('A: C-ECHO-RSP, peer maximum PDU length 7, AE.timeout 2: complete=%s, %d PDUs, '
          '%d command bytes (78 expected), other PDUs %r, last PDU after %.1f s'
          % (complete, n, cmd, other, took))
    return not complete


class ShimSocket(socket.socket):
    def connect(self, address):
        pass


class SocketShim(object):
    """stands in for the socket module inside pynetdicom2.fsm: AE-1 gets one end of a pair"""
    AF_INET, SOCK_STREAM, error = socket.AF_INET, socket.SOCK_STREAM, socket.error

    def __init__(self, end):
        self.end = end

    def socket(self, *_):
        return ShimSocket(fileno=self.end.detach())


def part_b():
    EXPECT_DS[0] = True
    ours, theirs = socket.socketpair()
    fsm.socket = SocketShim(ours)
    report = {}

    def peer():
        theirs.settimeout(10)
        ptype, _ = recv_pdu(theirs)
        assert ptype == 1
        ac = pdu.AAssociateAcPDU(
            called_ae_title='PEER', calling_ae_title='SCU',
            variable_items=[
                pdu.ApplicationContextItem(asceprovider.APPLICATION_CONTEXT_NAME),
                pdu.PresentationContextItemAC(1, 0, pdu.TransferSyntaxSubItem(ImplicitVRLittleEndian)),
                pdu.UserInformationItem([
                    userdataitems.MaximumLengthSubItem(16384),
                    userdataitems.ImplementationClassUIDSubItem('1.2.3.4')])])
        theirs.sendall(ac.encode())
        report['rx'] = drain_message(theirs, 4)
        if report['rx'][0]:
            rsp = dimsemessages.CStoreRSPMessage()
            rsp.message_id_being_responded_to = 1
            rsp.sop_class_uid = SC
            rsp.affected_sop_instance_uid = '1.2.3.4'
            rsp.status = 0
            rsp.set_length()
            for p in rsp.encode(1, 16384):
                theirs.sendall(p.encode())
            try:
                recv_pdu(theirs)
                theirs.sendall(pdu.AReleaseRpPDU().encode())
            except Exception:
                pass

    peer_thread = threading.Thread(target=peer)
    peer_thread.daemon = True
    peer_thread.start()

    image = Dataset()
    image.SOPClassUID = SC
    image.SOPInstanceUID = '1.2.3.4'
    image.PixelData = b'\x55' * (6 * 1024 * 1024)
    image['PixelData'].VR = 'OW'
    ae = applicationentity.ClientAE('SCU', supported_ts=[ImplicitVRLittleEndian])   # defaults
    ae.add_scu(sopclass.storage_scu, [SC])
    outcome = 'no exception'
    start = time.time()
    try:
        with ae.request_association({'aet': 'PEER', 'address': 'shim', 'port': 0}) as assoc:
            status = assoc.get_scu(SC)(image, 1)
            outcome = 'status %r' % (status,)
    except exceptions.DCMTimeoutError:
        outcome = 'DCMTimeoutError after %.1f s' % (time.time() - start)
    peer_thread.join(30)
    complete, n, cmd, ds, other, took = report['rx']
    print('B: C-STORE-RQ with 6 MiB data set, all defaults, peer maximum PDU length 16384: '
          'storage_scu: %s; peer got complete=%s, %d PDUs, %d of %d data set bytes, other PDUs %r, '
          'last PDU after %.1f s'
          % (outcome, complete, n, ds, len(dsutils.encode(image, True, True)), other, took))
    return not complete


def main():
    bad = part_a()
    bad = part_b() or bad
    if bad:
        print('VIOLATION: message cut off in mid-transmission (no last fragment) although the '
              'peer consumed every PDU immediately')
        return 1
    return 0


if __name__ == '__main__':
    sys.exit(main())
