"""C06 finding 1: Association.send() does not encode the message, it only queues a lazy
generator.  The command set is encoded and message.data_set is looked at later, by the DUL
provider thread.  A message object that is used for a second send (the pattern the data_set
setter itself documents: "message objects are re-used for several responses") is therefore
transmitted with the content it has *later*, not the content it had when send() was called.

Real stack: AssociationAcceptor + DULServiceProvider over socket.socketpair(); the peer is a
hand written byte-level SCU.  Exit 1 = violation observed, 0 = not observed.
"""
import sys
REPO = sys.argv[1] if len(sys.argv) > 1 else '/tmp/wt/C06h'
sys.path.insert(0, REPO)
import socket
import struct
import threading
import warnings
warnings.simplefilter('ignore')

import pynetdicom2
assert pynetdicom2.__file__.startswith(REPO), pynetdicom2.__file__
from pynetdicom2 import applicationentity, asceprovider, dimsemessages, dsutils, pdu, \
    userdataitems, sopclass
from pydicom.dataset import Dataset
from pydicom.uid import ImplicitVRLittleEndian

FIND = sopclass.PATIENT_ROOT_FIND_SOP_CLASS
PENDING, SUCCESS = 0xFF00, 0x0000
RESULTS = [b'\x10\x00\x10\x00\x08\x00\x00\x00DOE^JOHN', b'\x10\x00\x10\x00\x08\x00\x00\x00ROE^JANE']
handed_over = []   # what the SCP gave to Association.send(): (status, data set) per call


@sopclass.sop_classes([FIND])
def reusing_find_scp(asce, ctx, msg):
    """C-FIND SCP written against the documented service interface; one response object is
    re-used for all the responses of the operation."""
    rsp = dimsemessages.CFindRSPMessage()
    rsp.message_id_being_responded_to = msg.message_id
    rsp.sop_class_uid = msg.sop_class_uid
    for encoded in RESULTS:
        rsp.status = PENDING
        rsp.data_set = encoded
        handed_over.append((rsp.status, rsp.data_set))
        asce.send(rsp, ctx.id)
    rsp.status = SUCCESS
    rsp.data_set = None
    handed_over.append((rsp.status, rsp.data_set))
    asce.send(rsp, ctx.id)


def recv_exact(sock, n):
    buf = b''
    while len(buf) < n:
        chunk = sock.recv(n - len(buf))
        if not chunk:
            raise EOFError
        buf += chunk
    return buf


def recv_pdu(sock):
    head = recv_exact(sock, 6)
    return head[0], recv_exact(sock, struct.unpack('>I', head[2:6])[0])


def recv_message(sock):
    """Reassembles one DIMSE message the way PS3.8 Annex E prescribes."""
    cmd, ds, command = b'', b'', None
    while True:
        ptype, body = recv_pdu(sock)
        assert ptype == 4, 'unexpected PDU type %d' % ptype
        pos = 0
        while pos < len(body):
            ln, _pc = struct.unpack('>IB', body[pos:pos + 5])
            flag, frag = body[pos + 5], body[pos + 6:pos + 4 + ln]
            pos += 4 + ln
            if flag & 1:
                cmd += frag
                if flag & 2:
                    command = dsutils.decode(cmd, True, True)
                    if command.CommandDataSetType == 0x0101:
                        return command, None
            else:
                ds += frag
                if flag & 2:
                    return command, ds


def main():
    ae = applicationentity.AE('SCP', 0, supported_ts=[ImplicitVRLittleEndian],
                              bind_and_activate=False)
    ae.add_scp(reusing_find_scp)
    ae.timeout = 10
    ours, theirs = socket.socketpair()
    theirs.settimeout(10)
    server = threading.Thread(
        target=asceprovider.AssociationAcceptor, args=(ours, ('peer', 0), ae, 16384))
    server.daemon = True
    server.start()

    # --- peer: association request, one presentation context (id 1, C-FIND) ------------------
    rq = pdu.AAssociateRqPDU(
        called_ae_title='SCP', calling_ae_title='PEER',
        variable_items=[
            pdu.ApplicationContextItem(asceprovider.APPLICATION_CONTEXT_NAME),
            pdu.PresentationContextItemRQ(1, pdu.AbstractSyntaxSubItem(FIND),
                                          [pdu.TransferSyntaxSubItem(ImplicitVRLittleEndian)]),
            pdu.UserInformationItem([
                userdataitems.MaximumLengthSubItem(16384),
                userdataitems.ImplementationClassUIDSubItem('1.2.3.4')])])
    theirs.sendall(rq.encode())
    ptype, _ = recv_pdu(theirs)
    assert ptype == 2, 'association not accepted (PDU type %d)' % ptype

    # --- peer: C-FIND-RQ -----------------------------------------------------------------------
    find = dimsemessages.CFindRQMessage()
    find.message_id = 7
    find.sop_class_uid = FIND
    find.priority = 0
    find.data_set = b'\x10\x00\x10\x00\x02\x00\x00\x00* '
    find.set_length()
    for p in find.encode(1, 16384):
        theirs.sendall(p.encode())

    # --- peer: read the three responses ------------------------------------------------------
    on_wire = []
    for _ in range(3):
        command, ds = recv_message(theirs)
        on_wire.append((command.Status, ds))
    theirs.sendall(pdu.AReleaseRqPDU().encode())

    bad = 0
    for i, (want, got) in enumerate(zip(handed_over, on_wire)):
        mark = 'ok ' if want == got else 'BAD'
        bad += want != got
        print('%s response %d: given to send(): status=%04X data_set=%r | on the wire: '
              'status=%04X data_set=%r' % (mark, i + 1, want[0], want[1], got[0], got[1]))
    if bad:
        print('VIOLATION: %d of 3 messages were not transmitted with the command set / data set '
              'they had when Association.send() was called' % bad)
        return 1
    print('all three messages transmitted as handed over')
    return 0


if __name__ == '__main__':
    sys.exit(main())
