"""C06 finding 3: with a large maximum PDU length in force (2^31 .. 2^32-1, inside the quantified
range) a data set supplied as a regular file can not be sent on hosts where 2..4 GiB can not be
allocated, although the identical data set supplied as bytes is sent without problems.

fragment_file() calls fp.read(max_pdu_length - 6).  For an ordinary buffered binary file
(open(path, 'rb'), tempfile.TemporaryFile(), what storage_scu and AE.get_file use) CPython
allocates a result buffer of the *requested* size before reading, i.e. up to 4 GiB for a data set
of a few bytes.  Where that is not possible (address space limit, strict overcommit, small
machine; on a 32 bit interpreter the call fails outright with OverflowError) the generator raises
and the DUL provider aborts the association (EVT_19).

The demo puts a 1 GiB address space limit on itself (RLIMIT_AS) to be independent of the host.
Exit 1 = violation observed, 0 = not observed.
"""
import sys
REPO = sys.argv[1] if len(sys.argv) > 1 else '/tmp/wt/C06h'
sys.path.insert(0, REPO)
import resource
import tempfile
import warnings
warnings.simplefilter('ignore')

import pynetdicom2
assert pynetdicom2.__file__.startswith(REPO), pynetdicom2.__file__
from pynetdicom2 import dimsemessages

DATA = bytes(bytearray(range(1, 101)))      # 100 byte data set


def transmit(max_pdu_length, as_file):
    msg = dimsemessages.CStoreRQMessage()
    msg.message_id = 1
    msg.sop_class_uid = '1.2.840.10008.5.1.4.1.1.7'
    msg.affected_sop_instance_uid = '1.2.3.4'
    msg.priority = 0
    if as_file:
        fp = tempfile.TemporaryFile()       # same kind of object as open(path, 'rb')
        fp.write(DATA)
        fp.seek(0)
        msg.data_set = fp
    else:
        msg.data_set = DATA
    msg.set_length()
    stream = b''
    for p in msg.encode(3, max_pdu_length):
        assert p.pdu_length <= max_pdu_length
        value = p.data_value_items[0].data_value
        if not value[0] & 1:
            stream += value[1:]
    return stream


def main():
    limit = 1 << 30
    resource.setrlimit(resource.RLIMIT_AS, (limit, limit))
    bad = 0
    for max_pdu_length in (2 ** 16, 2 ** 24, 2 ** 31 - 1, 2 ** 31, 2 ** 32 - 1):
        results = {}
        for as_file in (False, True):
            try:
                results[as_file] = 'sent' if transmit(max_pdu_length, as_file) == DATA \
                    else 'WRONG BYTES'
            except BaseException as exc:  # MemoryError / OverflowError
                results[as_file] = 'FAILED with %s' % type(exc).__name__
        print('max PDU length %10d: data set as bytes: %-6s as file: %s'
              % (max_pdu_length, results[False], results[True]))
        bad += results[False] != results[True] or results[True] != 'sent'
    if bad:
        print('VIOLATION: for %d maximum PDU lengths the 100 byte data set is transmitted when '
              'supplied as bytes but not when supplied as a file' % bad)
        return 1
    return 0


if __name__ == '__main__':
    sys.exit(main())
