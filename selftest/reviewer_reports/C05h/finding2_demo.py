"""C05 finding 2: per-association state of the provider survives the return to Sta1, so traffic of
an association that is OVER leaks into the next association made with the same provider
(Evt 1, A-ASSOCIATE request, is the user primitive that is legal in Sta1):

  (1) DULServiceProvider.raw_pdu (bytes received but not yet framed, e.g. a partial P-DATA-TF PDU
      followed by transport close, or a PDU that follows an A-ABORT in the same TCP segment) is
      never cleared: in the next association the old bytes are framed together with / in front of
      the new peer's PDUs.
  (2) StateMachine.dimse_decoder (half received DIMSE message) is never cleared: the first
      P-DATA-TF PDU of the next association is appended to the old fragment.
  (3) DULServiceProvider.requestor is fixed at construction: a provider that was created on an
      accepted connection and then issues an A-ASSOCIATE request takes the acceptor branch of
      AR-8 (Sta10) in a release collision although it is the association requestor (Sta9).

usage: finding2_demo.py [repository path]     exit 1 = property violated, exit 0 = not violated
"""
import sys
REPO = sys.argv[1] if len(sys.argv) > 1 else '/tmp/wt/C05h'
sys.path.insert(0, REPO)
import socket as real_socket
import struct
import time

import pynetdicom2
assert pynetdicom2.__file__.startswith(REPO), pynetdicom2.__file__
from pynetdicom2 import dulprovider, fsm, pdu, userdataitems
from six.moves import queue

S = fsm.States
NAMES = dict((v, k) for k, v in vars(S).items() if k.startswith('STA_'))


class SocketShim(object):
    """stands for the `socket` module inside pynetdicom2.fsm: AE-1 gets one end of a socketpair,
    the other end (the peer) is appended to self.peers.  No TCP port is used."""

    def __init__(self):
        self.peers = []

    def __getattr__(self, name):
        return getattr(real_socket, name)

    def socket(self, *args, **kwargs):
        shim = self
        local, remote = real_socket.socketpair()

        class Connecting(object):
            def connect(self, address):
                shim.peers.append(remote)

            def __getattr__(self, name):
                return getattr(local, name)

        return Connecting()


SHIM = SocketShim()
fsm.socket = SHIM


def wait_state(prov, state, timeout=3.0):
    end = time.time() + timeout
    while time.time() < end:
        if prov.state_machine.current_state == state and not prov.event:
            return True
        time.sleep(0.005)
    return False


def drain(prov, timeout=0.2):
    out = []
    while True:
        try:
            out.append(prov.to_service_user.get(timeout=timeout))
        except queue.Empty:
            return out


def read_wire(sock, timeout):
    sock.settimeout(timeout)
    buf = b''
    try:
        while True:
            data = sock.recv(65536)
            if not data:
                return buf, True
            buf += data
    except real_socket.timeout:
        return buf, False
    except real_socket.error:
        return buf, True


def assoc_rq():
    items = [
        pdu.ApplicationContextItem('1.2.840.10008.3.1.1.1'),
        pdu.PresentationContextItemRQ(
            1, pdu.AbstractSyntaxSubItem('1.2.840.10008.1.1'),
            [pdu.TransferSyntaxSubItem('1.2.840.10008.1.2')]),
        pdu.UserInformationItem([userdataitems.MaximumLengthSubItem(16384)])]
    req = pdu.AAssociateRqPDU(called_ae_title='PEER', calling_ae_title='US', variable_items=items)
    req.called_presentation_address = ('peer.invalid', 104)   # only seen by the shim
    return req


def assoc_ac():
    items = [
        pdu.ApplicationContextItem('1.2.840.10008.3.1.1.1'),
        pdu.PresentationContextItemAC(1, 0, pdu.TransferSyntaxSubItem('1.2.840.10008.1.2')),
        pdu.UserInformationItem([userdataitems.MaximumLengthSubItem(16384)])]
    return pdu.AAssociateAcPDU(called_ae_title='PEER', calling_ae_title='US', variable_items=items)


def c_echo_rq_command():
    """C-ECHO-RQ command set, implicit VR little endian, built by hand"""
    def elem(tag, value):
        return struct.pack('<HHI', 0, tag, len(value)) + value
    body = elem(0x0002, b'1.2.840.10008.1.1\x00') + elem(0x0100, struct.pack('<H', 0x0030)) \
        + elem(0x0110, struct.pack('<H', 7)) + elem(0x0800, struct.pack('<H', 0x0101))
    return elem(0x0000, struct.pack('<I', len(body))) + body


def p_data(control, payload):
    return pdu.PDataTfPDU(
        [pdu.PresentationDataValueItem(1, bytes(bytearray([control])) + payload)]).encode()


def request_association(prov):
    """A-ASSOCIATE request in Sta1 -> AE-1, AE-2 -> Sta5; returns the peer's end"""
    prov.send(assoc_rq())
    assert wait_state(prov, S.STA_5), 'no Sta5'
    peer = SHIM.peers[-1]
    wire, _ = read_wire(peer, 0.2)
    assert wire[:1] == b'\x01', 'A-ASSOCIATE-RQ expected on the wire'
    return peer


def establish(prov):
    peer = request_association(prov)
    peer.sendall(assoc_ac().encode())
    assert wait_state(prov, S.STA_6), 'no Sta6'
    ind = drain(prov)
    assert len(ind) == 1 and ind[0].pdu_type == 0x02, ind
    prov.accepted_contexts = {}
    return peer


def describe(items):
    out = []
    for item in items:
        if isinstance(item, tuple):
            out.append('P-DATA(%s)' % type(item[0]).__name__)
        else:
            out.append(type(item).__name__)
    return out


def case_receive_buffer():
    """assoc 1: established, partial P-DATA-TF (8 of 38 bytes), transport close -> AA-4, Sta1.
    assoc 2: A-ASSOCIATE request, the new peer answers A-ASSOCIATE-AC.
    PS3.8: AE-3, A-ASSOCIATE confirmation (accept), Sta6, nothing else on the wire."""
    prov = dulprovider.DULServiceProvider(frozenset(), None, None)
    try:
        peer = establish(prov)
        peer.sendall(p_data(3, c_echo_rq_command())[:8])        # partial P-DATA-TF PDU
        time.sleep(0.3)
        peer.close()                                            # transport close
        assert wait_state(prov, S.STA_1), 'no Sta1'
        ind = drain(prov)
        assert len(ind) == 1 and ind[0].pdu_type == 0x07, ind   # A-P-ABORT indication (AA-4)

        peer = request_association(prov)                        # second association, same provider
        peer.sendall(assoc_ac().encode())
        time.sleep(0.6)
        state = prov.state_machine.current_state
        ind = drain(prov)
        wire, closed = read_wire(peer, 0.2)
        ok = state == S.STA_6 and len(ind) == 1 and ind[0].pdu_type == 0x02 and wire == b''
        if ok:
            return None
        return ('(1) receive buffer: 2nd association, peer sent only A-ASSOCIATE-AC; expected Sta6 '
                '+ A-ASSOCIATE confirmation, nothing sent; got state %s, indications %s, wire %r '
                '(bytes of the association that is over were framed with the new peer\'s PDU)'
                % (NAMES[state], describe(ind), wire))
    finally:
        prov.kill()


def case_decoder():
    """assoc 1: established, complete P-DATA-TF PDU carrying a command fragment that is not the
    last one, then A-ABORT PDU -> AA-3, Sta1.
    assoc 2: established, peer sends one P-DATA-TF PDU with a complete C-ECHO-RQ.
    PS3.8: DT-2, P-DATA indication, Sta6."""
    prov = dulprovider.DULServiceProvider(frozenset(), None, None)
    try:
        peer = establish(prov)
        command = c_echo_rq_command()
        peer.sendall(p_data(1, command[:20]))                   # command fragment, not last
        time.sleep(0.3)
        peer.sendall(pdu.AAbortPDU(source=0, reason_diag=0).encode())
        assert wait_state(prov, S.STA_1), 'no Sta1'
        ind = drain(prov)
        assert len(ind) == 1 and ind[0].pdu_type == 0x07, ind

        peer = establish(prov)                                  # second association
        peer.sendall(p_data(3, command))                        # complete C-ECHO-RQ
        time.sleep(0.6)
        state = prov.state_machine.current_state
        ind = drain(prov)
        wire, closed = read_wire(peer, 0.2)
        ok = state == S.STA_6 and len(ind) == 1 and isinstance(ind[0], tuple) \
            and type(ind[0][0]).__name__ == 'CEchoRQMessage' and wire == b''
        if ok:
            return None
        return ('(2) DIMSE decoder: 2nd association, peer sent a complete C-ECHO-RQ in one '
                'P-DATA-TF; expected Sta6 + P-DATA indication, nothing sent; got state %s, '
                'indications %s, wire %r' % (NAMES[state], describe(ind), wire))
    finally:
        prov.kill()


def case_requestor_flag():
    """provider created on an accepted connection (acceptor role), peer aborts -> Sta1.
    Then the user issues an A-ASSOCIATE request: this provider is now the association requestor.
    Release collision: A-RELEASE request (AR-1, Sta7), A-RELEASE-RQ PDU (AR-8) -> Sta9 for the
    requestor; A-RELEASE response -> AR-9 sends A-RELEASE-RP, Sta11."""
    ours, peer0 = real_socket.socketpair()
    prov = dulprovider.DULServiceProvider(frozenset(), None, ours)
    try:
        assert wait_state(prov, S.STA_2), 'no Sta2'
        peer0.sendall(pdu.AAbortPDU(source=0, reason_diag=0).encode())   # AA-2 -> Sta1
        assert wait_state(prov, S.STA_1), 'no Sta1'

        peer = establish(prov)
        prov.send(pdu.AReleaseRqPDU())
        assert wait_state(prov, S.STA_7), 'no Sta7'
        wire, _ = read_wire(peer, 0.2)
        assert wire[:1] == b'\x05', wire
        peer.sendall(pdu.AReleaseRqPDU().encode())              # collision
        time.sleep(0.4)
        state_after_collision = prov.state_machine.current_state
        ind = drain(prov)
        prov.send(pdu.AReleaseRpPDU())                          # A-RELEASE response
        wire, _ = read_wire(peer, 0.6)
        state = prov.state_machine.current_state
        ok = state_after_collision == S.STA_9 and wire[:1] == b'\x06' and state == S.STA_11
        if ok:
            return None
        return ('(3) requestor flag: association requestor in a release collision; expected Sta9, '
                'then A-RELEASE-RP sent on A-RELEASE response and Sta11; got %s after AR-8, wire '
                '%r and %s after the response'
                % (NAMES[state_after_collision], wire, NAMES[state]))
    finally:
        prov.kill()


def main():
    problems = [p for p in (case_receive_buffer(), case_decoder(), case_requestor_flag()) if p]
    if problems:
        print('PROPERTY C05 VIOLATED: state of a finished association leaks into the next one')
        for line in problems:
            print('  ' + line)
        return 1
    print('ok: a second association on the same provider behaves like the first')
    return 0


if __name__ == '__main__':
    sys.exit(main())
