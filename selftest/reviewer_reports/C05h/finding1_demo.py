"""C05 finding 1: peer PDUs that arrive in Sta13 are thrown away by the provider loop,
so the Sta13 column of PS3.8 Table 9-10 is never executed:

  * A-ASSOCIATE-RQ PDU in Sta13  -> AA-7: an A-ABORT PDU must be sent      (nothing is sent)
  * unrecognised PDU in Sta13     -> AA-7: an A-ABORT PDU must be sent      (nothing is sent)
  * A-ABORT PDU in Sta13          -> AA-2: stop ARTIM, close the transport
                                     connection, next state Sta1            (connection stays open,
                                                                            provider stays in Sta13,
                                                                            ARTIM keeps running)

usage: finding1_demo.py [repository path]     exit 1 = property violated, exit 0 = not violated
"""
import sys
REPO = sys.argv[1] if len(sys.argv) > 1 else '/tmp/wt/C05h'
sys.path.insert(0, REPO)
import socket
import time

import pynetdicom2
assert pynetdicom2.__file__.startswith(REPO), pynetdicom2.__file__
from pynetdicom2 import dulprovider, fsm, pdu, userdataitems

S = fsm.States
NAMES = dict((v, k) for k, v in vars(S).items() if k.startswith('STA_'))


def wait_state(prov, state, timeout=3.0):
    end = time.time() + timeout
    while time.time() < end:
        if prov.state_machine.current_state == state and not prov.event:
            return True
        time.sleep(0.005)
    return False


def assoc_rq():
    items = [
        pdu.ApplicationContextItem('1.2.840.10008.3.1.1.1'),
        pdu.PresentationContextItemRQ(
            1, pdu.AbstractSyntaxSubItem('1.2.840.10008.1.1'),
            [pdu.TransferSyntaxSubItem('1.2.840.10008.1.2')]),
        pdu.UserInformationItem([userdataitems.MaximumLengthSubItem(16384)])]
    return pdu.AAssociateRqPDU(called_ae_title='ACCEPTOR', calling_ae_title='PEER',
                               variable_items=items)


def read_wire(sock, timeout):
    """returns (bytes received, True if the provider closed the connection)"""
    sock.settimeout(timeout)
    buf = b''
    try:
        while True:
            data = sock.recv(65536)
            if not data:
                return buf, True
            buf += data
    except socket.timeout:
        return buf, False
    except socket.error:
        return buf, True


def provider_in_sta13():
    """acceptor role: transport indication, A-ASSOCIATE-RQ PDU, user rejects -> AE-8 -> Sta13"""
    ours, peer = socket.socketpair()
    prov = dulprovider.DULServiceProvider(frozenset(), None, ours)
    assert wait_state(prov, S.STA_2), 'no Sta2'
    peer.sendall(assoc_rq().encode())
    assert wait_state(prov, S.STA_3), 'no Sta3'
    ind = prov.receive(2)
    assert ind.pdu_type == 0x01
    prov.send(pdu.AAssociateRjPDU(1, 1, 1))      # A-ASSOCIATE response (reject): AE-8
    assert wait_state(prov, S.STA_13), 'no Sta13'
    wire, closed = read_wire(peer, 0.2)
    assert wire[:1] == b'\x03' and not closed, 'A-ASSOCIATE-RJ expected on the wire'
    assert prov.timer._start_time is not None, 'ARTIM must run in Sta13'
    return prov, peer


def main():
    problems = []

    # ---- (a) A-ASSOCIATE-RQ PDU received in Sta13: AA-7 = send A-ABORT PDU, stay in Sta13
    prov, peer = provider_in_sta13()
    peer.sendall(assoc_rq().encode())
    wire, closed = read_wire(peer, 1.0)
    if wire[:1] != b'\x07':
        problems.append('(a) A-ASSOCIATE-RQ PDU in Sta13: PS3.8 AA-7 sends an A-ABORT PDU; '
                        'provider sent %r (state %s)'
                        % (wire, NAMES[prov.state_machine.current_state]))
    prov.kill()
    peer.close()

    # ---- (b) unrecognised PDU received in Sta13: AA-7 = send A-ABORT PDU, stay in Sta13
    prov, peer = provider_in_sta13()
    peer.sendall(b'\x99\x00\x00\x00\x00\x02\xab\xcd')
    wire, closed = read_wire(peer, 1.0)
    if wire[:1] != b'\x07':
        problems.append('(b) unrecognised PDU in Sta13: PS3.8 AA-7 sends an A-ABORT PDU; '
                        'provider sent %r (state %s)'
                        % (wire, NAMES[prov.state_machine.current_state]))
    prov.kill()
    peer.close()

    # ---- (c) A-ABORT PDU received in Sta13: AA-2 = stop ARTIM, close connection, Sta1
    prov, peer = provider_in_sta13()
    peer.sendall(pdu.AAbortPDU(source=0, reason_diag=0).encode())
    wire, closed = read_wire(peer, 1.0)          # ARTIM is 10 s: a close within 1 s can only be AA-2
    state = prov.state_machine.current_state
    if not closed or state != S.STA_1 or prov.dul_socket is not None \
            or prov.timer._start_time is not None:
        problems.append('(c) A-ABORT PDU in Sta13: PS3.8 AA-2 stops ARTIM, closes the transport '
                        'connection and goes to Sta1; provider: connection closed=%s, state=%s, '
                        'socket=%r, ARTIM running=%s'
                        % (closed, NAMES[state], prov.dul_socket,
                           prov.timer._start_time is not None))
    prov.kill()
    peer.close()

    if problems:
        print('PROPERTY C05 VIOLATED: peer PDUs in Sta13 are not handled as PS3.8 Table 9-10 says')
        for line in problems:
            print('  ' + line)
        return 1
    print('ok: Sta13 column of the state table is honoured')
    return 0


if __name__ == '__main__':
    sys.exit(main())
