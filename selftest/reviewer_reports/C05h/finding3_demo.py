"""C05 finding 3: requestor role, A-ASSOCIATE request (Evt 1, AE-1, Sta4), then the transport
connection is closed / can not be opened before the transport connect confirmation (Evt 17 in
Sta4).  PS3.8 Table 9-10: Sta4 x Evt17 -> AA-4: issue A-P-ABORT indication, next state Sta1.

The provider performs the whole TransportConnect inside action AE-1; when it fails the exception
leaves StateMachine.action() BEFORE current_state becomes Sta4, so the Evt 17 that the loop queues
is looked up as (Evt17, Sta1), which is not in the table: the user gets NO indication at all (the
caller of A-ASSOCIATE just runs into its own time-out).

usage: finding3_demo.py [repository path]     exit 1 = property violated, exit 0 = not violated
"""
import sys
REPO = sys.argv[1] if len(sys.argv) > 1 else '/tmp/wt/C05h'
sys.path.insert(0, REPO)
import errno
import socket as real_socket
import time

import pynetdicom2
assert pynetdicom2.__file__.startswith(REPO), pynetdicom2.__file__
from pynetdicom2 import dulprovider, exceptions, fsm, pdu, userdataitems

S = fsm.States
NAMES = dict((v, k) for k, v in vars(S).items() if k.startswith('STA_'))


class RefusingSocketShim(object):
    """stands for the `socket` module inside pynetdicom2.fsm: the transport connection can not be
    opened (what a real socket does when nobody listens).  No TCP port is used."""

    def __init__(self):
        self.connect_calls = 0
        self.closed = 0

    def __getattr__(self, name):
        return getattr(real_socket, name)

    def socket(self, *args, **kwargs):
        shim = self
        local, remote = real_socket.socketpair()
        remote.close()

        class Refusing(object):
            def connect(self, address):
                shim.connect_calls += 1
                raise real_socket.error(errno.ECONNREFUSED, 'Connection refused')

            def close(self):
                shim.closed += 1
                local.close()

            def __getattr__(self, name):
                return getattr(local, name)

        return Refusing()


def assoc_rq():
    items = [
        pdu.ApplicationContextItem('1.2.840.10008.3.1.1.1'),
        pdu.PresentationContextItemRQ(
            1, pdu.AbstractSyntaxSubItem('1.2.840.10008.1.1'),
            [pdu.TransferSyntaxSubItem('1.2.840.10008.1.2')]),
        pdu.UserInformationItem([userdataitems.MaximumLengthSubItem(16384)])]
    req = pdu.AAssociateRqPDU(called_ae_title='PEER', calling_ae_title='US', variable_items=items)
    req.called_presentation_address = ('peer.invalid', 104)   # only seen by the shim
    return req


def main():
    shim = RefusingSocketShim()
    fsm.socket = shim
    prov = dulprovider.DULServiceProvider(frozenset(), None, None)
    try:
        prov.send(assoc_rq())                       # A-ASSOCIATE request primitive, legal in Sta1
        try:
            indication = prov.receive(3)            # generous: the failure is immediate
        except exceptions.DCMTimeoutError:
            indication = None
        end = time.time() + 1
        while shim.connect_calls == 0 and time.time() < end:
            time.sleep(0.01)
        assert shim.connect_calls == 1, 'AE-1 was not executed'
        state = prov.state_machine.current_state
        alive = prov.is_alive()
    finally:
        prov.kill()

    if indication is None or getattr(indication, 'pdu_type', None) != 0x07:
        print('PROPERTY C05 VIOLATED: A-ASSOCIATE request, transport connection closed before '
              'the connect confirmation (Sta4 x Evt17)')
        print('  PS3.8: AA-4 issues an A-P-ABORT indication, next state Sta1')
        print('  provider: indication delivered to the user within 3 s: %r; state %s; loop alive: '
              '%s; connect attempts: %d' % (indication, NAMES[state], alive, shim.connect_calls))
        return 1
    print('ok: A-P-ABORT indication %r delivered' % (indication,))
    return 0


if __name__ == '__main__':
    sys.exit(main())
