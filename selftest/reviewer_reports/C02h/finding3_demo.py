#!/usr/bin/env python
"""C02 finding 3: the variable field of A-ASSOCIATE-RQ/AC and the Presentation Context items
are not read by their length fields.  PS3.8 9.3.1: "Items of unrecognized types shall be ignored
and skipped."  The library skips/keeps unknown sub-items only inside the User Information item;
an unrecognized item next to the Application Context / Presentation Context / User Information
items, or an unrecognized sub-item inside a Presentation Context item (whose Item-length is
never used), makes the whole PDU undecodable ('Invalid variable item').

usage: finding3_demo.py [repo_path]      exit 1 = property violated, 0 = holds
"""
import sys
REPO = sys.argv[1] if len(sys.argv) > 1 else '/tmp/wt/C02h'
sys.path.insert(0, REPO)
import struct

import pynetdicom2
assert pynetdicom2.__file__.startswith(REPO), pynetdicom2.__file__
from pynetdicom2 import pdu, userdataitems


def item(item_type, body):
    return struct.pack('>BBH', item_type, 0, len(body)) + body


def a_associate(pdu_type, items):
    body = struct.pack('>HH', 1, 0) + b'CALLED'.ljust(16) + b'CALLING'.ljust(16) + b'\0' * 32
    body += b''.join(items)
    return struct.pack('>BBI', pdu_type, 0, len(body)) + body


APP_CTX = item(0x10, b'1.2.840.10008.3.1.1.1')
ABS = item(0x30, b'1.2.840.10008.1.1')
TS1 = item(0x40, b'1.2.840.10008.1.2')
TS2 = item(0x40, b'1.2.840.10008.1.2.1')
PC_HDR = bytes(bytearray([1, 0, 0, 0]))
USER = item(0x50, item(0x51, struct.pack('>I', 16384)) + item(0x52, b'1.2.3.4'))
UNKNOWN_TOP = item(0x60, b'future item')          # type > 50H: increasing order is kept
UNKNOWN_SUB = item(0x41, b'future sub-item')      # type > 40H: increasing order is kept

failures = []


def check(label, cls, raw, n_ts):
    try:
        dec = cls.decode(raw)
    except Exception as exc:  # pylint: disable=broad-except
        failures.append('%s: decode raised %s: %s' % (label, type(exc).__name__, exc))
        return
    try:
        app = [i for i in dec.variable_items if isinstance(i, pdu.ApplicationContextItem)]
        pcs = [i for i in dec.variable_items
               if isinstance(i, (pdu.PresentationContextItemRQ, pdu.PresentationContextItemAC))]
        usr = [i for i in dec.variable_items if isinstance(i, pdu.UserInformationItem)]
        assert len(app) == 1 and app[0].context_name == '1.2.840.10008.3.1.1.1', app
        assert len(pcs) == 1 and pcs[0].context_id == 1, pcs
        if cls is pdu.AAssociateRqPDU:
            assert pcs[0].abs_sub_item.name == '1.2.840.10008.1.1', pcs
            assert [t.name for t in pcs[0].ts_sub_items] == \
                ['1.2.840.10008.1.2', '1.2.840.10008.1.2.1'][:n_ts], pcs
        else:
            assert pcs[0].ts_sub_item.name == '1.2.840.10008.1.2', pcs
        assert len(usr) == 1, usr
        mx = [s for s in usr[0].user_data if isinstance(s, userdataitems.MaximumLengthSubItem)]
        assert len(mx) == 1 and mx[0].maximum_length_received == 16384, usr
        print('%s: decoded to the right field values' % label)
    except AssertionError as exc:
        failures.append('%s: wrong field values: %s' % (label, exc))


# control: plain PDUs and an unknown sub-item inside the User Information item are fine
check('control RQ', pdu.AAssociateRqPDU,
      a_associate(1, [APP_CTX, item(0x20, PC_HDR + ABS + TS1 + TS2), USER]), 2)
check('control RQ, unknown 5AH sub-item in User Information', pdu.AAssociateRqPDU,
      a_associate(1, [APP_CTX, item(0x20, PC_HDR + ABS + TS1 + TS2),
                      item(0x50, item(0x51, struct.pack('>I', 16384)) + item(0x5A, b'zz'))]), 2)
assert not failures, failures

# 1. unrecognized item after the User Information item of an A-ASSOCIATE-RQ
check('RQ with unrecognized item 60H', pdu.AAssociateRqPDU,
      a_associate(1, [APP_CTX, item(0x20, PC_HDR + ABS + TS1 + TS2), USER, UNKNOWN_TOP]), 2)
# 2. same in an A-ASSOCIATE-AC
check('AC with unrecognized item 60H', pdu.AAssociateAcPDU,
      a_associate(2, [APP_CTX, item(0x21, PC_HDR + TS1), USER, UNKNOWN_TOP]), 1)
# 3. unrecognized sub-item inside a Presentation Context item (RQ); its Item-length covers it
check('RQ with unrecognized sub-item 41H in the Presentation Context item', pdu.AAssociateRqPDU,
      a_associate(1, [APP_CTX, item(0x20, PC_HDR + ABS + TS1 + TS2 + UNKNOWN_SUB), USER]), 2)
# 4. same in the Presentation Context item of an AC
check('AC with unrecognized sub-item 41H in the Presentation Context item', pdu.AAssociateAcPDU,
      a_associate(2, [APP_CTX, item(0x21, PC_HDR + TS1 + UNKNOWN_SUB), USER]), 1)
# 5. "sub-items in every order": transfer syntaxes before the abstract syntax
check('RQ with Transfer Syntax sub-items before the Abstract Syntax sub-item', pdu.AAssociateRqPDU,
      a_associate(1, [APP_CTX, item(0x20, PC_HDR + TS1 + TS2 + ABS), USER]), 2)

if failures:
    print('PROPERTY C02 VIOLATED:')
    for f in failures:
        print(' -', f)
    sys.exit(1)
print('ok')
sys.exit(0)
