#!/usr/bin/env python
# -*- coding: utf-8 -*-
"""C02 finding 2: User Identity Negotiation sub-item of the A-ASSOCIATE-AC (PS3.7 D.3.3.7.2,
item type 59H).  The Server-response is kept as text and its *character* count is used for the
Item-length, while the Server-response-length field and the bytes emitted use the *byte* count:

 (a) a PDU emitted by the library with a server response that has a non-ASCII character
     (e.g. a SAML response, UTF-8 XML) reports lengths (sub-item, User Information item, PDU)
     that are smaller than the number of bytes emitted;
 (b) this value is reachable from the wire: decode(conformant bytes).encode() != the bytes;
 (c) a binary server response (Kerberos server ticket, type 3) can not be decoded at all.

usage: finding2_demo.py [repo_path]      exit 1 = property violated, 0 = holds
"""
import sys
REPO = sys.argv[1] if len(sys.argv) > 1 else '/tmp/wt/C02h'
sys.path.insert(0, REPO)
import struct

import pynetdicom2
assert pynetdicom2.__file__.startswith(REPO), pynetdicom2.__file__
from pynetdicom2 import pdu, userdataitems


class LayoutError(Exception):
    pass


# ---- independent reference encoder ----------------------------------------------------------
def item(item_type, body):
    return struct.pack('>BBH', item_type, 0, len(body)) + body


def a_associate_ac(items):
    body = struct.pack('>HH', 1, 0) + b'CALLED'.ljust(16) + b'CALLING'.ljust(16) + b'\0' * 32
    body += b''.join(items)
    return struct.pack('>BBI', 0x02, 0, len(body)) + body


# ---- independent strict, length driven reference parser (only what is needed here) ------------
def split_items(buf):
    """[(type, value bytes)], every Item-length delimits exactly its value"""
    res, pos = [], 0
    while pos < len(buf):
        if pos + 4 > len(buf):
            raise LayoutError('truncated item header at offset %d' % pos)
        item_type, _, length = struct.unpack('>BBH', buf[pos:pos + 4])
        if pos + 4 + length > len(buf):
            raise LayoutError('item %02XH: Item-length %d runs past the end of the enclosing '
                              'field (%d bytes left)' % (item_type, length, len(buf) - pos - 4))
        res.append((item_type, buf[pos + 4:pos + 4 + length]))
        pos += 4 + length
    return res


def parse_ac_server_response(raw):
    """strict read of an A-ASSOCIATE-AC, returns Server-response bytes of the 59H sub-item"""
    pdu_type, _, pdu_length = struct.unpack('>BBI', raw[:6])
    if pdu_type != 2:
        raise LayoutError('not an A-ASSOCIATE-AC')
    if pdu_length != len(raw) - 6:
        raise LayoutError('PDU-length field says %d, %d bytes follow it' % (pdu_length, len(raw) - 6))
    for item_type, value in split_items(raw[74:]):
        if item_type != 0x50:
            continue
        for sub_type, sub_value in split_items(value):
            if sub_type == 0x59:
                rsp_len = struct.unpack('>H', sub_value[:2])[0]
                if rsp_len != len(sub_value) - 2:
                    raise LayoutError('59H sub-item: Item-length %d but Server-response-length '
                                      '%d (+2)' % (len(sub_value), rsp_len))
                return sub_value[2:]
    raise LayoutError('no 59H sub-item found')


APP_CTX = item(0x10, b'1.2.840.10008.3.1.1.1')
PC_AC = item(0x21, bytes(bytearray([1, 0, 0, 0])) + item(0x40, b'1.2.840.10008.1.2'))
MAX_LEN = item(0x51, struct.pack('>I', 16384))
IMPL = item(0x52, b'1.2.3.4')

failures = []


def lib_ac(server_response):
    return pdu.AAssociateAcPDU(
        'CALLED', 'CALLING',
        [pdu.ApplicationContextItem('1.2.840.10008.3.1.1.1'),
         pdu.PresentationContextItemAC(1, 0, pdu.TransferSyntaxSubItem('1.2.840.10008.1.2')),
         pdu.UserInformationItem([userdataitems.MaximumLengthSubItem(16384),
                                  userdataitems.UserIdentityNegotiationSubItemAc(server_response)])])


# control: ASCII server response, the library output passes the strict parser
ctrl = lib_ac('<Response>ok</Response>')
assert parse_ac_server_response(ctrl.encode()) == b'<Response>ok</Response>'
assert ctrl.total_length() == len(ctrl.encode())
print('control (ASCII server response): emitted PDU passes the strict reference parser')

# (a) library-emitted PDU, SAML response with one non-ASCII character
TEXT = u'<Response><Issuer>Hôpital</Issuer></Response>'
p = lib_ac(TEXT)
raw = p.encode()
if p.total_length() != len(raw):
    failures.append('(a) encode: self-reported total_length() is %d, %d bytes are emitted'
                    % (p.total_length(), len(raw)))
try:
    got = parse_ac_server_response(raw)
    if got != TEXT.encode('utf8'):
        failures.append('(a) strict parser reads server response %r' % got)
except LayoutError as exc:
    failures.append('(a) emitted A-ASSOCIATE-AC does not parse by its own length fields: %s' % exc)

# (b) the same value comes from a conformant peer encoding
wire = a_associate_ac([APP_CTX, PC_AC, item(0x50, MAX_LEN + IMPL + item(
    0x59, struct.pack('>H', len(TEXT.encode('utf8'))) + TEXT.encode('utf8')))])
assert parse_ac_server_response(wire) == TEXT.encode('utf8')   # reference bytes are well formed
try:
    dec = pdu.AAssociateAcPDU.decode(wire)
    re_enc = dec.encode()
    if re_enc != wire:
        failures.append('(b) decode(conformant AC).encode() differs from the input: PDU-length '
                        'field %d -> %d, same %d bytes' % (
                            struct.unpack('>I', wire[2:6])[0],
                            struct.unpack('>I', re_enc[2:6])[0], len(re_enc)))
except Exception as exc:  # pylint: disable=broad-except
    failures.append('(b) decode raised %s: %s' % (type(exc).__name__, exc))

# (c) binary server response (Kerberos), conformant encoding
TICKET = bytes(bytearray([0x6f, 0x81, 0x9a, 0x30, 0x81, 0x97, 0xa0, 0x03, 0x02, 0x01, 0x05, 0xff]))
wire = a_associate_ac([APP_CTX, PC_AC, item(0x50, MAX_LEN + IMPL + item(
    0x59, struct.pack('>H', len(TICKET)) + TICKET))])
assert parse_ac_server_response(wire) == TICKET
try:
    dec = pdu.AAssociateAcPDU.decode(wire)
    sub = dec.variable_items[-1].user_data[-1]
    if dec.encode() != wire:
        failures.append('(c) binary server response is not preserved: %r' % (sub.server_response,))
except Exception as exc:  # pylint: disable=broad-except
    failures.append('(c) AAssociateAcPDU.decode of a conformant AC with a Kerberos server '
                    'response raised %s: %s' % (type(exc).__name__, exc))

if failures:
    print('PROPERTY C02 VIOLATED:')
    for f in failures:
        print(' -', f)
    sys.exit(1)
print('ok')
sys.exit(0)
