#!/usr/bin/env python
"""C02 finding 1: a standard-conformant A-ASSOCIATE-RQ that carries a User Identity
Negotiation sub-item (PS3.7 D.3.3.7.1, item type 58H) of User-Identity-Type 3 (Kerberos
service ticket - binary ASN.1/DER) cannot be decoded by the library: the Primary-field
is run through .decode('utf8').

usage: finding1_demo.py [repo_path]      exit 1 = property violated, 0 = holds
"""
import sys
REPO = sys.argv[1] if len(sys.argv) > 1 else '/tmp/wt/C02h'
sys.path.insert(0, REPO)
import socket
import struct
import time

import pynetdicom2
assert pynetdicom2.__file__.startswith(REPO), pynetdicom2.__file__
from pynetdicom2 import pdu, userdataitems, dulprovider


# ---- independent reference encoder (PS3.8 9.3.2 / PS3.7 Annex D) ---------------------------
def item(item_type, body):
    return struct.pack('>BBH', item_type, 0, len(body)) + body


def a_associate_rq(items):
    body = struct.pack('>HH', 1, 0) + b'CALLED'.ljust(16) + b'CALLING'.ljust(16) + b'\0' * 32
    body += b''.join(items)
    return struct.pack('>BBI', 0x01, 0, len(body)) + body


def user_identity_rq(id_type, rsp_req, primary, secondary=b''):
    return item(0x58, struct.pack('>BBH', id_type, rsp_req, len(primary)) + primary +
                struct.pack('>H', len(secondary)) + secondary)


APP_CTX = item(0x10, b'1.2.840.10008.3.1.1.1')
PC = item(0x20, bytes(bytearray([1, 0, 0, 0])) + item(0x30, b'1.2.840.10008.1.1') +
          item(0x40, b'1.2.840.10008.1.2'))
MAX_LEN = item(0x51, struct.pack('>I', 16384))
IMPL = item(0x52, b'1.2.3.4')

# beginning of a real-looking Kerberos AP-REQ: [APPLICATION 14] SEQUENCE, DER long-form lengths
TICKET = bytes(bytearray([0x6e, 0x82, 0x01, 0x10, 0x30, 0x82, 0x01, 0x0c, 0xa0, 0x03, 0x02, 0x01,
                          0x05, 0xa1, 0x03, 0x02, 0x01, 0x0e, 0xff, 0xfe, 0x80, 0x81]))


def build(primary, id_type):
    return a_associate_rq([APP_CTX, PC,
                           item(0x50, MAX_LEN + IMPL + user_identity_rq(id_type, 1, primary))])


failures = []

# control: same layout, text primary field (user name) - shows the reference encoder is right
ctrl = pdu.AAssociateRqPDU.decode(build(b'alice', 1))
ctrl_item = ctrl.variable_items[-1].user_data[-1]
assert isinstance(ctrl_item, userdataitems.UserIdentityNegotiationSubItem)
assert (ctrl_item.user_identity_type, ctrl_item.positive_response_req) == (1, 1)
assert ctrl_item.primary_field == 'alice'
print('control (type 1, user name "alice"): decoded fine')

# 1. codec level
raw = build(TICKET, 3)
try:
    rq = pdu.AAssociateRqPDU.decode(raw)
    sub = rq.variable_items[-1].user_data[-1]
    if sub.user_identity_type != 3 or sub.positive_response_req != 1:
        failures.append('wrong type / response requested: %r' % (sub,))
    elif rq.encode() != raw:
        # the ticket bytes are only preserved if the same bytes come out again
        failures.append('re-encoded PDU differs from the conformant input (ticket not preserved)')
    else:
        print('type 3 (Kerberos ticket): decoded and re-encoded fine')
except Exception as exc:  # pylint: disable=broad-except
    failures.append('AAssociateRqPDU.decode of a conformant A-ASSOCIATE-RQ with a Kerberos '
                    'User Identity sub-item raised %s: %s' % (type(exc).__name__, exc))

# 2. same thing seen by a peer: the acceptor side of the real DUL provider answers A-ABORT
ours, theirs = socket.socketpair()
dul = dulprovider.DULServiceProvider(frozenset(), None, ours, 65536)
try:
    theirs.sendall(raw)
    delivered = None
    try:
        delivered = dul.receive(3)
    except Exception:  # pylint: disable=broad-except
        pass
    theirs.settimeout(3)
    try:
        answer = theirs.recv(64)
    except socket.timeout:
        answer = b''
    if isinstance(delivered, pdu.AAssociateRqPDU):
        print('DUL provider: A-ASSOCIATE indication delivered to the service user')
    else:
        failures.append('DUL provider did not deliver the A-ASSOCIATE-RQ (got %r); bytes sent '
                        'back to the requestor: %r (07H = A-ABORT)' % (delivered, answer))
finally:
    dul.is_killed = True
    time.sleep(0.2)
    for s in (ours, theirs):
        try:
            s.close()
        except Exception:  # pylint: disable=broad-except
            pass

if failures:
    print('PROPERTY C02 VIOLATED:')
    for f in failures:
        print(' -', f)
    sys.exit(1)
print('ok')
sys.exit(0)
