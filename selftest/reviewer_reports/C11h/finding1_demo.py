"""C11 / finding 1: an entity configured with more than 128 SOP classes.

add_scu()/add_scp() accept the 129th class and give it presentation context
id 257.  request_association() then opens the transport connection, the
provider thread dies with struct.error while encoding the A-ASSOCIATE-RQ
(nothing is ever sent), the caller is told that the association was
*aborted* and the connection is left open.

exit 1 = property violated, exit 0 = not violated.
"""
import sys
REPO = sys.argv[1] if len(sys.argv) > 1 else '/tmp/wt/C11h'
sys.path.insert(0, REPO)
import socket as real_socket
import threading
import time

import pynetdicom2
assert pynetdicom2.__file__.startswith(REPO), pynetdicom2.__file__
from pynetdicom2 import fsm, applicationentity, exceptions


class SocketShim(object):
    """Stands in for the socket module inside pynetdicom2.fsm: connect() is
    served by one end of a socketpair, the test keeps the other end."""
    error = real_socket.error
    AF_INET = real_socket.AF_INET
    SOCK_STREAM = real_socket.SOCK_STREAM

    def __init__(self):
        self.peers = []

    def socket(self, *_):
        near, far = real_socket.socketpair()
        self.peers.append(far)

        class Sock(object):
            def connect(self, addr):
                pass

            def __getattr__(self, name):
                return getattr(near, name)

            def fileno(self):
                return near.fileno()
        return Sock()


shim = SocketShim()
fsm.socket = shim

crashed = []
threading.excepthook = lambda args: crashed.append(
    '%s: %s' % (args.exc_type.__name__, args.exc_value))


class Service(object):
    def __init__(self, classes):
        self.sop_classes = classes

    def __call__(self, *args):
        return args


def main():
    problems = []
    n = 129
    ae = applicationentity.ClientAE('LOCAL')
    ae.timeout = 5
    try:
        # two calls, 100 + 29 distinct classes: inside 'all sequences of add_scu
        # calls ... totals around and beyond 128 classes'
        ae.add_scu(Service(['1.2.3.%d' % i for i in range(100)]))
        ae.add_scu(Service(['1.2.3.%d' % i for i in range(100, n)]))
    except exceptions.NetDICOMError as exc:
        print('configuration refused cleanly: %r' % exc)
        return 0
    ids = sorted(ae.context_def_list)
    out_of_range = [i for i in ids if not 1 <= i <= 255]
    if out_of_range:
        problems.append('configuration accepted, presentation context ids outside 1..255 '
                        'were assigned: %r' % out_of_range)

    outcome = None
    try:
        with ae.request_association({'aet': 'REMOTE', 'address': 'x', 'port': 1}) as assoc:
            outcome = 'established, %d contexts' % len(assoc.context_def_list)
    except exceptions.NetDICOMError as exc:
        outcome = 'raised %s%r' % (type(exc).__name__, exc.args)
        if isinstance(exc, exceptions.AssociationAbortedError):
            problems.append('caller is told the association was ABORTED (%r) although no '
                            'A-ASSOCIATE-RQ was ever sent and no peer aborted anything' % exc)
    except Exception as exc:  # pylint: disable=broad-except
        outcome = 'raised %s%r' % (type(exc).__name__, exc.args)
        problems.append('request failed with a non-library error: ' + outcome)
    print('request outcome:', outcome)

    time.sleep(0.3)
    if crashed:
        problems.append('DUL provider thread was killed by an unhandled exception: ' + crashed[0])

    if shim.peers:
        far = shim.peers[0]
        far.settimeout(1.0)
        try:
            data = far.recv(65536)
            if data:
                print('peer received %d bytes' % len(data))
            else:
                print('peer: connection closed, nothing was sent')
        except real_socket.timeout:
            problems.append('transport connection was opened, no A-ASSOCIATE-RQ was sent on it '
                            'and it was left open (peer still waiting after 1 s)')

    if problems:
        print('PROPERTY C11 VIOLATED for a configuration of %d SOP classes:' % n)
        for p in problems:
            print(' -', p)
        return 1
    print('ok')
    return 0


if __name__ == '__main__':
    rc = main()
    sys.stdout.flush()
    import os
    os._exit(rc)
