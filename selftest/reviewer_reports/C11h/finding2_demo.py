"""C11 / finding 2: the A-ASSOCIATE-AC names a presentation context id that
was not proposed (here id 7 after ids 1, 3, 5 were proposed).

'the requester regards as usable exactly the contexts the peer accepted AMONG
THOSE IT PROPOSED' - the library instead lets a bare KeyError escape from
request()/request_association(), after it has already registered a part of
the accepted contexts, so the contexts the peer did accept among the proposed
ones are not usable at all.

exit 1 = property violated, exit 0 = not violated.
"""
import sys
REPO = sys.argv[1] if len(sys.argv) > 1 else '/tmp/wt/C11h'
sys.path.insert(0, REPO)
import os
import socket as real_socket
import struct
import threading
import time

import pynetdicom2
assert pynetdicom2.__file__.startswith(REPO), pynetdicom2.__file__
from pynetdicom2 import fsm, pdu, applicationentity, asceprovider, exceptions, userdataitems

IMPLICIT = '1.2.840.10008.1.2'


class SocketShim(object):
    error = real_socket.error
    AF_INET = real_socket.AF_INET
    SOCK_STREAM = real_socket.SOCK_STREAM

    def __init__(self):
        self.peers = []

    def socket(self, *_):
        near, far = real_socket.socketpair()
        self.peers.append(far)

        class Sock(object):
            def connect(self, addr):
                pass

            def __getattr__(self, name):
                return getattr(near, name)

            def fileno(self):
                return near.fileno()
        return Sock()


shim = SocketShim()
fsm.socket = shim


def recv_pdu(sock):
    buf = b''
    while len(buf) < 6 or len(buf) < 6 + struct.unpack('>L', buf[2:6])[0]:
        data = sock.recv(65536)
        if not data:
            return None
        buf += data
    return buf


class Service(object):
    def __init__(self, classes):
        self.sop_classes = classes

    def __call__(self, *args):
        return args


def peer(reply_items, seen):
    while not shim.peers:
        time.sleep(0.001)
    sock = shim.peers.pop()
    raw = recv_pdu(sock)
    rq = pdu.AAssociateRqPDU.decode(raw)
    seen['proposed'] = dict((i.context_id, str(i.abs_sub_item.name))
                            for i in rq.variable_items[1:-1])
    items = [pdu.ApplicationContextItem(asceprovider.APPLICATION_CONTEXT_NAME)]
    items += [pdu.PresentationContextItemAC(i, r, pdu.TransferSyntaxSubItem(t))
              for i, r, t in reply_items]
    items.append(pdu.UserInformationItem([userdataitems.MaximumLengthSubItem(16384)]))
    sock.sendall(pdu.AAssociateAcPDU(rq.called_ae_title, rq.calling_ae_title, items).encode())
    seen['sock'] = sock


def main():
    ae = applicationentity.ClientAE('LOCAL')
    ae.timeout = 5
    service = Service(['1.2.3.0', '1.2.3.1', '1.2.3.2'])
    ae.add_scu(service)   # proposed under ids 1, 3, 5

    # accepted: 1 and 5 (proposed) and 7 (never proposed); 3 rejected with reason 3
    reply = [(1, 0, IMPLICIT), (7, 0, IMPLICIT), (3, 3, IMPLICIT), (5, 0, IMPLICIT)]
    seen = {}
    thread = threading.Thread(target=peer, args=(reply, seen))
    thread.daemon = True
    thread.start()

    assoc = asceprovider.AssociationRequester(ae, ae.max_pdu_length,
                                              {'aet': 'REMOTE', 'address': 'x', 'port': 1})
    problems = []
    try:
        assoc.request()
    except exceptions.NetDICOMError as exc:
        print('request refused with a library error: %r (acceptable)' % exc)
    except Exception as exc:  # pylint: disable=broad-except
        problems.append('request() let %s%r escape' % (type(exc).__name__, exc.args))
    thread.join(5)
    print('proposed          :', seen.get('proposed'))
    print('reply (id,res,ts) :', reply)

    expected = {1: '1.2.3.0', 5: '1.2.3.2'}
    got = dict((i, str(c.sop_class)) for i, c in assoc.accepted_contexts.items())
    print('accepted_contexts :', got)
    print('established       :', assoc.association_established)
    if not problems and assoc.association_established:
        if got != expected:
            problems.append('usable contexts %r, expected %r' % (got, expected))
        for sop_class, usable in (('1.2.3.0', True), ('1.2.3.1', False), ('1.2.3.2', True)):
            try:
                assoc.get_scu(sop_class)
                found = True
            except exceptions.ClassNotSupportedError:
                found = False
            if found != usable:
                problems.append('get_scu(%s): found=%s expected=%s' % (sop_class, found, usable))
    elif problems:
        if got and got != expected:
            problems.append('requester was left half way: it registered %r of the accepted '
                            'contexts %r before failing' % (got, expected))

    if problems and not assoc.association_established:
        # what AEBase.request_association() does when request() raised
        assoc.kill()
        sock = seen.get('sock')
        sock.settimeout(1.0)
        try:
            data = sock.recv(65536)
            print('peer after the failure: %s' % ('A-ABORT/close' if not data or data[:1] == b'\x07'
                                                  else repr(data[:10])))
        except real_socket.timeout:
            problems.append('peer, which accepted the association, gets neither A-ABORT nor a '
                            'closed connection after the failure (still waiting after 1 s)')
    assoc.dul.is_killed = True
    if problems:
        print('PROPERTY C11 VIOLATED:')
        for p in problems:
            print(' -', p)
        return 1
    print('ok')
    return 0


if __name__ == '__main__':
    rc = main()
    sys.stdout.flush()
    os._exit(rc)
