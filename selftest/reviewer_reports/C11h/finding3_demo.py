"""C11 / finding 3: replies with result codes 1-4 whose Transfer Syntax
sub-item is 'not significant' (PS3.8 Table 9-18: "When the Result/Reason field
has a value other than acceptance (0), this field shall not be significant and
its value shall not be tested when received").

PresentationContextItemAC.decode() ignores the Item-length field of the item
and unconditionally parses a Transfer Syntax sub-item (and decodes its value as
ASCII) behind the 8 byte header:

 (a) rejected item whose value field is not ASCII  -> the complete
     A-ASSOCIATE-AC is thrown away, the requester aborts an association in which
     the peer accepted two of three contexts;
 (b) rejected item sent without the sub-item (Item-length 4, as several
     toolkits do) -> the header of the NEXT presentation context item is taken
     for the sub-item, the next (accepted) context silently disappears: the
     peer accepted contexts 3 and 5, the requester regards only 5 as usable and
     get_scu() for the class of context 3 fails with ClassNotSupportedError.

exit 1 = property violated, exit 0 = not violated.
"""
import sys
REPO = sys.argv[1] if len(sys.argv) > 1 else '/tmp/wt/C11h'
sys.path.insert(0, REPO)
import os
import socket as real_socket
import struct
import threading
import time
import warnings
warnings.simplefilter('ignore')

import pynetdicom2
assert pynetdicom2.__file__.startswith(REPO), pynetdicom2.__file__
from pynetdicom2 import fsm, pdu, applicationentity, asceprovider, exceptions

IMPLICIT = b'1.2.840.10008.1.2'
APP_CONTEXT = b'1.2.840.10008.3.1.1.1'


class SocketShim(object):
    error = real_socket.error
    AF_INET = real_socket.AF_INET
    SOCK_STREAM = real_socket.SOCK_STREAM

    def __init__(self):
        self.peers = []

    def socket(self, *_):
        near, far = real_socket.socketpair()
        self.peers.append(far)

        class Sock(object):
            def connect(self, addr):
                pass

            def __getattr__(self, name):
                return getattr(near, name)

            def fileno(self):
                return near.fileno()
        return Sock()


shim = SocketShim()
fsm.socket = shim


def recv_pdu(sock):
    buf = b''
    while len(buf) < 6 or len(buf) < 6 + struct.unpack('>L', buf[2:6])[0]:
        data = sock.recv(65536)
        if not data:
            return None
        buf += data
    return buf


def ts_sub_item(value):
    return struct.pack('>BBH', 0x40, 0, len(value)) + value


def pc_item_ac(pc_id, result, sub_item):
    """Presentation Context Item (AC), PS3.8 9.3.3.2, written by hand"""
    return struct.pack('>BBHBBBB', 0x21, 0, 4 + len(sub_item), pc_id, 0, result, 0) + sub_item


def associate_ac(called, calling, pc_items):
    body = struct.pack('>BBH', 0x10, 0, len(APP_CONTEXT)) + APP_CONTEXT
    body += b''.join(pc_items)
    max_length = struct.pack('>BBHI', 0x51, 0, 4, 16384)
    body += struct.pack('>BBH', 0x50, 0, len(max_length)) + max_length
    return struct.pack('>BBIHH16s16s32s', 0x02, 0, 68 + len(body), 1, 0,
                       called.ljust(16).encode(), calling.ljust(16).encode(), b'') + body


class Service(object):
    def __init__(self, classes):
        self.sop_classes = classes

    def __call__(self, *args):
        return args


def scenario(name, rejected_item):
    print('--- %s' % name)
    ae = applicationentity.ClientAE('LOCAL')
    ae.timeout = 5
    ae.add_scu(Service(['1.2.3.0', '1.2.3.1', '1.2.3.2']))  # ids 1, 3, 5

    def peer():
        while not shim.peers:
            time.sleep(0.001)
        sock = shim.peers.pop()
        rq = pdu.AAssociateRqPDU.decode(recv_pdu(sock))
        # context 1: rejected, abstract syntax not supported (3)
        # contexts 3 and 5: accepted with Implicit VR Little Endian
        sock.sendall(associate_ac(rq.called_ae_title, rq.calling_ae_title, [
            rejected_item,
            pc_item_ac(3, 0, ts_sub_item(IMPLICIT)),
            pc_item_ac(5, 0, ts_sub_item(IMPLICIT)),
        ]))
        keep.append(sock)

    thread = threading.Thread(target=peer)
    thread.daemon = True
    thread.start()
    assoc = asceprovider.AssociationRequester(ae, ae.max_pdu_length,
                                              {'aet': 'REMOTE', 'address': 'x', 'port': 1})
    problems = []
    try:
        assoc.request()
    except Exception as exc:  # pylint: disable=broad-except
        problems.append('peer accepted contexts 3 and 5, request() raised %s%r'
                        % (type(exc).__name__, exc.args))
    thread.join(5)
    expected = {3: ('1.2.3.1', '1.2.840.10008.1.2'), 5: ('1.2.3.2', '1.2.840.10008.1.2')}
    got = dict((i, (str(c.sop_class), str(c.supported_ts)))
               for i, c in assoc.accepted_contexts.items())
    print('peer accepted     :', expected)
    print('requester usable  :', got)
    if not problems:
        if got != expected:
            problems.append('usable contexts differ from the contexts the peer accepted')
        for sop_class, usable in (('1.2.3.0', False), ('1.2.3.1', True), ('1.2.3.2', True)):
            try:
                assoc.get_scu(sop_class)
                found = True
            except exceptions.ClassNotSupportedError:
                found = False
            if found != usable:
                problems.append('get_scu(%s): %s, peer accepted a context for it: %s'
                                % (sop_class, 'service' if found else 'ClassNotSupportedError',
                                   usable))
    assoc.dul.is_killed = True
    for p in problems:
        print(' VIOLATION:', p)
    return problems


keep = []


def main():
    bad = []
    # control: rejected item with a zero-length Transfer Syntax sub-item (what the
    # library's own acceptor sends)
    control = scenario('control: rejected item, empty transfer syntax value',
                       pc_item_ac(1, 3, ts_sub_item(b'')))
    if control:
        print('control scenario failed - harness problem?')
    bad += scenario('(a) rejected item, transfer syntax value is not ASCII (value is not '
                    'significant)', pc_item_ac(1, 3, ts_sub_item(b'\xff\xfe')))
    bad += scenario('(b) rejected item without Transfer Syntax sub-item (Item-length 4)',
                    pc_item_ac(1, 3, b''))
    if bad:
        print('PROPERTY C11 VIOLATED (%d problems)' % len(bad))
        return 1
    print('ok')
    return 0


if __name__ == '__main__':
    rc = main()
    sys.stdout.flush()
    os._exit(rc)
