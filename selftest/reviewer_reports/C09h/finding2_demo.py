#!/usr/bin/env python
"""C09 finding 2: two proposed presentation contexts that carry the same context id are both
answered 'accepted' (with different transfer syntaxes), but the acceptor keeps only the last
one: it then serves the context with a transfer syntax different from the one it reported in
its first answer.

usage: finding2_demo.py [repo_path]      exit 1 = property violated, exit 0 = not violated
"""
import socket
import struct
import sys
import threading
import warnings

REPO = sys.argv[1] if len(sys.argv) > 1 else '/tmp/wt/C09h'
sys.path.insert(0, REPO)
warnings.simplefilter('ignore')

import pynetdicom2  # noqa: E402
assert pynetdicom2.__file__.startswith(REPO), pynetdicom2.__file__
from pydicom.dataset import Dataset  # noqa: E402
from pynetdicom2 import applicationentity, asceprovider, dsutils, sopclass  # noqa: E402

CT = '1.2.840.10008.5.1.4.1.1.2'     # CT Image Storage
IMP = '1.2.840.10008.1.2'            # Implicit VR LE
EXP = '1.2.840.10008.1.2.1'          # Explicit VR LE


def item(item_type, body):
    return struct.pack('>BBH', item_type, 0, len(body)) + body


def pres_ctx(cid, abstract, ts_list):
    body = struct.pack('>BBBB', cid, 0, 0, 0) + item(0x30, abstract.encode())
    body += b''.join(item(0x40, ts.encode()) for ts in ts_list)
    return item(0x20, body)


def associate_rq(contexts):
    user = item(0x50, item(0x51, struct.pack('>I', 16384)) + item(0x52, b'1.2.3.4'))
    var = item(0x10, b'1.2.840.10008.3.1.1.1') + b''.join(pres_ctx(*c) for c in contexts) + user
    body = struct.pack('>HH16s16s32s', 1, 0, b'SRV'.ljust(16), b'CLI'.ljust(16), b'\0' * 32) + var
    return struct.pack('>BBI', 1, 0, len(body)) + body


def recv_pdu(sock, timeout=8):
    sock.settimeout(timeout)
    buf = b''
    try:
        while len(buf) < 6:
            data = sock.recv(6 - len(buf))
            if not data:
                return None
            buf += data
        length = struct.unpack('>I', buf[2:6])[0]
        while len(buf) < 6 + length:
            data = sock.recv(6 + length - len(buf))
            if not data:
                return None
            buf += data
    except (socket.timeout, socket.error):
        return None
    return buf


def parse_ac(raw):
    pos, res = 74, []
    while pos < len(raw):
        item_type, _, length = struct.unpack('>BBH', raw[pos:pos + 4])
        body = raw[pos + 4:pos + 4 + length]
        if item_type == 0x21:
            ts_len = struct.unpack('>H', body[6:8])[0]
            res.append((body[0], body[2], body[8:8 + ts_len].decode()))
        pos += 4 + length
    return res


def command(ds):
    raw = dsutils.encode(ds, True, True)
    grp = Dataset()
    grp.CommandGroupLength = len(raw)
    return dsutils.encode(grp, True, True) + raw


def p_data(cid, flag, data):
    pdv = struct.pack('>IBB', len(data) + 2, cid, flag) + data
    return struct.pack('>BBI', 4, 0, len(pdv)) + pdv


def c_store_rq(cid, sop_class, implicit):
    cmd = Dataset()
    cmd.AffectedSOPClassUID = sop_class
    cmd.CommandField = 0x0001
    cmd.MessageID = 7
    cmd.Priority = 0
    cmd.CommandDataSetType = 1
    cmd.AffectedSOPInstanceUID = '1.2.3.4.5'
    data = Dataset()
    data.SOPClassUID = sop_class
    data.SOPInstanceUID = '1.2.3.4.5'
    data.PatientName = 'X'
    return p_data(cid, 3, command(cmd)) + p_data(cid, 2, dsutils.encode(data, implicit, True))


class MyAE(applicationentity.AE):
    def __init__(self, *args, **kwargs):
        applicationentity.AE.__init__(self, *args, **kwargs)
        self.stored = []

    def on_receive_store(self, context, ds):
        self.stored.append(context)
        return 0


def main():
    ae = MyAE('SRV', 0, supported_ts=[IMP, EXP], bind_and_activate=False)   # no port is bound
    ae.add_scp(sopclass.storage_scp)
    ae.timeout = 4
    peer, local = socket.socketpair()
    holder = {}

    def serve():
        try:
            acc = asceprovider.AssociationAcceptor.__new__(asceprovider.AssociationAcceptor)
            holder['acc'] = acc
            acc.__init__(local, ('peer', 0), ae, ae.max_pdu_length)
        except Exception:  # pylint: disable=broad-except
            pass
        finally:
            local.close()

    thread = threading.Thread(target=serve)
    thread.daemon = True
    thread.start()

    contexts = [(1, CT, [IMP]), (1, CT, [EXP])]
    peer.sendall(associate_rq(contexts))
    raw = recv_pdu(peer)
    if raw is None or raw[0] != 2:
        print('association was not accepted (reply %r): nothing is served, property holds' % (raw,))
        return 0
    answers = parse_ac(raw)
    print('proposed : %r' % (contexts,))
    print('answered : %r' % (answers,))
    reported = set((cid, ts) for cid, res, ts in answers if res == 0)

    # the first answer says: context 1 accepted with Implicit VR LE.  Use it that way.
    peer.sendall(c_store_rq(1, CT, implicit=True))
    recv_pdu(peer)
    try:
        peer.sendall(struct.pack('>BBIBBBB', 7, 0, 4, 0, 0, 0, 0))
        peer.close()
    except socket.error:
        pass
    thread.join(10)

    acc = holder['acc']
    table = set((ctx.id, str(ctx.supported_ts)) for ctx in acc.accepted_contexts.values())
    handled = set((ctx.id, str(ctx.supported_ts)) for ctx in ae.stored)
    print('reported as accepted (id, ts)      : %r' % sorted(reported))
    print('acceptor serves      (id, ts)      : %r' % sorted(table))
    print('handler was called with (id, ts)   : %r' % sorted(handled))

    bad = False
    if reported != table:
        print('VIOLATION: contexts served are not exactly the contexts reported as accepted')
        bad = True
    if (1, IMP) in reported and handled and (1, IMP) not in handled:
        print('VIOLATION: context 1 was reported accepted with %s, a data set sent in that '
              'transfer syntax was handled (and filed) as %s' % (IMP, sorted(handled)))
        bad = True
    print('FAIL' if bad else 'PASS')
    return 1 if bad else 0


if __name__ == '__main__':
    sys.exit(main())
