#!/usr/bin/env python
"""C09 finding 1: the acceptor serves a SOP class it reported as REJECTED (or that was never
proposed) when the request arrives on some other, accepted presentation context.

usage: finding1_demo.py [repo_path]      exit 1 = property violated, exit 0 = not violated
"""
import socket
import struct
import sys
import threading
import warnings

REPO = sys.argv[1] if len(sys.argv) > 1 else '/tmp/wt/C09h'
sys.path.insert(0, REPO)
warnings.simplefilter('ignore')

import pynetdicom2  # noqa: E402
assert pynetdicom2.__file__.startswith(REPO), pynetdicom2.__file__
from pydicom.dataset import Dataset  # noqa: E402
from pynetdicom2 import applicationentity, asceprovider, dsutils, sopclass  # noqa: E402

VER = '1.2.840.10008.1.1'            # Verification
CT = '1.2.840.10008.5.1.4.1.1.2'     # CT Image Storage
IMP = '1.2.840.10008.1.2'            # Implicit VR LE  (supported by the AE)
JPG = '1.2.840.10008.1.2.4.50'       # JPEG baseline   (NOT supported by the AE)


# ---------------------------------------------------------------- raw peer (not pynetdicom2)
def item(item_type, body):
    return struct.pack('>BBH', item_type, 0, len(body)) + body


def pres_ctx(cid, abstract, ts_list):
    body = struct.pack('>BBBB', cid, 0, 0, 0) + item(0x30, abstract.encode())
    body += b''.join(item(0x40, ts.encode()) for ts in ts_list)
    return item(0x20, body)


def associate_rq(contexts):
    user = item(0x50, item(0x51, struct.pack('>I', 16384)) + item(0x52, b'1.2.3.4'))
    var = item(0x10, b'1.2.840.10008.3.1.1.1') + b''.join(pres_ctx(*c) for c in contexts) + user
    body = struct.pack('>HH16s16s32s', 1, 0, b'SRV'.ljust(16), b'CLI'.ljust(16), b'\0' * 32) + var
    return struct.pack('>BBI', 1, 0, len(body)) + body


def recv_pdu(sock, timeout=8):
    sock.settimeout(timeout)
    buf = b''
    try:
        while len(buf) < 6:
            data = sock.recv(6 - len(buf))
            if not data:
                return None
            buf += data
        length = struct.unpack('>I', buf[2:6])[0]
        while len(buf) < 6 + length:
            data = sock.recv(6 + length - len(buf))
            if not data:
                return None
            buf += data
    except (socket.timeout, socket.error):
        return None
    return buf


def parse_ac(raw):
    """-> list of (context id, result, transfer syntax) in the order of the reply"""
    assert raw is not None and raw[0] == 2, 'no A-ASSOCIATE-AC: %r' % (raw,)
    pos, res = 74, []
    while pos < len(raw):
        item_type, _, length = struct.unpack('>BBH', raw[pos:pos + 4])
        body = raw[pos + 4:pos + 4 + length]
        if item_type == 0x21:
            ts_len = struct.unpack('>H', body[6:8])[0]
            res.append((body[0], body[2], body[8:8 + ts_len].decode()))
        pos += 4 + length
    return res


def command(ds):
    raw = dsutils.encode(ds, True, True)
    grp = Dataset()
    grp.CommandGroupLength = len(raw)
    return dsutils.encode(grp, True, True) + raw


def p_data(cid, flag, data):
    pdv = struct.pack('>IBB', len(data) + 2, cid, flag) + data
    return struct.pack('>BBI', 4, 0, len(pdv)) + pdv


def c_store_rq(cid, sop_class):
    cmd = Dataset()
    cmd.AffectedSOPClassUID = sop_class
    cmd.CommandField = 0x0001
    cmd.MessageID = 7
    cmd.Priority = 0
    cmd.CommandDataSetType = 1
    cmd.AffectedSOPInstanceUID = '1.2.3.4.5'
    data = Dataset()
    data.SOPClassUID = sop_class
    data.SOPInstanceUID = '1.2.3.4.5'
    data.PatientName = 'X'
    return p_data(cid, 3, command(cmd)) + p_data(cid, 2, dsutils.encode(data, True, True))


def rsp_status(raw):
    """status of a DIMSE response carried by one P-DATA-TF PDU, None if it is something else"""
    if raw is None or raw[0] != 4:
        return None
    cmd = dsutils.decode(raw[12:], True, True)
    return cmd.CommandField, cmd.Status, raw[10]


# ---------------------------------------------------------------- the acceptor under test
class MyAE(applicationentity.AE):
    def __init__(self, *args, **kwargs):
        applicationentity.AE.__init__(self, *args, **kwargs)
        self.stored = []

    def on_receive_store(self, context, ds):
        self.stored.append(context)
        return 0


def run_case(title, contexts):
    ae = MyAE('SRV', 0, supported_ts=[IMP], bind_and_activate=False)   # no port is bound
    ae.add_scp(sopclass.verification_scp).add_scp(sopclass.storage_scp)
    ae.timeout = 4
    peer, local = socket.socketpair()

    def serve():
        try:
            asceprovider.AssociationAcceptor(local, ('peer', 0), ae, ae.max_pdu_length)
        except Exception:  # pylint: disable=broad-except
            pass
        finally:
            local.close()

    thread = threading.Thread(target=serve)
    thread.daemon = True
    thread.start()

    peer.sendall(associate_rq(contexts))
    answers = parse_ac(recv_pdu(peer))
    accepted = dict((cid, ts) for cid, res, ts in answers if res == 0)
    print('%s' % title)
    print('  proposed : %r' % (contexts,))
    print('  answered : %r' % (answers,))
    assert accepted == {1: IMP}, 'unexpected negotiation result (not what this demo is about)'

    # CT Image Storage was NOT reported as accepted on any context.  Use it anyway, on the
    # accepted Verification context 1.
    peer.sendall(c_store_rq(1, CT))
    status = rsp_status(recv_pdu(peer))
    try:
        peer.sendall(struct.pack('>BBIBBBB', 7, 0, 4, 0, 0, 0, 0))
        peer.close()
    except socket.error:
        pass
    thread.join(10)

    served = bool(ae.stored) or (status is not None and status[0] == 0x8001 and status[1] == 0)
    if served:
        print('  VIOLATION: C-STORE of %s was served: on_receive_store called with %r, '
              'C-STORE-RSP (command, status, context id) = %r' % (CT, ae.stored, status))
    else:
        print('  ok: not served (handler calls %r, response %r)' % (ae.stored, status))
    return served


def main():
    bad = False
    bad |= run_case('case A: CT Storage proposed and REJECTED (no common transfer syntax)',
                    [(1, VER, [IMP]), (3, CT, [JPG])])
    bad |= run_case('case B: CT Storage never proposed at all',
                    [(1, VER, [IMP])])
    if bad:
        print('FAIL: the acceptor serves an abstract syntax / presentation context it did not '
              'report as accepted')
        return 1
    print('PASS')
    return 0


if __name__ == '__main__':
    sys.exit(main())
