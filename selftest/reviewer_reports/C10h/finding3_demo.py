#!/usr/bin/env python
"""C10 finding 3 (environment dependent): an AE configured with maximum PDU length 2**32-1
asks the transport for a 4 GiB buffer on every read. Where a single 4 GiB allocation is refused
the upper layer provider thread dies on the first byte that arrives, i.e. the side that
announces 2**32-1 is not able to receive anything (not even the A-ASSOCIATE-RQ).

To make this reproducible on a big machine the demo limits its own address space to 3 GiB with
resource.setrlimit(RLIMIT_AS) - the same effect as `ulimit -v`, a host with less than 4 GiB of
RAM+swap (heuristic overcommit refuses the allocation), vm.overcommit_memory=2, or a 32-bit
interpreter (OverflowError instead of MemoryError).

The library is the acceptor, the peer is scripted on the other end of a socketpair, announces
16384, sends a C-ECHO-RQ and waits for the C-ECHO-RSP. Control: same thing with 65536.

exit 1 = works with 65536 but not with 2**32-1
exit 0 = works with both
"""
import os
import resource
import struct
import sys
import socket
import threading
import warnings

REPO = sys.argv[1] if len(sys.argv) > 1 else '/tmp/wt/C10h'
sys.path.insert(0, REPO)
warnings.simplefilter('ignore')

import pynetdicom2  # noqa: E402
assert pynetdicom2.__file__.startswith(REPO), pynetdicom2.__file__
from pynetdicom2 import applicationentity, asceprovider, dimsemessages, sopclass  # noqa: E402
from pydicom.uid import ImplicitVRLittleEndian  # noqa: E402

VERIFICATION = '1.2.840.10008.1.1'
TS = '1.2.840.10008.1.2'


def item(item_type, body):
    return struct.pack('>BBH', item_type, 0, len(body)) + body


def associate_rq(max_length):
    app = item(0x10, b'1.2.840.10008.3.1.1.1')
    ctx = item(0x20, struct.pack('>BBBB', 1, 0, 0, 0) + item(0x30, VERIFICATION.encode())
               + item(0x40, TS.encode()))
    user = item(0x50, struct.pack('>BBHI', 0x51, 0, 4, max_length) + item(0x52, b'1.2.3.4'))
    body = struct.pack('>HH16s16s32s', 1, 0, b'SCP'.ljust(16), b'PEER'.ljust(16), b'\0' * 32) \
        + app + ctx + user
    return struct.pack('>BBI', 1, 0, len(body)) + body


def recv_exact(sock, count):
    buf = b''
    while len(buf) < count:
        data = sock.recv(count - len(buf))
        if not data:
            raise EOFError('connection closed')
        buf += data
    return buf


def recv_pdu(sock):
    pdu_type, _, length = struct.unpack('>BBI', recv_exact(sock, 6))
    return pdu_type, length, recv_exact(sock, length)


def echo(local_max):
    a, b = socket.socketpair()
    ae = applicationentity.AE('SCP', 0, supported_ts=[ImplicitVRLittleEndian],
                              max_pdu_length=local_max, bind_and_activate=False)
    ae.add_scp(sopclass.verification_scp)

    def acceptor():
        try:
            asceprovider.AssociationAcceptor(a, ('peer', 0), ae, max_pdu_length=local_max)
        except Exception:  # pylint: disable=broad-except
            pass
    thread = threading.Thread(target=acceptor)
    thread.daemon = True
    thread.start()
    b.settimeout(5)
    try:
        b.sendall(associate_rq(16384))
        pdu_type, _, body = recv_pdu(b)
        if pdu_type != 2:
            return 'no A-ASSOCIATE-AC, PDU type %d' % pdu_type
        announced = struct.unpack('>I', body[body.index(b'\x51\x00\x00\x04') + 4:][:4])[0]
        rq = dimsemessages.CEchoRQMessage()
        rq.message_id = 1
        rq.sop_class_uid = VERIFICATION
        rq.set_length()
        for pdata in rq.encode(1, 16384):
            b.sendall(pdata.encode())
        pdu_type, _, _ = recv_pdu(b)
        if pdu_type != 4:
            return 'announced %d, but no C-ECHO-RSP: PDU type %d' % (announced, pdu_type)
        b.sendall(struct.pack('>BBII', 5, 0, 4, 0))
        recv_pdu(b)
        return None
    except (socket.timeout, EOFError, socket.error) as exc:
        return 'no answer from the library: %r' % exc
    finally:
        b.close()


def main():
    limit = 3 << 30
    resource.setrlimit(resource.RLIMIT_AS, (limit, limit))
    sys.stderr = open(os.devnull, 'w')  # traceback of the dying provider thread
    control = echo(65536)
    print('configured maximum 65536     : %s' % (control or 'association + C-ECHO ok'))
    huge = echo(2 ** 32 - 1)
    print('configured maximum 4294967295: %s' % (huge or 'association + C-ECHO ok'))
    if control is None and huge is not None:
        print('VIOLATION of C10: the side configured with (and announcing) 2**32-1 is not prepared '
              'to receive: DULServiceProvider._check_incoming_pdu() calls '
              'socket.recv(4294967295), the 4 GiB buffer can not be allocated, MemoryError is '
              'not handled and the provider thread dies.')
        return 1
    if control is not None:
        print('control failed - environment problem')
        return 2
    return 0


if __name__ == '__main__':
    code = main()
    sys.stdout.flush()
    os._exit(code)
