#!/usr/bin/env python
"""C10 finding 1: with a small negotiated maximum PDU length a message of ordinary size can
not be sent any more (library <-> library, default settings).

Two library AEs (requester: ClientAE + storage_scu, acceptor: AE + storage_scp), both
configured with max_pdu_length=128 (a value of the property's grid), connected through a
socket.socketpair(), default timeout (15 s). A 45 KB image is stored with C-STORE.
Control run: the same transfer with max_pdu_length=65536.

exit 1 = the property is violated (transfer works with 65536, fails with 128)
exit 0 = both transfers succeed
"""
import os
import sys
import socket
import threading
import time
import warnings

REPO = sys.argv[1] if len(sys.argv) > 1 else '/tmp/wt/C10h'
sys.path.insert(0, REPO)
warnings.simplefilter('ignore')

import pynetdicom2  # noqa: E402
assert pynetdicom2.__file__.startswith(REPO), pynetdicom2.__file__
from pynetdicom2 import applicationentity, asceprovider, fsm, sopclass, statuses  # noqa: E402
from pydicom.dataset import Dataset  # noqa: E402
from pydicom.uid import ImplicitVRLittleEndian  # noqa: E402

CT = '1.2.840.10008.5.1.4.1.1.2'


class SocketShim(object):
    """stands in for the `socket` module inside pynetdicom2.fsm: the 'TCP connection' the
    requester opens is one end of a socketpair (no ports are used)"""
    error = socket.error
    AF_INET = socket.AF_INET
    SOCK_STREAM = socket.SOCK_STREAM

    def __init__(self):
        self.pending = []

    def socket(self, *_):
        real = self.pending.pop(0)

        class Wrapper(object):
            def connect(self, address):
                pass

            def __getattr__(self, name):
                return getattr(real, name)
        return Wrapper()


SHIM = SocketShim()
fsm.socket = SHIM


class CountingSocket(object):
    """acceptor side socket wrapper, records arrival of P-DATA bytes"""
    def __init__(self, sock):
        self._s = sock
        self.first = None
        self.last = None
        self.total = 0

    def recv(self, n):
        data = self._s.recv(n)
        if data:
            now = time.time()
            self.first = self.first or now
            self.last = now
            self.total += len(data)
        return data

    def __getattr__(self, name):
        return getattr(self._s, name)


class SCP(applicationentity.AE):
    stored = None

    def on_receive_store(self, context, ds):
        ds.seek(0, 2)
        SCP.stored = ds.tell()
        return statuses.SUCCESS


def image(nbytes):
    ds = Dataset()
    ds.SOPClassUID = CT
    ds.SOPInstanceUID = '1.2.3.4.5.6.7'
    ds.PatientName = 'C10^DEMO'
    ds.Rows = 150
    ds.Columns = nbytes // 300
    ds.BitsAllocated = 16
    ds.PixelData = b'\x55' * nbytes
    ds.is_little_endian = True
    ds.is_implicit_VR = True
    return ds


def transfer(max_pdu_length, nbytes):
    """one association, one C-STORE; everything else is library default (timeout = 15 s)"""
    a, b = socket.socketpair()
    scp = SCP('SCP', 0, supported_ts=[ImplicitVRLittleEndian],
              max_pdu_length=max_pdu_length, bind_and_activate=False)
    scp.add_scp(sopclass.storage_scp)
    scu = applicationentity.ClientAE('SCU', supported_ts=[ImplicitVRLittleEndian],
                                     max_pdu_length=max_pdu_length)
    scu.add_scu(sopclass.storage_scu, [CT])
    SCP.stored = None
    counting = CountingSocket(a)
    acceptor = threading.Thread(
        target=lambda: asceprovider.AssociationAcceptor(counting, ('peer', 0), scp,
                                                        max_pdu_length=max_pdu_length))
    acceptor.daemon = True
    acceptor.start()
    SHIM.pending.append(b)
    started = time.time()
    try:
        with scu.request_association({'aet': 'SCP', 'address': 'peer', 'port': 0}) as assoc:
            negotiated = assoc.max_pdu_length
            status = assoc.get_scu(CT)(image(nbytes), 1)
        result = 'status %s' % status
        ok = status.is_success
    except Exception as exc:  # pylint: disable=broad-except
        negotiated = max_pdu_length
        result = 'FAILED with %r' % exc
        ok = False
    elapsed = time.time() - started
    rate = ''
    if counting.first and counting.last and counting.last > counting.first:
        rate = ', acceptor saw %d bytes arriving at %.0f bytes/s' % (
            counting.total, counting.total / (counting.last - counting.first))
    print('max_pdu_length=%-6d (outgoing limit %d), %d byte image, timeout %ss: %s after %.1f s%s'
          % (max_pdu_length, negotiated, nbytes, scu.timeout, result, elapsed, rate))
    sys.stdout.flush()
    return ok


def main():
    size = 45000
    ok_big = transfer(65536, size)
    ok_small = transfer(128, size)
    if ok_big and not ok_small:
        print('VIOLATION of C10: with both sides announcing 128 the library is not able to send a '
              '%d byte message that it sends without problems when 65536 is announced; outgoing '
              'P-DATA-TF PDUs are paced at one per 50 ms, so the message needs longer than '
              'the (default) timeout of the library on either side.' % size)
        return 1
    if not ok_big:
        print('control transfer failed - environment problem?')
        return 2
    print('both transfers succeeded')
    return 0


if __name__ == '__main__':
    code = main()
    sys.stdout.flush()
    os._exit(code)  # provider threads of the library are not daemon threads
