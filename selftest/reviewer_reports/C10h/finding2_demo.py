#!/usr/bin/env python
"""C10 finding 2: a peer that announces a maximum length of 1..5 gets a P-DATA-TF PDU that is
(much) longer than what it announced (whole data set in one PDU, and no command set at all).

The library is the association requester (configured maximum 16384). The peer is a scripted
non-pynetdicom2 acceptor on the other end of a socket.socketpair(); its A-ASSOCIATE-AC carries
Maximum Length Received = N for N in 1..6. Then the library user sends a C-STORE-RQ

  (a) with the data set given as a file-like object (io.BytesIO / SpooledTemporaryFile),
  (b) with the data set given as bytes (control: the association is aborted, as for N = 6),

and the peer records every PDU that arrives in the next 1.5 s.

exit 1 = a P-DATA-TF PDU longer than the announced maximum arrived, or a message vanished
         without any error (neither PDUs nor A-ABORT)
exit 0 = otherwise (for every N the library either sent only PDUs <= N or aborted)
"""
import io
import os
import struct
import sys
import socket
import tempfile
import threading
import time
import warnings

REPO = sys.argv[1] if len(sys.argv) > 1 else '/tmp/wt/C10h'
sys.path.insert(0, REPO)
warnings.simplefilter('ignore')

import pynetdicom2  # noqa: E402
assert pynetdicom2.__file__.startswith(REPO), pynetdicom2.__file__
from pynetdicom2 import applicationentity, dimsemessages, fsm, sopclass  # noqa: E402
from pydicom.uid import ImplicitVRLittleEndian  # noqa: E402

CT = '1.2.840.10008.5.1.4.1.1.2'
TS = '1.2.840.10008.1.2'


class SocketShim(object):
    """stands in for the `socket` module inside pynetdicom2.fsm (no TCP ports are used)"""
    error = socket.error
    AF_INET = socket.AF_INET
    SOCK_STREAM = socket.SOCK_STREAM

    def __init__(self):
        self.pending = []

    def socket(self, *_):
        real = self.pending.pop(0)

        class Wrapper(object):
            def connect(self, address):
                pass

            def __getattr__(self, name):
                return getattr(real, name)
        return Wrapper()


SHIM = SocketShim()
fsm.socket = SHIM


def item(item_type, body):
    return struct.pack('>BBH', item_type, 0, len(body)) + body


def associate_ac(pc_id, max_length):
    app = item(0x10, b'1.2.840.10008.3.1.1.1')
    ctx = item(0x21, struct.pack('>BBBB', pc_id, 0, 0, 0) + item(0x40, TS.encode()))
    user = item(0x50, struct.pack('>BBHI', 0x51, 0, 4, max_length) + item(0x52, b'1.2.3.4'))
    body = struct.pack('>HH16s16s32s', 1, 0, b'PEER'.ljust(16), b'SCU'.ljust(16), b'\0' * 32) \
        + app + ctx + user
    return struct.pack('>BBI', 2, 0, len(body)) + body


def recv_exact(sock, count):
    buf = b''
    while len(buf) < count:
        data = sock.recv(count - len(buf))
        if not data:
            raise EOFError()
        buf += data
    return buf


def recv_pdu(sock):
    pdu_type, _, length = struct.unpack('>BBI', recv_exact(sock, 6))
    return pdu_type, length, recv_exact(sock, length)


def scenario(announced, kind):
    """returns list of (pdu type, pdu length) the peer got after association establishment"""
    a, b = socket.socketpair()
    seen = []
    ready = threading.Event()

    def peer():
        try:
            b.settimeout(10)
            _, _, body = recv_pdu(b)  # A-ASSOCIATE-RQ
            # first proposed presentation context: item 0x20 follows application context item
            pos = 68
            pos += 4 + struct.unpack('>H', body[pos + 2:pos + 4])[0]
            pc_id = body[pos + 4] if isinstance(body[pos + 4], int) else ord(body[pos + 4])
            b.sendall(associate_ac(pc_id, announced))
            ready.set()
            b.settimeout(1.5)
            while True:
                pdu_type, length, _ = recv_pdu(b)
                seen.append((pdu_type, length))
                if pdu_type == 7:
                    break
        except (socket.timeout, EOFError, socket.error):
            pass
        finally:
            ready.set()

    thread = threading.Thread(target=peer)
    thread.daemon = True
    thread.start()

    ae = applicationentity.ClientAE('SCU', supported_ts=[ImplicitVRLittleEndian],
                                    max_pdu_length=16384)
    ae.add_scu(sopclass.storage_scu, [CT])
    ae.timeout = 5
    SHIM.pending.append(a)
    payload = b'\xe0\x7f\x10\x00' + struct.pack('<I', 1000) + b'\x11' * 1000  # PixelData
    error = None
    try:
        with ae.request_association({'aet': 'PEER', 'address': 'x', 'port': 0}) as assoc:
            limit = assoc.max_pdu_length
            pc_id, _ = assoc.sop_classes_as_scu[CT]
            msg = dimsemessages.CStoreRQMessage()
            msg.message_id = 1
            msg.priority = dimsemessages.PRIORITY_MEDIUM
            msg.sop_class_uid = CT
            msg.affected_sop_instance_uid = '1.2.3.4'
            msg.move_originator_aet = 'SCU'
            msg.move_originator_message_id = 1
            if kind == 'BytesIO':
                msg.data_set = io.BytesIO(payload)
            elif kind == 'SpooledTemporaryFile':
                spooled = tempfile.SpooledTemporaryFile()
                spooled.write(payload)
                spooled.seek(0)
                msg.data_set = spooled
            else:
                msg.data_set = payload
            assoc.send(msg, pc_id)
            thread.join(4)
            # the user of the library learns about a problem only through receive()
            try:
                assoc.dul.receive(0.2)
                error = 'association aborted'
            except Exception:  # pylint: disable=broad-except
                error = None
            assoc.association_established = False  # leave quietly: peer is gone
    except Exception as exc:  # pylint: disable=broad-except
        error = repr(exc)
        limit = None
    return limit, seen, error


def main():
    violated = False
    for announced in (6, 5, 3, 1):
        for kind in ('BytesIO', 'SpooledTemporaryFile', 'bytes'):
            limit, seen, error = scenario(announced, kind)
            pdata = [length for pdu_type, length in seen if pdu_type == 4]
            aborted = any(pdu_type == 7 for pdu_type, _ in seen)
            verdict = 'ok (association aborted, nothing longer than announced)'
            if pdata and max(pdata) > announced:
                verdict = 'VIOLATION: P-DATA-TF PDU of length %d sent to a peer that announced %d' \
                    % (max(pdata), announced)
                violated = True
            elif not pdata and not aborted and not error:
                verdict = 'VIOLATION: message silently discarded (no PDU, no A-ABORT, no error ' \
                    'for the user; association still looks established)'
                violated = True
            print('peer announces %d, data set as %-20s: outgoing limit %r, peer got %r -> %s'
                  % (announced, kind, limit, seen, verdict))
            sys.stdout.flush()
    return 1 if violated else 0


if __name__ == '__main__':
    code = main()
    sys.stdout.flush()
    os._exit(code)
