"""C15 finding 1: a C-STORE whose data set needs more than ~300 P-DATA-TF
fragments never reaches the handler with the library's default settings.

The sending DUL provider waits 50 ms in select() before every outgoing PDU
(dulprovider._check_network), so at most ~20 fragments per second leave the
sender, while both the acceptor (Association.receive in _loop) and the sender
(storage_scu -> asce.receive) give up after AE.timeout = 15 s measured over the
WHOLE message.  Here: 360000-byte data set, requester max PDU 1024 (the value
the repository's own tests use), acceptor max PDU 65536 -> 354 fragments.
"""
import os
import sys
import tempfile
import time
import warnings

REPO = sys.argv[1] if len(sys.argv) > 1 else '/tmp/wt/C15h'
sys.path.insert(0, REPO)
warnings.simplefilter('ignore')

import pynetdicom2  # noqa: E402
assert pynetdicom2.__file__.startswith(REPO), pynetdicom2.__file__

import pydicom  # noqa: E402
from pydicom import uid  # noqa: E402
from pydicom.dataset import Dataset  # noqa: E402
from pynetdicom2 import applicationentity, sopclass, statuses, dsutils, StorageAE  # noqa: E402

CT = '1.2.840.10008.5.1.4.1.1.2'
TS = uid.ExplicitVRLittleEndian
SIZE = 360000
CLIENT_PDU = 1024
SERVER_PDU = 65536

received = []


class Server(StorageAE):
    def on_receive_store(self, context, ds):
        received.append((context, ds.read()))
        return statuses.SUCCESS


def main():
    storage_dir = tempfile.mkdtemp(prefix='c15h_f1_')
    server = Server(storage_dir, 'SRV', 0, max_pdu_length=SERVER_PDU)  # port 0: ephemeral
    server.add_scp(sopclass.storage_scp)
    port = server.server_address[1]

    ds = Dataset()
    ds.SOPClassUID = CT
    ds.SOPInstanceUID = '1.2.826.0.1.3680043.8.498.15.1'
    ds.PatientName = 'Finding^One'
    ds.add_new(0x7fe00010, 'OB', bytes(bytearray(i % 251 for i in range(SIZE))))
    expected = dsutils.encode(ds, TS.is_implicit_VR, TS.is_little_endian)
    fragments = -(-len(expected) // (min(CLIENT_PDU, SERVER_PDU) - 6))

    client = applicationentity.ClientAE('CLI', [TS], max_pdu_length=CLIENT_PDU)
    client.add_scu(sopclass.storage_scu, [CT])
    print('default timeouts: client %s s, server %s s; data set %d bytes = %d fragments'
          % (client.timeout, server.timeout, len(expected), fragments))

    problems = []
    status = None
    started = time.time()
    with server:
        try:
            with client.request_association(
                    dict(address='127.0.0.1', port=port, aet='SRV')) as assoc:
                status = assoc.get_scu(CT)(ds, 1)
        except Exception as exc:  # pylint: disable=broad-except
            problems.append('storage_scu raised %r after %.1f s instead of returning the '
                            'handler status' % (exc, time.time() - started))
        time.sleep(1.0)
    elapsed = time.time() - started
    print('elapsed %.1f s' % elapsed)

    if status is not None and int(status) != 0:
        problems.append('sender got status %r, handler returned SUCCESS' % (status,))
    if len(received) != 1:
        problems.append('handler was called %d times (expected 1)' % len(received))
    elif not received[0][1].endswith(expected):
        problems.append('handler received different content')

    for name in sorted(os.listdir(storage_dir)):
        path = os.path.join(storage_dir, name)
        try:
            stored = pydicom.dcmread(path)
            ok = stored.PixelData == ds.PixelData
        except Exception as exc:  # pylint: disable=broad-except
            ok = False
            print('  %s: unreadable (%r)' % (name, exc))
        if not ok:
            problems.append('storage directory contains truncated/unreadable file %s '
                            '(%d bytes, data set alone is %d bytes)'
                            % (name, os.path.getsize(path), len(expected)))

    if problems:
        print('PROPERTY C15 VIOLATED:')
        for p in problems:
            print(' -', p)
        return 1
    print('ok: data set delivered intact, status SUCCESS')
    return 0


if __name__ == '__main__':
    rc = main()
    sys.stdout.flush()
    os._exit(rc)  # do not wait for daemon/provider threads
