"""C15 finding 3: a data set sent FROM A FILE is put on the wire in the file's
own transfer syntax, whatever transfer syntax was negotiated for the
presentation context, and is labelled (handler context, file meta of the stored
file) with the negotiated one.

Client and server both run with the library's DEFAULT transfer syntax list
(implicit LE, explicit LE, explicit BE).  The same data set is written to three
Part-10 files, one per transfer syntax, and each file is stored over one
association.  Only the file that happens to be in the negotiated syntax arrives
intact; the other two reach the handler (and the storage directory) as bytes
that do not decode to the sent data set.  The same data set sent from memory is
fine for every syntax.
"""
import os
import sys
import tempfile
import time
import warnings

REPO = sys.argv[1] if len(sys.argv) > 1 else '/tmp/wt/C15h'
sys.path.insert(0, REPO)
warnings.simplefilter('ignore')

import pynetdicom2  # noqa: E402
assert pynetdicom2.__file__.startswith(REPO), pynetdicom2.__file__

import pydicom  # noqa: E402
from pydicom import uid  # noqa: E402
from pydicom.dataset import Dataset, FileMetaDataset  # noqa: E402
from pydicom.sequence import Sequence  # noqa: E402
from pynetdicom2 import applicationentity, sopclass, statuses, dsutils, StorageAE  # noqa: E402

CT = '1.2.840.10008.5.1.4.1.1.2'
SYNTAXES = [uid.ImplicitVRLittleEndian, uid.ExplicitVRLittleEndian, uid.ExplicitVRBigEndian]

received = []


def same(a, b):
    enc = lambda d: dsutils.encode(d, False, True)  # noqa: E731
    return enc(a) == enc(b)


class Server(StorageAE):
    def on_receive_store(self, context, ds):
        try:
            got = pydicom.dcmread(ds)
            got.PatientName, got.Rows  # force decoding
            for item in got.get('ReferencedStudySequence', []):
                item.ReferencedSOPInstanceUID
            received.append((context, got, None))
        except Exception as exc:  # pylint: disable=broad-except
            received.append((context, None, exc))
        return statuses.SUCCESS


def make(instance):
    ds = Dataset()
    ds.SOPClassUID = CT
    ds.SOPInstanceUID = instance
    ds.PatientName = 'Finding^Three'
    ds.PatientID = 'odd'
    ds.Rows = 513
    ds.Columns = 258
    item = Dataset()
    item.ReferencedSOPClassUID = CT
    item.ReferencedSOPInstanceUID = '1.2.3.4.5'
    ds.ReferencedStudySequence = Sequence([item])
    return ds


def main():
    storage_dir = tempfile.mkdtemp(prefix='c15h_f3_dst_')
    src_dir = tempfile.mkdtemp(prefix='c15h_f3_src_')
    server = Server(storage_dir, 'SRV', 0)          # default transfer syntaxes
    server.add_scp(sopclass.storage_scp)
    port = server.server_address[1]
    client = applicationentity.ClientAE('CLI')       # default transfer syntaxes
    client.add_scu(sopclass.storage_scu, [CT])

    sources = []
    for n, ts in enumerate(SYNTAXES):
        ds = make('1.2.826.0.1.3680043.8.498.15.3.%d' % (n + 1))
        ds.file_meta = FileMetaDataset()
        ds.file_meta.MediaStorageSOPClassUID = CT
        ds.file_meta.MediaStorageSOPInstanceUID = ds.SOPInstanceUID
        ds.file_meta.TransferSyntaxUID = ts
        ds.is_little_endian = ts.is_little_endian
        ds.is_implicit_VR = ts.is_implicit_VR
        name = os.path.join(src_dir, 'src%d.dcm' % n)
        pydicom.dcmwrite(name, ds, write_like_original=False)
        assert same(pydicom.dcmread(name), make(ds.SOPInstanceUID))
        sources.append((ts, name, make(ds.SOPInstanceUID)))

    problems = []
    negotiated = None
    with server:
        try:
            with client.request_association(
                    dict(address='127.0.0.1', port=port, aet='SRV')) as assoc:
                store = assoc.get_scu(CT)
                for n, (ts, name, ds) in enumerate(sources):
                    before = len(received)
                    status = store(name, n + 1)
                    if len(received) != before + 1:
                        problems.append('file in %s: handler not called' % ts.name)
                        continue
                    ctx, got, exc = received[-1]
                    negotiated = ctx.supported_ts
                    if exc is not None:
                        problems.append('file in %s sent over context negotiated as %s: handler '
                                        'cannot decode what it received: %r'
                                        % (ts.name, negotiated.name, exc))
                    elif not same(got, ds):
                        problems.append('file in %s sent over context negotiated as %s: handler '
                                        'received a different data set (Rows %r instead of %r, '
                                        'PatientName %r)'
                                        % (ts.name, negotiated.name, got.get('Rows'), ds.Rows,
                                           got.get('PatientName')))
                # control: the same data set from memory
                mem = make('1.2.826.0.1.3680043.8.498.15.3.9')
                store(mem, 9)
                ctx, got, exc = received[-1]
                if exc is not None or not same(got, mem):
                    problems.append('in-memory source also damaged')
        except Exception as exc:  # pylint: disable=broad-except
            problems.append('store raised %r' % (exc,))
        time.sleep(0.3)
    print('negotiated transfer syntax:', negotiated.name if negotiated else None)

    for name in sorted(os.listdir(storage_dir)):
        path = os.path.join(storage_dir, name)
        inst = name.split('.dcm')[0]
        try:
            stored = pydicom.dcmread(path)
            ok = same(stored, make(inst))
        except Exception:  # pylint: disable=broad-except
            ok = False
        if not ok:
            problems.append('stored file %s does not read back as the sent instance' % name)

    if problems:
        print('PROPERTY C15 VIOLATED:')
        for p in problems:
            print(' -', p)
        return 1
    print('ok: all file sources delivered intact')
    return 0


if __name__ == '__main__':
    rc = main()
    sys.stdout.flush()
    os._exit(rc)
