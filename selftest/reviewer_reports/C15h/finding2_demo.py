"""C15 finding 2: repeated stores of the same SOP Instance UID into the
directory-backed storage entity stop working after a few dozen repetitions.

pynetdicom2._get_storage_file builds the alternative name from the PREVIOUS
alternative name ('X.dcm', 'X.dcm_1', 'X.dcm_1_2', 'X.dcm_1_2_3', ...), so the
file name grows with every repetition.  With a legal 64-character UID the name
exceeds NAME_MAX (255) at the 67th store: os.open fails with ENAMETOOLONG in
the provider thread, the association is aborted, the handler never sees the
instance and the sender gets no status.
"""
import os
import sys
import tempfile
import time
import warnings

REPO = sys.argv[1] if len(sys.argv) > 1 else '/tmp/wt/C15h'
sys.path.insert(0, REPO)
warnings.simplefilter('ignore')

import pynetdicom2  # noqa: E402
assert pynetdicom2.__file__.startswith(REPO), pynetdicom2.__file__

import pydicom  # noqa: E402
from pydicom import uid  # noqa: E402
from pydicom.dataset import Dataset  # noqa: E402
from pynetdicom2 import applicationentity, sopclass, statuses, StorageAE  # noqa: E402

CT = '1.2.840.10008.5.1.4.1.1.2'
TS = uid.ImplicitVRLittleEndian
REPEATS = 80
INSTANCE = '1.2.826.0.1.3680043.8.498.' + '1234567890' * 3 + '.1234567'
assert len(INSTANCE) == 64

received = []


class Server(StorageAE):
    def on_receive_store(self, context, ds):
        received.append(pydicom.dcmread(ds).PatientID)
        return statuses.SUCCESS


def main():
    storage_dir = tempfile.mkdtemp(prefix='c15h_f2_')
    server = Server(storage_dir, 'SRV', 0)
    server.add_scp(sopclass.storage_scp)
    port = server.server_address[1]
    client = applicationentity.ClientAE('CLI', [TS]).add_scu(sopclass.storage_scu, [CT])

    problems = []
    done = 0
    started = time.time()
    with server:
        try:
            with client.request_association(
                    dict(address='127.0.0.1', port=port, aet='SRV')) as assoc:
                store = assoc.get_scu(CT)
                for i in range(REPEATS):
                    ds = Dataset()
                    ds.SOPClassUID = CT
                    ds.SOPInstanceUID = INSTANCE
                    ds.PatientID = 'copy-%d' % i
                    status = store(ds, i + 1)
                    if int(status) != 0:
                        problems.append('store #%d: sender got %r, handler returned SUCCESS'
                                        % (i + 1, status))
                        break
                    done += 1
        except Exception as exc:  # pylint: disable=broad-except
            problems.append('store #%d of the same instance UID raised %r '
                            '(%d earlier stores were fine)' % (done + 1, exc, done))
        time.sleep(0.5)
    print('elapsed %.1f s, %d stores completed, handler called %d times'
          % (time.time() - started, done, len(received)))
    names = sorted(os.listdir(storage_dir), key=len)
    print('%d files in the storage directory; longest name has %d characters:'
          % (len(names), len(names[-1]) if names else 0))
    if names:
        print('  ' + names[-1])

    if len(received) != REPEATS:
        problems.append('handler received %d instances, %d were sent' % (len(received), REPEATS))
    if len(names) != len(received):
        problems.append('%d files for %d received instances' % (len(names), len(received)))
    ids = set()
    for name in names:
        ids.add(pydicom.dcmread(os.path.join(storage_dir, name)).PatientID)
    if ids != set(received):
        problems.append('stored files do not correspond to received instances')

    if problems:
        print('PROPERTY C15 VIOLATED:')
        for p in problems:
            print(' -', p)
        return 1
    print('ok: every repetition stored in its own file')
    return 0


if __name__ == '__main__':
    rc = main()
    sys.stdout.flush()
    os._exit(rc)
