#!/usr/bin/env python
"""C19 / finding 2: a C-STORE request that follows a pending C-GET response in the same
P-DATA-TF PDU is lost: it is neither answered nor handed to the caller.

usage: finding2_demo.py [repository path]      exit 1 = property violated, 0 = holds

The C-GET user is the library (ClientAE + qr_get_scu) talking over a socketpair to a hand-written
C-GET provider.  The provider sends, in ONE P-DATA-TF PDU, three presentation-data-value items:
    1. command set of a pending C-GET-RSP            (context of the C-GET, last fragment)
    2. command set of the C-STORE-RQ sub-operation   (storage context, last fragment)
    3. data set of that C-STORE-RQ                   (storage context, last fragment)
A control run sends the same two messages in separate PDUs.
"""
import sys
import os

REPO = sys.argv[1] if len(sys.argv) > 1 else '/tmp/wt/C19h'
sys.path.insert(0, REPO)

import socket as real_socket
import struct
import threading
import warnings
warnings.simplefilter('ignore')

import pynetdicom2
assert pynetdicom2.__file__.startswith(REPO), pynetdicom2.__file__
from pynetdicom2 import (fsm, pdu, dimsemessages as dm, dsutils, asceprovider, applicationentity,
                         sopclass as sc, statuses)
from pydicom import uid as puid
from pydicom.dataset import Dataset

CT = '1.2.840.10008.5.1.4.1.1.2'
IMPL = '1.2.840.10008.1.2'


class _Sock(object):
    def __init__(self, shim):
        self._shim = shim
        self._s = None

    def connect(self, addr):
        a, b = real_socket.socketpair()
        self._s = a
        t = threading.Thread(target=self._shim.peers[addr], args=(b,))
        t.daemon = True
        t.start()

    def __getattr__(self, name):
        return getattr(self._s, name)


class Shim(object):
    AF_INET = real_socket.AF_INET
    SOCK_STREAM = real_socket.SOCK_STREAM
    error = real_socket.error

    def __init__(self):
        self.peers = {}

    def socket(self, *a, **k):
        return _Sock(self)


shim = Shim()
fsm.socket = shim


def read_pdu(sock):
    def read(n):
        buf = b''
        while len(buf) < n:
            c = sock.recv(n - len(buf))
            if not c:
                return None
            buf += c
        return buf
    hdr = read(6)
    if hdr is None:
        return None
    body = read(struct.unpack('>L', hdr[2:6])[0])
    return None if body is None else hdr + body


def pdvs(msg, pc_id):
    """presentation-data-value items of a message (one per fragment)"""
    msg.set_length()
    items = []
    for p in msg.encode(pc_id, 16384):
        items.extend(p.data_value_items)
    return items


def recv_msg(sock, contexts):
    dec = fsm.DIMSEDecoder(contexts, set(), None)
    while True:
        raw = read_pdu(sock)
        if raw is None:
            return None
        if bytearray(raw)[0] != 4:
            return ('pdu', bytearray(raw)[0])
        dec.process(pdu.PDataTfPDU.decode(raw))
        if not dec.receiving:
            return ('msg', dec.msg, dec.pc_id)


def run(one_pdu):
    seen_by_provider = []

    def provider(sock):
        try:
            rq = pdu.AAssociateRqPDU.decode(read_pdu(sock))
            contexts = {}
            items = [rq.variable_items[0]]
            for it in rq.variable_items[1:-1]:
                items.append(pdu.PresentationContextItemAC(it.context_id, 0, pdu.TransferSyntaxSubItem(IMPL)))
                contexts[it.context_id] = asceprovider.PContextDef(
                    it.context_id, it.abs_sub_item.name, puid.UID(IMPL))
            items.append(rq.variable_items[-1])
            sock.sendall(pdu.AAssociateAcPDU(rq.called_ae_title, rq.calling_ae_title, items).encode())
            store_pc = [k for k, v in contexts.items() if v.sop_class == CT][0]

            _, get_rq, get_pc = recv_msg(sock, contexts)

            def get_rsp(status, remaining, completed):
                rsp = dm.CGetRSPMessage()
                rsp.message_id_being_responded_to = get_rq.message_id
                rsp.sop_class_uid = get_rq.sop_class_uid
                rsp.status = status
                if remaining is None:
                    del rsp.command_set[(0x0000, 0x1020)]
                else:
                    rsp.num_of_remaining_sub_ops = remaining
                rsp.num_of_completed_sub_ops = completed
                rsp.num_of_failed_sub_ops = 0
                rsp.num_of_warning_sub_ops = 0
                return rsp

            store = dm.CStoreRQMessage()
            store.message_id = 5
            store.priority = 0
            store.sop_class_uid = CT
            store.affected_sop_instance_uid = '1.2.3.1'
            del store.command_set[(0x0000, 0x1030)]
            del store.command_set[(0x0000, 0x1031)]
            ds = Dataset()
            ds.SOPClassUID = CT
            ds.SOPInstanceUID = '1.2.3.1'
            ds.PatientName = 'Name^1'
            store.data_set = dsutils.encode(ds, True, True)

            pending = pdvs(get_rsp(0xFF00, 1, 0), get_pc)
            sub_operation = pdvs(store, store_pc)
            if one_pdu:
                sock.sendall(pdu.PDataTfPDU(pending + sub_operation).encode())
            else:
                sock.sendall(pdu.PDataTfPDU(pending).encode())
                sock.sendall(pdu.PDataTfPDU(sub_operation).encode())

            r = recv_msg(sock, contexts)
            if r is None or r[0] != 'msg':
                seen_by_provider.append(r)
                return
            seen_by_provider.append(('C-STORE-RSP', r[1].message_id_being_responded_to, r[1].status, r[2]))
            sock.sendall(pdu.PDataTfPDU(pdvs(get_rsp(0x0000, None, 1), get_pc)).encode())
            r = recv_msg(sock, contexts)
            if r and r[0] == 'pdu' and r[1] == 5:
                sock.sendall(pdu.AReleaseRpPDU().encode())
        finally:
            sock.close()

    shim.peers[('provider', 104)] = provider

    class User(applicationentity.ClientAE):
        def on_receive_store(self, context, ds):
            return statuses.SUCCESS

    ae = User('ME', supported_ts=[IMPL])
    ae.timeout = 4
    ae.add_scu(sc.qr_get_scu).add_scu(sc.storage_scu, [CT])
    handed = []
    error = None
    try:
        with ae.request_association({'aet': 'PROVIDER', 'address': 'provider', 'port': 104}) as assoc:
            service = assoc.get_scu(sc.PATIENT_ROOT_GET_SOP_CLASS)
            q = Dataset()
            q.QueryRetrieveLevel = 'PATIENT'
            q.PatientID = 'X'
            for _, ds in service(q, 1):
                handed.append(str(ds.SOPInstanceUID))
    except Exception as exc:  # pylint: disable=broad-except
        error = repr(exc)
    return handed, seen_by_provider, error


def main():
    violated = False
    for one_pdu in (False, True):
        handed, seen, error = run(one_pdu)
        print('--- pending C-GET-RSP and C-STORE-RQ in %s' % ('ONE P-DATA-TF PDU' if one_pdu else 'separate PDUs'))
        print('    instances handed to the caller: %s' % handed)
        print('    what the provider got back    : %s' % seen)
        print('    exception in the C-GET user   : %s' % error)
        ok = (handed == ['1.2.3.1'] and len(seen) == 1 and seen[0][:3] == ('C-STORE-RSP', 5, 0) and error is None)
        if not ok:
            violated = True
            print('    VIOLATION: the C-STORE request was not answered exactly once / instance not handed over')
    if violated:
        print('C19 VIOLATED')
        return 1
    print('C19 holds')
    return 0


if __name__ == '__main__':
    code = main()
    sys.stdout.flush()
    os._exit(code)
