#!/usr/bin/env python
"""C19 / finding 3: C-GET user decodes (and labels) a received instance with the presentation
context of the C-GET request, not with the context the C-STORE request arrived on.  When the
provider accepted the two contexts with different transfer syntaxes, the caller is handed garbage
while the provider is told 'Success'.

usage: finding3_demo.py [repository path]      exit 1 = property violated, 0 = holds

Library = ClientAE with its DEFAULT transfer syntax list (Explicit LE, Implicit LE, Explicit BE are
all proposed for every context) + qr_get_scu; peer = hand-written C-GET provider on a socketpair that
accepts the Q/R context with Implicit VR Little Endian and the CT storage context with
Explicit VR Big Endian (its choice; both were proposed).
"""
import sys
import os

REPO = sys.argv[1] if len(sys.argv) > 1 else '/tmp/wt/C19h'
sys.path.insert(0, REPO)

import socket as real_socket
import struct
import threading
import warnings
warnings.simplefilter('ignore')

import pynetdicom2
assert pynetdicom2.__file__.startswith(REPO), pynetdicom2.__file__
from pynetdicom2 import (fsm, pdu, dimsemessages as dm, dsutils, asceprovider, applicationentity,
                         sopclass as sc, statuses)
from pydicom import uid as puid
from pydicom.dataset import Dataset

CT = '1.2.840.10008.5.1.4.1.1.2'
IMPL_LE = '1.2.840.10008.1.2'
EXPL_BE = '1.2.840.10008.1.2.2'


class _Sock(object):
    def __init__(self, shim):
        self._shim = shim
        self._s = None

    def connect(self, addr):
        a, b = real_socket.socketpair()
        self._s = a
        t = threading.Thread(target=self._shim.peers[addr], args=(b,))
        t.daemon = True
        t.start()

    def __getattr__(self, name):
        return getattr(self._s, name)


class Shim(object):
    AF_INET = real_socket.AF_INET
    SOCK_STREAM = real_socket.SOCK_STREAM
    error = real_socket.error

    def __init__(self):
        self.peers = {}

    def socket(self, *a, **k):
        return _Sock(self)


shim = Shim()
fsm.socket = shim


def read_pdu(sock):
    def read(n):
        buf = b''
        while len(buf) < n:
            c = sock.recv(n - len(buf))
            if not c:
                return None
            buf += c
        return buf
    hdr = read(6)
    if hdr is None:
        return None
    body = read(struct.unpack('>L', hdr[2:6])[0])
    return None if body is None else hdr + body


def send_msg(sock, msg, pc_id):
    msg.set_length()
    for p in msg.encode(pc_id, 16384):
        sock.sendall(p.encode())


def recv_msg(sock, contexts):
    dec = fsm.DIMSEDecoder(contexts, set(), None)
    while True:
        raw = read_pdu(sock)
        if raw is None:
            return None
        if bytearray(raw)[0] != 4:
            return ('pdu', bytearray(raw)[0])
        dec.process(pdu.PDataTfPDU.decode(raw))
        if not dec.receiving:
            return ('msg', dec.msg, dec.pc_id)


N = 2


def run(storage_ts):
    seen_by_provider = []
    negotiated = {}

    def provider(sock):
        try:
            rq = pdu.AAssociateRqPDU.decode(read_pdu(sock))
            contexts = {}
            items = [rq.variable_items[0]]
            for it in rq.variable_items[1:-1]:
                proposed = [t.name for t in it.ts_sub_items]
                ts = storage_ts if it.abs_sub_item.name == CT else IMPL_LE
                assert ts in proposed, 'provider may only choose a proposed transfer syntax'
                items.append(pdu.PresentationContextItemAC(it.context_id, 0, pdu.TransferSyntaxSubItem(ts)))
                contexts[it.context_id] = asceprovider.PContextDef(
                    it.context_id, it.abs_sub_item.name, puid.UID(ts))
            negotiated.update(contexts)
            items.append(rq.variable_items[-1])
            sock.sendall(pdu.AAssociateAcPDU(rq.called_ae_title, rq.calling_ae_title, items).encode())
            store_pc = [k for k, v in contexts.items() if v.sop_class == CT][0]
            sts = contexts[store_pc].supported_ts

            _, get_rq, get_pc = recv_msg(sock, contexts)
            for i in range(N):
                store = dm.CStoreRQMessage()
                store.message_id = 10 + i
                store.priority = 0
                store.sop_class_uid = CT
                store.affected_sop_instance_uid = '1.2.3.%d' % i
                del store.command_set[(0x0000, 0x1030)]
                del store.command_set[(0x0000, 0x1031)]
                ds = Dataset()
                ds.SOPClassUID = CT
                ds.SOPInstanceUID = '1.2.3.%d' % i
                ds.PatientName = 'Name^%d' % i
                ds.Rows = 512
                store.data_set = dsutils.encode(ds, sts.is_implicit_VR, sts.is_little_endian)
                send_msg(sock, store, store_pc)
                r = recv_msg(sock, contexts)
                if r is None or r[0] != 'msg':
                    seen_by_provider.append(r)
                    return
                seen_by_provider.append(('C-STORE-RSP', r[1].message_id_being_responded_to, r[1].status, r[2]))
            rsp = dm.CGetRSPMessage()
            rsp.message_id_being_responded_to = get_rq.message_id
            rsp.sop_class_uid = get_rq.sop_class_uid
            rsp.status = 0
            del rsp.command_set[(0x0000, 0x1020)]
            rsp.num_of_completed_sub_ops = N
            rsp.num_of_failed_sub_ops = 0
            rsp.num_of_warning_sub_ops = 0
            send_msg(sock, rsp, get_pc)
            r = recv_msg(sock, contexts)
            if r and r[0] == 'pdu' and r[1] == 5:
                sock.sendall(pdu.AReleaseRpPDU().encode())
        finally:
            sock.close()

    shim.peers[('provider', 104)] = provider

    handler_saw = []

    class User(applicationentity.ClientAE):
        def on_receive_store(self, context, ds):
            handler_saw.append((context.id, str(context.supported_ts)))
            return statuses.SUCCESS

    ae = User('ME')     # default transfer syntaxes
    ae.timeout = 4
    ae.add_scu(sc.qr_get_scu).add_scu(sc.storage_scu, [CT])
    handed = []
    error = None
    try:
        with ae.request_association({'aet': 'PROVIDER', 'address': 'provider', 'port': 104}) as assoc:
            service = assoc.get_scu(sc.PATIENT_ROOT_GET_SOP_CLASS)
            q = Dataset()
            q.QueryRetrieveLevel = 'PATIENT'
            q.PatientID = 'X'
            for ctx, ds in service(q, 1):
                handed.append((ctx.id, str(ctx.supported_ts),
                               str(ds.get('SOPInstanceUID', None)), str(ds.get('PatientName', None)),
                               ds.get('Rows', None), [str(e.tag) for e in ds]))
    except Exception as exc:  # pylint: disable=broad-except
        error = repr(exc)
    return handed, handler_saw, seen_by_provider, error, negotiated


def main():
    violated = False
    for storage_ts in (IMPL_LE, EXPL_BE):
        handed, handler_saw, seen, error, negotiated = run(storage_ts)
        store_pc = [k for k, v in negotiated.items() if v.sop_class == CT][0]
        print('--- storage context %d accepted with %s, Q/R contexts with %s' % (store_pc, storage_ts, IMPL_LE))
        for h in handed:
            print('    handed to caller: context id %s ts %s  SOPInstanceUID=%s PatientName=%s Rows=%s tags=%s' % h)
        print('    on_receive_store was given contexts: %s' % handler_saw)
        print('    provider got: %s   user exception: %s' % (seen, error))
        problems = []
        if [s[:3] for s in seen] != [('C-STORE-RSP', 10 + i, 0) for i in range(N)]:
            problems.append('C-STORE requests not answered once each with Success')
        want = [('1.2.3.%d' % i, 'Name^%d' % i, 512) for i in range(N)]
        if [h[2:5] for h in handed] != want:
            problems.append('caller did not receive the instances that were sent (wanted %s)' % want)
        if any(h[0] != store_pc or h[1] != storage_ts for h in handed):
            # reported only; the damaged instance is what counts as violation
            print('    NOTE: context given to on_receive_store / yielded to the caller is not the one the '
                  'C-STORE request arrived on (%d, %s)' % (store_pc, storage_ts))
        for p in problems:
            print('    VIOLATION: ' + p)
        violated = violated or bool(problems)
    if violated:
        print('C19 VIOLATED')
        return 1
    print('C19 holds')
    return 0


if __name__ == '__main__':
    code = main()
    sys.stdout.flush()
    os._exit(code)
