#!/usr/bin/env python
"""C19 / finding 1: a C-MOVE whose sub-operation cannot be performed ends without a final
response, and the instances after it are never sent.

usage: finding1_demo.py [repository path]      exit 1 = property violated, 0 = holds

Everything runs in-process: the mover is the library's own AssociationAcceptor (AE with
qr_move_scp) on one end of a socketpair; the C-MOVE requester and the C-STORE destination are
small hand-written peers.  `pynetdicom2.fsm.socket` is replaced by a shim, so that the
association the mover opens to the destination lands on a socketpair as well (no TCP ports).
"""
import sys
import os

REPO = sys.argv[1] if len(sys.argv) > 1 else '/tmp/wt/C19h'
sys.path.insert(0, REPO)

import socket as real_socket
import struct
import threading
import time
import warnings
warnings.simplefilter('ignore')

import pynetdicom2
assert pynetdicom2.__file__.startswith(REPO), pynetdicom2.__file__
from pynetdicom2 import (fsm, pdu, dimsemessages as dm, dsutils, userdataitems, asceprovider,
                         applicationentity, sopclass as sc, exceptions)
from pydicom import uid as puid
from pydicom.dataset import Dataset

CT = '1.2.840.10008.5.1.4.1.1.2'
MR = '1.2.840.10008.5.1.4.1.1.4'
IMPL = '1.2.840.10008.1.2'


# ----------------------------------------------------------------------------- plumbing
class _Sock(object):
    def __init__(self, shim):
        self._shim = shim
        self._s = None

    def connect(self, addr):
        a, b = real_socket.socketpair()
        self._s = a
        t = threading.Thread(target=self._shim.peers[addr], args=(b,))
        t.daemon = True
        t.start()

    def __getattr__(self, name):
        return getattr(self._s, name)


class Shim(object):
    AF_INET = real_socket.AF_INET
    SOCK_STREAM = real_socket.SOCK_STREAM
    error = real_socket.error

    def __init__(self):
        self.peers = {}

    def socket(self, *a, **k):
        return _Sock(self)


shim = Shim()
fsm.socket = shim


def read_pdu(sock):
    def read(n):
        buf = b''
        while len(buf) < n:
            c = sock.recv(n - len(buf))
            if not c:
                return None
            buf += c
        return buf
    hdr = read(6)
    if hdr is None:
        return None
    body = read(struct.unpack('>L', hdr[2:6])[0])
    return None if body is None else hdr + body


def send_msg(sock, msg, pc_id):
    msg.set_length()
    for p in msg.encode(pc_id, 16384):
        sock.sendall(p.encode())


def recv_msg(sock, contexts):
    """('msg', message, pc_id) | ('pdu', type) | None (connection closed)"""
    dec = fsm.DIMSEDecoder(contexts, set(), None)
    while True:
        raw = read_pdu(sock)
        if raw is None:
            return None
        if bytearray(raw)[0] != 4:
            return ('pdu', bytearray(raw)[0])
        dec.process(pdu.PDataTfPDU.decode(raw))
        if not dec.receiving:
            return ('msg', dec.msg, dec.pc_id)


def instance(i, sop):
    ds = Dataset()
    ds.SOPClassUID = sop
    ds.SOPInstanceUID = '1.2.3.%d' % i
    ds.PatientName = 'Name^%d' % i
    return ds


# ----------------------------------------------------------------------------- scenario
def scenario(mode):
    """returns (list of C-MOVE responses seen by requester, list of instances the destination got,
    how the requester's association ended)"""
    stored = []

    def destination(sock):
        # hand written storage SCP; accepts CT always, MR unless mode == 'refused context'
        try:
            rq = pdu.AAssociateRqPDU.decode(read_pdu(sock))
            if mode == 'association rejected':
                # result 1 (permanent), source 1 (user), reason 7 (called AE title not recognized)
                sock.sendall(pdu.AAssociateRjPDU(1, 1, 7).encode())
                time.sleep(0.3)
                return
            contexts = {}
            items = [rq.variable_items[0]]
            for it in rq.variable_items[1:-1]:
                sop = it.abs_sub_item.name
                if sop == MR and mode == 'refused context':
                    items.append(pdu.PresentationContextItemAC(
                        it.context_id, 3, pdu.TransferSyntaxSubItem('')))   # abstract syntax not supported
                else:
                    items.append(pdu.PresentationContextItemAC(
                        it.context_id, 0, pdu.TransferSyntaxSubItem(IMPL)))
                    contexts[it.context_id] = asceprovider.PContextDef(it.context_id, sop, puid.UID(IMPL))
            items.append(rq.variable_items[-1])
            sock.sendall(pdu.AAssociateAcPDU(rq.called_ae_title, rq.calling_ae_title, items).encode())
            while True:
                r = recv_msg(sock, contexts)
                if r is None:
                    return
                if r[0] == 'pdu':
                    if r[1] == 5:
                        sock.sendall(pdu.AReleaseRpPDU().encode())
                    return
                msg, pc = r[1], r[2]
                stored.append(str(msg.affected_sop_instance_uid))
                rsp = dm.CStoreRSPMessage()
                rsp.message_id_being_responded_to = msg.message_id
                rsp.sop_class_uid = msg.sop_class_uid
                rsp.affected_sop_instance_uid = msg.affected_sop_instance_uid
                rsp.status = 0
                send_msg(sock, rsp, pc)
        finally:
            sock.close()

    shim.peers[('dest', 104)] = destination

    supplied = [instance(0, CT), instance(1, MR), instance(2, CT)]

    class Mover(applicationentity.AE):
        def on_receive_move(self, context, ds, destination):
            if mode == 'destination unknown':
                # documented way for a handler to say that it can not process the event
                raise exceptions.EventHandlingError('unknown move destination %s' % destination)
            return {'aet': 'DEST', 'address': 'dest', 'port': 104}, len(supplied), iter(supplied)

    mover = Mover('MOVER', 0, bind_and_activate=False)
    mover.timeout = 5
    mover.add_scp(sc.qr_move_scp)
    mover.add_scu(sc.storage_scu, [CT, MR])

    a, b = real_socket.socketpair()
    acceptor_error = []

    def run_acceptor():
        # what socketserver does for every connection: construct the handler, then close the request
        try:
            asceprovider.AssociationAcceptor(b, ('requester', 0), mover, mover.max_pdu_length)
        except Exception as exc:  # socketserver would print it (handle_error)
            acceptor_error.append(repr(exc))
        finally:
            b.close()

    t = threading.Thread(target=run_acceptor)
    t.daemon = True
    t.start()

    # hand written C-MOVE requester
    a.settimeout(30)
    a.sendall(pdu.AAssociateRqPDU(
        called_ae_title='MOVER', calling_ae_title='ME',
        variable_items=[
            pdu.ApplicationContextItem(asceprovider.APPLICATION_CONTEXT_NAME),
            pdu.PresentationContextItemRQ(9, pdu.AbstractSyntaxSubItem(sc.PATIENT_ROOT_MOVE_SOP_CLASS),
                                          [pdu.TransferSyntaxSubItem(IMPL)]),
            pdu.UserInformationItem([userdataitems.MaximumLengthSubItem(16384),
                                     userdataitems.ImplementationClassUIDSubItem('1.2.3.4')])]).encode())
    assert bytearray(read_pdu(a))[0] == 2, 'association with mover not accepted'
    contexts = {9: asceprovider.PContextDef(9, sc.PATIENT_ROOT_MOVE_SOP_CLASS, puid.UID(IMPL))}
    rq = dm.CMoveRQMessage()
    rq.message_id = 77
    rq.sop_class_uid = sc.PATIENT_ROOT_MOVE_SOP_CLASS
    rq.priority = 0
    rq.move_destination = 'DEST'
    q = Dataset()
    q.QueryRetrieveLevel = 'PATIENT'
    q.PatientID = 'X'
    rq.data_set = dsutils.encode(q, True, True)
    send_msg(a, rq, 9)

    responses = []
    while True:
        try:
            r = recv_msg(a, contexts)
        except real_socket.timeout:
            end = 'nothing more for 30 s'
            break
        if r is None:
            end = 'transport connection closed by mover'
            break
        if r[0] == 'pdu':
            end = 'PDU type %d from mover' % r[1]
            break
        m = r[1]
        responses.append((m.status, m.num_of_remaining_sub_ops, m.num_of_completed_sub_ops,
                          m.num_of_failed_sub_ops))
        if m.status != 0xFF00:
            a.sendall(pdu.AReleaseRqPDU().encode())
            read_pdu(a)
            end = 'released after final response'
            break
    a.close()
    t.join(10)
    mover.server_close()
    return responses, stored, end, acceptor_error


def main():
    violated = False
    for mode in ('all contexts accepted', 'refused context', 'association rejected', 'destination unknown'):
        responses, stored, end, acceptor_error = scenario(mode)
        finals = [r for r in responses if r[0] != 0xFF00]
        print('--- %s' % mode)
        print('    C-MOVE responses (status, remaining, completed, failed): %s' %
              [('%04X' % r[0],) + r[1:] for r in responses])
        print('    instances received by destination: %s' % stored)
        print('    requester side ended with: %s; exception in mover thread: %s' % (end, acceptor_error))
        problems = []
        if len(finals) != 1:
            problems.append('%d final C-MOVE responses instead of exactly one' % len(finals))
        if mode == 'all contexts accepted' and stored != ['1.2.3.0', '1.2.3.1', '1.2.3.2']:
            problems.append('instances not sent once and in order')
        if mode == 'refused context' and stored != ['1.2.3.0', '1.2.3.2']:
            problems.append('instance 1.2.3.2 (context accepted by destination) supplied by the application '
                            'was not sent: destination got %s' % stored)
        for p in problems:
            print('    VIOLATION: ' + p)
        violated = violated or bool(problems)
    if violated:
        print('C19 VIOLATED')
        return 1
    print('C19 holds')
    return 0


if __name__ == '__main__':
    code = main()
    sys.stdout.flush()
    os._exit(code)
