"""C14 finding 3: leaving a requested association through an error DURING a DIMSE exchange
(the outgoing message is still being sent in fragments) does not abort it: the A-ABORT
is queued behind the remaining P-DATA-TF fragments, Association.kill() gives up after
about one second and stops the provider thread, so no A-ABORT PDU is ever written, the
message is cut off in the middle and the transport connection is not even closed.

usage: finding3_demo.py [repo_path]      exit 1 = property violated, 0 = holds
"""
import sys
REPO = sys.argv[1] if len(sys.argv) > 1 else '/tmp/wt/C14h'
sys.path.insert(0, REPO)

import os
import socket as real_socket
import struct
import threading
import time
import types
import warnings
warnings.simplefilter('ignore')

import pynetdicom2
assert pynetdicom2.__file__.startswith(REPO), pynetdicom2.__file__
from pynetdicom2 import fsm, pdu
from pynetdicom2 import applicationentity as aemod
from pynetdicom2 import dimsemessages as dm
from pynetdicom2 import sopclass as sc

MAX_PDU = 16384          # what the peer announces (a very common default)
WAIT = 6.0               # peer waits this long for the next PDU


class PairSock(object):
    registry = {}

    def __init__(self, *a, **kw):
        self.s = None

    def connect(self, addr):
        self.s, other = real_socket.socketpair()
        PairSock.registry[addr](other)

    def sendall(self, data):
        return self.s.sendall(data)

    def recv(self, n):
        return self.s.recv(n)

    def close(self):
        return self.s.close()

    def fileno(self):
        return self.s.fileno()


shim = types.ModuleType('shim_socket')
shim.socket = PairSock
shim.AF_INET = real_socket.AF_INET
shim.SOCK_STREAM = real_socket.SOCK_STREAM
shim.error = real_socket.error
fsm.socket = shim


def read_pdu(sock, timeout):
    sock.settimeout(timeout)
    buf = b''
    while len(buf) < 6:
        chunk = sock.recv(6 - len(buf))
        if not chunk:
            return None
        buf += chunk
    length = struct.unpack('>L', buf[2:6])[0]
    while len(buf) < 6 + length:
        chunk = sock.recv(6 + length - len(buf))
        if not chunk:
            return None
        buf += chunk
    return buf


def make_peer(log):
    """Hand written acceptor that reads everything at once (it is never slow) and records
    number of P-DATA-TF PDUs, whether the last fragment of the data set was seen, and how
    the conversation ended."""
    def peer(sock):
        rq = pdu.AAssociateRqPDU.decode(read_pdu(sock, 5))
        items = [rq.variable_items[0]]
        for item in rq.variable_items[1:-1]:
            items.append(pdu.PresentationContextItemAC(item.context_id, 0, item.ts_sub_items[0]))
        items.append(rq.variable_items[-1])   # echoes Maximum Length = MAX_PDU
        sock.sendall(pdu.AAssociateAcPDU(rq.called_ae_title, rq.calling_ae_title, items).encode())
        log['pdata'] = 0
        log['complete'] = False
        while True:
            try:
                raw = read_pdu(sock, WAIT)
            except real_socket.timeout:
                log['end'] = 'nothing (no PDU, no close for %.0f s)' % WAIT
                return
            if raw is None:
                log['end'] = 'closed'
                return
            kind = raw[0] if isinstance(raw[0], int) else ord(raw[0])
            if kind == 4:
                log['pdata'] += 1
                marker = raw[11] if isinstance(raw[11], int) else ord(raw[11])
                if marker == 2:
                    log['complete'] = True
            elif kind == 7:
                src = raw[8] if isinstance(raw[8], int) else ord(raw[8])
                rsn = raw[9] if isinstance(raw[9], int) else ord(raw[9])
                log['end'] = 'abort(%d, %d)' % (src, rsn)
                sock.close()
                return
            elif kind == 5:
                log['end'] = 'release'
                sock.sendall(pdu.AReleaseRpPDU().encode())
                return
    return peer


def serve(addr, log):
    def on_connect(sock):
        thr = threading.Thread(target=make_peer(log), args=(sock,))
        thr.daemon = True
        thr.start()
    PairSock.registry[addr] = on_connect


def scenario(port, size):
    """sends a C-STORE-RQ with a data set of `size` bytes and fails right after that"""
    log = {}
    serve(('p', port), log)
    client = aemod.ClientAE('CLI', supported_ts=['1.2.840.10008.1.2'], max_pdu_length=MAX_PDU)
    client.add_scu(sc.storage_scu, [sc.CT_IMAGE_STORAGE])
    client.timeout = 5
    holder = []
    started = time.time()
    try:
        with client.request_association({'aet': 'SRV', 'address': 'p', 'port': port}) as assoc:
            holder.append(assoc)
            pc_id, _ = assoc.sop_classes_as_scu[sc.CT_IMAGE_STORAGE]
            msg = dm.CStoreRQMessage()
            msg.message_id = 1
            msg.priority = dm.PRIORITY_MEDIUM
            msg.sop_class_uid = sc.CT_IMAGE_STORAGE
            msg.affected_sop_instance_uid = '1.2.3.4'
            msg.data_set = b'\x00' * size      # already encoded data set
            assoc.send(msg, pc_id)
            raise RuntimeError('application failure during the exchange')
    except RuntimeError:
        left_after = time.time() - started
    deadline = time.time() + WAIT + 6
    while 'end' not in log and time.time() < deadline:
        time.sleep(0.05)
    dul = holder[0].dul
    return log, left_after, dul.is_alive(), dul.dul_socket is not None


problems = []

log, left, alive, sock_open = scenario(1, 20 * 1000)
print('control, 20 kB data set : left with-block after %.2f s, peer: %r' % (left, log))
if not str(log.get('end', '')).startswith('abort'):
    problems.append('control: no abort at all: %r' % (log,))

log, left, alive, sock_open = scenario(2, 1000 * 1000)
print('1 MB data set           : left with-block after %.2f s, peer: %r' % (left, log))
print('                          requester provider thread alive: %s, its socket still open: %s'
      % (alive, sock_open))
if not str(log.get('end', '')).startswith('abort'):
    problems.append('requester left the with-block through RuntimeError while its 1 MB C-STORE-RQ '
                    'was being sent: peer received %d P-DATA-TF PDUs (data set complete: %s) and '
                    'then %s - no A-ABORT; provider thread alive: %s, transport still open: %s'
                    % (log.get('pdata'), log.get('complete'), log.get('end'), alive, sock_open))

sys.stdout.flush()
if problems:
    print('PROPERTY C14 VIOLATED')
    for p in problems:
        print(' -', p)
    sys.stdout.flush()
    os._exit(1)
print('property holds')
sys.stdout.flush()
os._exit(0)
