"""C14 finding 2: leaving the requesting context manager through an exception that is
not a subclass of Exception (KeyboardInterrupt, SystemExit, GeneratorExit - the last
one is what the library's own pynetdicom2.c_find() wrapper produces when its consumer
stops iterating early) neither aborts nor releases the association: nothing is sent to
the peer, the transport stays open and the (non-daemon) provider thread keeps running.

usage: finding2_demo.py [repo_path]      exit 1 = property violated, 0 = holds
"""
import sys
REPO = sys.argv[1] if len(sys.argv) > 1 else '/tmp/wt/C14h'
sys.path.insert(0, REPO)

import gc
import os
import socket as real_socket
import struct
import threading
import time
import types
import warnings
warnings.simplefilter('ignore')

from pydicom.dataset import Dataset

import pynetdicom2
assert pynetdicom2.__file__.startswith(REPO), pynetdicom2.__file__
from pynetdicom2 import fsm, pdu, dsutils, dulprovider
from pynetdicom2 import applicationentity as aemod
from pynetdicom2 import dimsemessages as dm
from pynetdicom2 import sopclass as sc

WAIT = 4.0   # how long the peer waits for A-ABORT / A-RELEASE-RQ after requester left


class PairSock(object):
    registry = {}

    def __init__(self, *a, **kw):
        self.s = None

    def connect(self, addr):
        self.s, other = real_socket.socketpair()
        PairSock.registry[addr](other)

    def sendall(self, data):
        return self.s.sendall(data)

    def recv(self, n):
        return self.s.recv(n)

    def close(self):
        return self.s.close()

    def fileno(self):
        return self.s.fileno()


shim = types.ModuleType('shim_socket')
shim.socket = PairSock
shim.AF_INET = real_socket.AF_INET
shim.SOCK_STREAM = real_socket.SOCK_STREAM
shim.error = real_socket.error
fsm.socket = shim


def read_pdu(sock, timeout):
    sock.settimeout(timeout)
    buf = b''
    while len(buf) < 6:
        chunk = sock.recv(6 - len(buf))
        if not chunk:
            return None
        buf += chunk
    length = struct.unpack('>L', buf[2:6])[0]
    while len(buf) < 6 + length:
        chunk = sock.recv(6 + length - len(buf))
        if not chunk:
            return None
        buf += chunk
    return buf


def make_peer(log):
    """Hand written acceptor: accepts every context, answers a C-FIND with two pending
    responses, then records what the requester does: 'abort', 'release', 'closed'
    or 'nothing' (within WAIT seconds)."""
    def peer(sock):
        rq = pdu.AAssociateRqPDU.decode(read_pdu(sock, 5))
        items = [rq.variable_items[0]]
        for item in rq.variable_items[1:-1]:
            items.append(pdu.PresentationContextItemAC(item.context_id, 0, item.ts_sub_items[0]))
        items.append(rq.variable_items[-1])
        sock.sendall(pdu.AAssociateAcPDU(rq.called_ae_title, rq.calling_ae_title, items).encode())
        while True:
            try:
                raw = read_pdu(sock, WAIT)
            except real_socket.timeout:
                log.append('nothing')
                return
            if raw is None:
                log.append('closed')
                return
            kind = raw[0] if isinstance(raw[0], int) else ord(raw[0])
            if kind == 7:
                log.append('abort')
                sock.close()
                return
            if kind == 5:
                log.append('release')
                sock.sendall(pdu.AReleaseRpPDU().encode())
                return
            if kind == 4:
                pdata = pdu.PDataTfPDU.decode(raw)
                for pdv in pdata.data_value_items:
                    marker = pdv.data_value[0] if isinstance(pdv.data_value[0], int) \
                        else ord(pdv.data_value[0])
                    if marker == 2:   # end of the C-FIND-RQ identifier: answer
                        for _ in range(2):
                            rsp = dm.CFindRSPMessage()
                            rsp.message_id_being_responded_to = 1
                            rsp.sop_class_uid = sc.PATIENT_ROOT_FIND_SOP_CLASS
                            rsp.status = 0xFF00
                            ident = Dataset()
                            ident.PatientName = 'A^B'
                            rsp.data_set = dsutils.encode(ident, True, True)
                            rsp.set_length()
                            for out in rsp.encode(pdv.context_id, 16384):
                                sock.sendall(out.encode())
    return peer


def serve(addr, log):
    def on_connect(sock):
        thr = threading.Thread(target=make_peer(log), args=(sock,))
        thr.daemon = True
        thr.start()
    PairSock.registry[addr] = on_connect


def provider_threads():
    return [t for t in threading.enumerate()
            if isinstance(t, dulprovider.DULServiceProvider) and t.is_alive()]


problems = []


def judge(name, log, accepted=(['abort'],)):
    deadline = time.time() + WAIT + 2
    while not log and time.time() < deadline:
        time.sleep(0.05)
    alive = len(provider_threads())
    print('%s: peer saw %r, live provider threads of the requester: %d' % (name, log, alive))
    if log not in accepted:
        problems.append('%s: requester left the context manager through an exception, peer saw '
                        '%r: neither A-ABORT nor A-RELEASE-RQ; %d provider thread(s) still running'
                        % (name, log, alive))


# control: ordinary error -> abort
log0 = []
serve(('p', 0), log0)
client = aemod.ClientAE('CLI', supported_ts=['1.2.840.10008.1.2']).add_scu(sc.qr_find_scu)
client.timeout = 5
try:
    with client.request_association({'aet': 'SRV', 'address': 'p', 'port': 0}):
        raise RuntimeError('application failure')
except RuntimeError:
    pass
judge('control (RuntimeError)', log0)

# (a) KeyboardInterrupt (Ctrl-C while the association is open)
log1 = []
serve(('p', 1), log1)
try:
    with client.request_association({'aet': 'SRV', 'address': 'p', 'port': 1}):
        raise KeyboardInterrupt()
except KeyboardInterrupt:
    pass
judge('(a) KeyboardInterrupt', log1)

# (b) SystemExit
log2 = []
serve(('p', 2), log2)
try:
    with client.request_association({'aet': 'SRV', 'address': 'p', 'port': 2}):
        sys.exit(3)
except SystemExit:
    pass
judge('(b) SystemExit', log2)

# (c) the library's own c_find() wrapper, consumer takes the first match only
log3 = []
serve(('p', 3), log3)
query = Dataset()
query.PatientName = '*'
query.QueryRetrieveLevel = 'PATIENT'
orig_ts = aemod.AEBase.default_ts
aemod.AEBase.default_ts = ['1.2.840.10008.1.2']
try:
    for _result, _status in pynetdicom2.c_find({'aet': 'SRV', 'address': 'p', 'port': 3},
                                               'CLI', query):
        break          # generator is closed -> GeneratorExit inside request_association
finally:
    aemod.AEBase.default_ts = orig_ts
gc.collect()
judge('(c) c_find(), early break', log3, accepted=(['abort'], ['release']))

sys.stdout.flush()
if problems:
    print('PROPERTY C14 VIOLATED')
    for p in problems:
        print(' -', p)
    sys.stdout.flush()
    os._exit(1)
print('property holds')
sys.stdout.flush()
os._exit(0)
