"""C14 finding 1: an abort (or release) by the acceptor that happens between DIMSE
exchanges is swallowed when the requester leaves its context manager normally:
no AssociationAbortedError / AssociationReleasedError ever surfaces, source and
reason are lost, and the with-block ends as if the association was released.

usage: finding1_demo.py [repo_path]      exit 1 = property violated, 0 = holds
"""
import sys
REPO = sys.argv[1] if len(sys.argv) > 1 else '/tmp/wt/C14h'
sys.path.insert(0, REPO)

import os
import socket as real_socket
import threading
import time
import types
import warnings
warnings.simplefilter('ignore')

import pynetdicom2
assert pynetdicom2.__file__.startswith(REPO), pynetdicom2.__file__
from pynetdicom2 import fsm, asceprovider, exceptions, pdu
from pynetdicom2 import applicationentity as aemod
from pynetdicom2 import sopclass as sc


# ---- in-process transport: fsm.socket is replaced by a socketpair() based shim ----
class PairSock(object):
    registry = {}

    def __init__(self, *a, **kw):
        self.s = None

    def connect(self, addr):
        self.s, other = real_socket.socketpair()
        PairSock.registry[addr](other)

    def sendall(self, data):
        return self.s.sendall(data)

    def recv(self, n):
        return self.s.recv(n)

    def close(self):
        return self.s.close()

    def fileno(self):
        return self.s.fileno()


shim = types.ModuleType('shim_socket')
shim.socket = PairSock
shim.AF_INET = real_socket.AF_INET
shim.SOCK_STREAM = real_socket.SOCK_STREAM
shim.error = real_socket.error
fsm.socket = shim


def serve(addr, server_ae, outcome):
    """connections to addr are handled by the library's own AssociationAcceptor"""
    def on_connect(sock):
        def run():
            try:
                asceprovider.AssociationAcceptor(sock, ('peer', 0), server_ae,
                                                 max_pdu_length=server_ae.max_pdu_length)
            except Exception as exc:  # what handle() lets through
                outcome.append(exc)
            finally:
                sock.close()
        thr = threading.Thread(target=run)
        thr.daemon = True
        thr.start()
    PairSock.registry[addr] = on_connect


ABORT_REASON = 5
acceptor_log = []


@sc.sop_classes([sc.VERIFICATION_SOP_CLASS])
def echo_then_abort(asce, ctx, msg):
    """answers the C-ECHO and then aborts the association (reason 5)"""
    sc.verification_scp(asce, ctx, msg)
    asce.abort(ABORT_REASON)
    acceptor_log.append('aborted')


@sc.sop_classes([sc.VERIFICATION_SOP_CLASS])
def echo_then_release(asce, ctx, msg):
    """answers the C-ECHO and then requests the release of the association"""
    sc.verification_scp(asce, ctx, msg)
    try:
        rsp = asce.release()
        acceptor_log.append(('release confirmed with', type(rsp).__name__))
    except Exception as exc:
        acceptor_log.append(('release failed', type(exc).__name__))
        raise


def run_client(addr, explicit_release):
    """C-ECHO, a pause (the peer acts between two exchanges), then a normal exit.
    Returns (error raised out of the with statement or None, value returned by release())."""
    client = aemod.ClientAE('CLI').add_scu(sc.verification_scu)
    client.timeout = 5
    released = []
    try:
        with client.request_association({'aet': 'SRV', 'address': addr[0],
                                         'port': addr[1]}) as assoc:
            status = assoc.get_scu(sc.VERIFICATION_SOP_CLASS)(1)
            assert status.is_success
            time.sleep(0.5)   # acceptor aborts / releases here, between exchanges
            if explicit_release:
                released.append(assoc.release())
        return None, released
    except Exception as exc:  # pylint: disable=broad-except
        return exc, released


problems = []

# --- (a) acceptor aborts, requester leaves the with-block normally -----------------
srv = aemod.AE('SRV', 0, bind_and_activate=False).add_scp(echo_then_abort)
srv.timeout = 3
serve(('a', 1), srv, [])
err, _ = run_client(('a', 1), explicit_release=False)
if isinstance(err, exceptions.AssociationAbortedError) and \
        (err.source, err.reason_diag) == (2, ABORT_REASON):
    print('(a) ok: abort surfaced as AssociationAbortedError(2, %d)' % ABORT_REASON)
else:
    problems.append('(a) acceptor aborted with (source=2, reason=%d) between two exchanges; '
                    'requester left the with-block and got %r instead of '
                    'AssociationAbortedError(2, %d)' % (ABORT_REASON, err, ABORT_REASON))

# --- (a') same, the application calls release() itself -------------------------------
serve(('a', 2), srv, [])
err, released = run_client(('a', 2), explicit_release=True)
if isinstance(err, exceptions.AssociationAbortedError):
    print("(a') ok: abort surfaced from release()")
else:
    problems.append("(a') release() on an association the peer had aborted raised %r and "
                    "returned %r: the abort is handed out as a return value, not as "
                    "AssociationAbortedError" % (err, released))

# --- (b) acceptor releases, requester leaves the with-block normally ---------------
del acceptor_log[:]
srv2 = aemod.AE('SRV', 0, bind_and_activate=False).add_scp(echo_then_release)
srv2.timeout = 3
serve(('b', 1), srv2, [])
err, _ = run_client(('b', 1), explicit_release=False)
time.sleep(3.5)   # lets acceptor's release() either complete or time out
if isinstance(err, exceptions.AssociationReleasedError):
    print('(b) ok: release surfaced as AssociationReleasedError')
else:
    problems.append('(b) acceptor requested release between two exchanges; requester left the '
                    'with-block and got %r instead of AssociationReleasedError; acceptor side: %r '
                    '(its A-RELEASE-RQ was never answered, nor was the association aborted)'
                    % (err, acceptor_log))

if problems:
    print('PROPERTY C14 VIOLATED')
    for p in problems:
        print(' -', p)
    sys.stdout.flush()
    os._exit(1)
print('property holds')
sys.stdout.flush()
os._exit(0)
