#!/usr/bin/env python
"""C12 finding 2: an item (or sub-item) type byte of ZERO inside an A-ASSOCIATE-RQ is not
treated as an unrecognised item (A-ABORT), it silently ends the item list: everything from that
byte to the end of the PDU is dropped and the remains are handed to the local user as a valid
association request. Depending on where the zero lands

  * the request is accepted although it carries undecodable bytes, or
  * the acceptor gets a request without the mandatory items and dies with an unhandled
    AttributeError / IndexError: the peer gets neither A-ABORT nor A-ASSOCIATE-RJ, the
    connection stays open until the clean-up code closes it.

The same mutation with any other unknown type byte (0x99) is answered with A-ABORT at once.

usage: finding2_demo.py [repo_path]     exit 1 = property violated, 0 = not violated
"""
import sys
REPO = sys.argv[1] if len(sys.argv) > 1 else '/tmp/wt/C12h'
sys.path.insert(0, REPO)
import socket
import struct
import threading
import time
import warnings
warnings.simplefilter('ignore')

import pynetdicom2
assert pynetdicom2.__file__.startswith(REPO), pynetdicom2.__file__
from pynetdicom2 import applicationentity, asceprovider, sopclass, pdu


def item(item_type, body):
    return struct.pack('>BBH', item_type, 0, len(body)) + body


APP_CONTEXT = item(0x10, b'1.2.840.10008.3.1.1.1')
PRES_CONTEXT = item(0x20, struct.pack('BBBB', 1, 0, 0, 0) +
                    item(0x30, b'1.2.840.10008.1.1') + item(0x40, b'1.2.840.10008.1.2'))
MAX_LENGTH = item(0x51, struct.pack('>I', 16384))
IMPL_UID = item(0x52, b'1.2.3.4')
IMPL_VERSION = item(0x55, b'VERSION_1')


def a_associate_rq(items):
    body = struct.pack('>HH16s16s32s', 1, 0, b'CALLED'.ljust(16), b'CALLING'.ljust(16),
                       b'\0' * 32) + items
    return struct.pack('>BBI', 0x01, 0, len(body)) + body      # PDU length always right


def retype(encoded_item, type_byte):
    return struct.pack('B', type_byte) + encoded_item[1:]


def exchange(rq):
    """Real acceptor stack on one end of a socketpair. Returns (type of the first PDU the library
    transmits or None, seconds until that PDU / until the library closed, error in the handler)"""
    ae = applicationentity.AE('CALLED', 0, bind_and_activate=False)  # no port is bound
    ae.add_scp(sopclass.verification_scp)
    ae.timeout = 3
    lib_end, peer = socket.socketpair()
    errors = []

    def handler():
        try:
            asceprovider.AssociationAcceptor(lib_end, ('peer', 0), ae, 65536)
        except Exception as exc:  # what socketserver would report as unhandled
            errors.append(exc)

    worker = threading.Thread(target=handler)
    worker.daemon = True
    worker.start()
    start = time.time()
    peer.sendall(rq)
    peer.settimeout(8)
    try:
        head = peer.recv(6)
    except socket.timeout:
        head = b''
    elapsed = time.time() - start
    peer.close()
    worker.join(10)
    ae.server_close()
    return (struct.unpack('B', head[0:1])[0] if head else None), elapsed, errors


def main():
    names = {2: 'A-ASSOCIATE-AC', 7: 'A-ABORT', None: 'no PDU at all, connection closed'}
    user_info = item(0x50, MAX_LENGTH + IMPL_UID + IMPL_VERSION)
    junk = b'\x01\x02\x03\x04\x05\x06\x07'
    cases = [
        ('control: presentation context item type 0x20 -> 0x99',
         a_associate_rq(APP_CONTEXT + retype(PRES_CONTEXT, 0x99) + user_info)),
        ('presentation context item type 0x20 -> 0x00',
         a_associate_rq(APP_CONTEXT + retype(PRES_CONTEXT, 0x00) + user_info)),
        ('control: 8 undecodable bytes after last item, first one 0x99',
         a_associate_rq(APP_CONTEXT + PRES_CONTEXT + user_info + b'\x99' + junk)),
        ('8 undecodable bytes after last item, first one 0x00',
         a_associate_rq(APP_CONTEXT + PRES_CONTEXT + user_info + b'\x00' + junk)),
        ('user information sub-item type 0x52 -> 0x00 (rest of the item is dropped)',
         a_associate_rq(APP_CONTEXT + PRES_CONTEXT +
                        item(0x50, MAX_LENGTH + retype(IMPL_UID, 0x00) + b'\xff' * 5))),
    ]
    failed = False
    for label, rq in cases:
        got, elapsed, errors = exchange(rq)
        ok = got == 7
        print('%s\n    -> %s after %.2f s%s   %s' % (
            label, names.get(got, got), elapsed,
            ('; handler thread died with unhandled %r' % errors[0]) if errors else '',
            'ok' if ok else 'VIOLATION (expected A-ABORT)'))
        failed = failed or not ok
    if failed:
        decoded = pdu.AAssociateRqPDU.decode(cases[1][1])
        print('AAssociateRqPDU.decode() of the second PDU does not raise, it returns %d of 3 '
              'items: %r' % (len(decoded.variable_items), decoded.variable_items))
    return 1 if failed else 0


if __name__ == '__main__':
    sys.exit(main())
