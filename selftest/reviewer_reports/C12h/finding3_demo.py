#!/usr/bin/env python
"""C12 finding 3: a P-DATA-TF PDU whose PDV item-length is 0, or larger than what is left of the
PDU (up to 2^32-1), can not be decoded by the rules of PS3.8 9.3.5.1, but it is not answered with
an A-ABORT: PresentationDataValueItem.decode() never compares the length field with what it read,
the PDU is taken as valid and the command inside is executed (C-ECHO-RSP comes back).

usage: finding3_demo.py [repo_path]     exit 1 = property violated, 0 = not violated
"""
import sys
REPO = sys.argv[1] if len(sys.argv) > 1 else '/tmp/wt/C12h'
sys.path.insert(0, REPO)
import socket
import struct
import threading
import warnings
warnings.simplefilter('ignore')

import pynetdicom2
assert pynetdicom2.__file__.startswith(REPO), pynetdicom2.__file__
from pynetdicom2 import applicationentity, asceprovider, sopclass, pdu


def item(item_type, body):
    return struct.pack('>BBH', item_type, 0, len(body)) + body


def a_associate_rq():
    pc = item(0x20, struct.pack('BBBB', 1, 0, 0, 0) +
              item(0x30, b'1.2.840.10008.1.1') + item(0x40, b'1.2.840.10008.1.2'))
    user_info = item(0x50, item(0x51, struct.pack('>I', 16384)) + item(0x52, b'1.2.3.4'))
    body = struct.pack('>HH16s16s32s', 1, 0, b'CALLED'.ljust(16), b'CALLING'.ljust(16),
                       b'\0' * 32) + item(0x10, b'1.2.840.10008.3.1.1.1') + pc + user_info
    return struct.pack('>BBI', 0x01, 0, len(body)) + body


def element(group, elem, value):
    return struct.pack('<HHI', group, elem, len(value)) + value


def c_echo_rq_command():
    rest = (element(0, 2, b'1.2.840.10008.1.1\0') + element(0, 0x100, struct.pack('<H', 0x30)) +
            element(0, 0x110, struct.pack('<H', 7)) + element(0, 0x800, struct.pack('<H', 0x101)))
    return element(0, 0, struct.pack('<I', len(rest))) + rest


def p_data_tf(pdv_length_field=None):
    """One P-DATA-TF PDU with one PDV (whole C-ECHO-RQ command). PDU-length is always right;
    PDV item-length is right unless a value for the field is given."""
    value = b'\x01\x03' + c_echo_rq_command()      # context id 1, last command fragment
    length = len(value) if pdv_length_field is None else pdv_length_field
    pdv = struct.pack('>I', length) + value
    return struct.pack('>BBI', 0x04, 0, len(pdv)) + pdv


def read_pdu(sock, wait=3.0):
    sock.settimeout(wait)
    buf = b''
    try:
        while len(buf) < 6:
            chunk = sock.recv(6 - len(buf))
            if not chunk:
                return None
            buf += chunk
        total = 6 + struct.unpack('>I', buf[2:6])[0]
        while len(buf) < total:
            chunk = sock.recv(total - len(buf))
            if not chunk:
                return None
            buf += chunk
    except (socket.timeout, socket.error):
        return None
    return buf


def answer_to(p_data):
    """Establishes an association with the real acceptor stack over a socketpair, sends the
    P-DATA-TF, returns type of the PDU the library answers with (None: nothing / closed)."""
    ae = applicationentity.AE('CALLED', 0, bind_and_activate=False)  # no port is bound
    ae.add_scp(sopclass.verification_scp)
    ae.timeout = 3
    lib_end, peer = socket.socketpair()
    worker = threading.Thread(
        target=lambda: asceprovider.AssociationAcceptor(lib_end, ('peer', 0), ae, 65536))
    worker.daemon = True
    worker.start()
    try:
        peer.sendall(a_associate_rq())
        ac = read_pdu(peer)
        assert ac is not None and ac[0:1] == b'\x02', 'association was not accepted'
        peer.sendall(p_data)
        answer = read_pdu(peer)
        return None if answer is None else struct.unpack('B', answer[0:1])[0]
    finally:
        peer.close()
        worker.join(10)
        ae.server_close()


def main():
    names = {2: 'A-ASSOCIATE-AC', 4: 'P-DATA-TF (C-ECHO-RSP)', 7: 'A-ABORT', None: 'nothing'}
    right = len(b'\x01\x03' + c_echo_rq_command())
    cases = [
        ('valid PDV item-length (%d)' % right, None, 4),
        ('PDV item-length 1 (no message control header)', 1, 7),
        ('PDV item-length 0', 0, 7),
        ('PDV item-length %d (100 more than there is in the PDU)' % (right + 100), right + 100, 7),
        ('PDV item-length 2^32-1', 0xFFFFFFFF, 7),
    ]
    # what the library itself makes of these PDUs
    failed = False
    for label, field, expected in cases:
        got = answer_to(p_data_tf(field))
        verdict = 'ok' if got == expected else 'VIOLATION'
        print('%-62s -> answered with %-24s expected %-24s %s' % (
            label, names.get(got, got), names[expected], verdict))
        if got != expected:
            failed = True
    if failed:
        bad = pdu.PDataTfPDU.decode(p_data_tf(0xFFFFFFFF))
        print('PDataTfPDU.decode() of the PDU with item-length 2^32-1 gives a PDV of %d bytes, '
              're-encoded item-length %d' % (len(bad.data_value_items[0].data_value),
                                             bad.data_value_items[0].item_length))
        print('a P-DATA-TF PDU that can not be decoded (PDV length 0 / beyond the end of the PDU) '
              'is executed instead of being answered with A-ABORT')
    return 1 if failed else 0


if __name__ == '__main__':
    sys.exit(main())
