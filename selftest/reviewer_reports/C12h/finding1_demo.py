#!/usr/bin/env python
"""C12 finding 1: an A-ASSOCIATE-RQ whose text fields contain non-ASCII (valid UTF-8) bytes makes
the library transmit a malformed A-ASSOCIATE-AC: PDU-length, User-Information item-length and
sub-item length are counted in characters while the bytes put on the wire are UTF-8 encoded, so
more bytes are sent than the length fields announce. The surplus bytes desynchronise the peer's
PDU framing (they are read as the header of the next PDU).

usage: finding1_demo.py [repo_path]     exit 1 = property violated, 0 = not violated
"""
import sys
REPO = sys.argv[1] if len(sys.argv) > 1 else '/tmp/wt/C12h'
sys.path.insert(0, REPO)
import socket
import struct
import threading
import warnings
warnings.simplefilter('ignore')

import pynetdicom2
assert pynetdicom2.__file__.startswith(REPO), pynetdicom2.__file__
from pynetdicom2 import applicationentity, asceprovider, sopclass


def item(item_type, body):
    return struct.pack('>BBH', item_type, 0, len(body)) + body


def a_associate_rq(version_name, app_context=b'1.2.840.10008.3.1.1.1'):
    """A perfectly framed A-ASSOCIATE-RQ (all length fields are right); only text differs."""
    pc = item(0x20, struct.pack('BBBB', 1, 0, 0, 0) +
              item(0x30, b'1.2.840.10008.1.1') + item(0x40, b'1.2.840.10008.1.2'))
    user_info = item(0x50, item(0x51, struct.pack('>I', 16384)) + item(0x52, b'1.2.3.4') +
                     item(0x55, version_name))
    body = struct.pack('>HH16s16s32s', 1, 0, b'CALLED'.ljust(16), b'CALLING'.ljust(16),
                       b'\0' * 32) + item(0x10, app_context) + pc + user_info
    return struct.pack('>BBI', 0x01, 0, len(body)) + body


RELEASE_RQ = struct.pack('>BBII', 0x05, 0, 4, 0)


def talk(rq):
    """Runs the real acceptor stack (AssociationAcceptor + DULServiceProvider) on one end of a
    socketpair, plays the peer on the other end; returns every byte the library transmitted."""
    ae = applicationentity.AE('CALLED', 0, bind_and_activate=False)  # no port is bound
    ae.add_scp(sopclass.verification_scp)
    ae.timeout = 3
    lib_end, peer = socket.socketpair()
    worker = threading.Thread(
        target=lambda: asceprovider.AssociationAcceptor(lib_end, ('peer', 0), ae, 65536))
    worker.daemon = True
    worker.start()

    received = b''

    def drain(wait):
        data = b''
        peer.settimeout(wait)
        try:
            while True:
                chunk = peer.recv(65536)
                if not chunk:
                    break
                data += chunk
        except socket.timeout:
            pass
        return data

    peer.sendall(rq)
    received += drain(1.0)           # A-ASSOCIATE-AC (and whatever else library sends)
    peer.sendall(RELEASE_RQ)         # orderly end, as a well behaved peer
    received += drain(1.0)           # A-RELEASE-RP
    peer.close()
    worker.join(10)
    ae.server_close()
    return received


def frame(stream):
    """Splits the stream into PDUs the way any receiver has to: type, reserved, 4 byte length."""
    pdus, pos = [], 0
    while pos < len(stream):
        if len(stream) - pos < 6:
            return pdus, 'stray bytes that are no PDU: %r' % stream[pos:]
        pdu_type, _, length = struct.unpack('>BBI', stream[pos:pos + 6])
        if pdu_type not in (1, 2, 3, 4, 5, 6, 7):
            return pdus, 'at offset %d: PDU type 0x%02X does not exist (bytes %r)' % (
                pos, pdu_type, stream[pos:pos + 10])
        if pos + 6 + length > len(stream):
            return pdus, 'at offset %d: PDU type %d announces %d bytes, only %d were sent' % (
                pos, pdu_type, length, len(stream) - pos - 6)
        pdus.append((pdu_type, stream[pos:pos + 6 + length]))
        pos += 6 + length
    return pdus, None


def check_user_info(ac):
    """Sub-items of the User Information item have to fill it exactly"""
    pos = 74
    while pos < len(ac):
        item_type, _, length = struct.unpack('>BBH', ac[pos:pos + 4])
        if item_type == 0x50:
            body, sub = ac[pos + 4:pos + 4 + length], 0
            while sub < len(body):
                if len(body) - sub < 4:
                    return 'User Information item ends inside a sub-item header'
                sub_type, _, sub_len = struct.unpack('>BBH', body[sub:sub + 4])
                if sub + 4 + sub_len > len(body):
                    return 'sub-item 0x%02X overruns User Information item' % sub_type
                sub += 4 + sub_len
        pos += 4 + length
    return None if pos == len(ac) else 'items do not fill the PDU (%d != %d)' % (pos, len(ac))


def main():
    failed = False
    for label, name in (('control (ASCII)', b'VERSION_1'),
                        ('non-ASCII implementation version name', u'Gerät_é'.encode('utf8'))):
        stream = talk(a_associate_rq(name))
        pdus, error = frame(stream)
        print('%s: library transmitted %d bytes, framed as PDU types %s' % (
            label, len(stream), [t for t, _ in pdus]))
        if error is None and pdus and pdus[0][0] == 2:
            error = check_user_info(pdus[0][1])
        if error:
            print('  VIOLATION: what the library transmitted is not a sequence of well-formed '
                  'PDUs: ' + error)
            if len(stream) >= 6:
                print('  first PDU: type %d, PDU-length field %d' % (
                    stream[0] if isinstance(stream[0], int) else ord(stream[0]),
                    struct.unpack('>I', stream[2:6])[0]))
            failed = True
        else:
            print('  ok: well-formed')
    return 1 if failed else 0


if __name__ == '__main__':
    sys.exit(main())
