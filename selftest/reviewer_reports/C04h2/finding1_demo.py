"""C04: PDUs received in Sta13 are thrown away by the provider instead of driving the
Sta13 column of PS3.8 Table 9-10 (Evt16 -> AA-2, Evt6/Evt19 -> AA-7)."""
import sys, os, time, socket, select
repo = sys.argv[1] if len(sys.argv) > 1 else '/tmp/wt/C04h'
sys.path.insert(0, repo)
import pynetdicom2
assert pynetdicom2.__file__.startswith(repo), pynetdicom2.__file__
from pynetdicom2 import dulprovider, fsm, pdu

S = fsm.States
problems = []


def wait_state(prov, state, timeout=3.0):
    end = time.time() + timeout
    while time.time() < end:
        if prov.state_machine.current_state == state and not prov.event:
            return True
        time.sleep(0.01)
    return False


def to_sta13():
    """acceptor side provider, driven into Sta13 by cell (Evt12, Sta2) = AA-1"""
    ours, peer = socket.socketpair()
    prov = dulprovider.DULServiceProvider(frozenset(), None, dul_socket=ours)
    assert wait_state(prov, S.STA_2), 'did not reach Sta2'
    peer.sendall(pdu.AReleaseRqPDU().encode())      # unexpected PDU in Sta2 -> AA-1
    assert wait_state(prov, S.STA_13), 'did not reach Sta13'
    data = peer.recv(100)
    assert data[:1] == b'\x07', 'AA-1 did not send A-ABORT'
    return prov, peer


def peer_sees(peer, timeout=2.0):
    """what peer observes within timeout: bytes, b'' (closed) or None (nothing)"""
    if select.select([peer], [], [], timeout)[0]:
        try:
            return peer.recv(100)
        except socket.error:
            return b''
    return None


try:
    # --- cell (Evt16 A-ABORT PDU, Sta13): AA-2 = stop ARTIM, close transport, next Sta1
    prov, peer = to_sta13()
    peer.sendall(pdu.AAbortPDU(source=0, reason_diag=0).encode())
    seen = peer_sees(peer)
    st = prov.state_machine.current_state
    if seen != b'' or st != S.STA_1:
        problems.append(
            '(Evt16, Sta13): expected AA-2 (connection closed, Sta1); got: peer observed %r, '
            'state index %d (12 = Sta13), socket still open: %r, ARTIM still running: %r'
            % (seen, st, prov.dul_socket is not None, prov.timer._start_time is not None))
    prov.is_killed = True
    peer.close()

    # --- cell (Evt6 A-ASSOCIATE-RQ PDU, Sta13): AA-7 = send A-ABORT PDU, stay in Sta13
    prov, peer = to_sta13()
    rq = pdu.AAssociateRqPDU(
        called_ae_title='A', calling_ae_title='B',
        variable_items=[pdu.ApplicationContextItem('1.2.840.10008.3.1.1.1')])
    peer.sendall(rq.encode())
    seen = peer_sees(peer)
    if not seen or seen[:1] != b'\x07':
        problems.append('(Evt6, Sta13): expected AA-7 (A-ABORT PDU on the wire); peer observed %r'
                        % (seen,))
    prov.is_killed = True
    peer.close()

    # --- cell (Evt19 invalid PDU, Sta13): AA-7 = send A-ABORT PDU, stay in Sta13
    prov, peer = to_sta13()
    peer.sendall(b'\x55\x00\x00\x00\x00\x02ab')
    seen = peer_sees(peer)
    if not seen or seen[:1] != b'\x07':
        problems.append('(Evt19, Sta13): expected AA-7 (A-ABORT PDU on the wire); peer observed %r'
                        % (seen,))
    prov.is_killed = True
    peer.close()
except AssertionError as e:
    print('SETUP PROBLEM', e)
    os._exit(2)

if problems:
    print('PROPERTY C04 VIOLATED:')
    for p in problems:
        print(' -', p)
    sys.stdout.flush()
    os._exit(1)
print('ok')
os._exit(0)
