"""C04: transport connection that fails to open (Evt17 while the provider awaits the transport
connect confirmation, i.e. Sta4) gives no A-P-ABORT indication (AA-4) to the local user."""
import sys, os, time, socket as real_socket
repo = sys.argv[1] if len(sys.argv) > 1 else '/tmp/wt/C04h'
sys.path.insert(0, repo)
import pynetdicom2
assert pynetdicom2.__file__.startswith(repo), pynetdicom2.__file__
from pynetdicom2 import dulprovider, fsm, pdu, exceptions


class FakeSock(object):
    closed = False
    def connect(self, addr):
        raise real_socket.error(111, 'Connection refused')   # what a closed port gives
    def close(self):
        self.closed = True
    def fileno(self):
        return -1


class Shim(object):
    """stands for the socket module inside fsm.py"""
    AF_INET = real_socket.AF_INET
    SOCK_STREAM = real_socket.SOCK_STREAM
    error = real_socket.error
    @staticmethod
    def socket(*a):
        return FakeSock()

fsm.socket = Shim

prov = dulprovider.DULServiceProvider(frozenset(), None)      # requestor side, Sta1
rq = pdu.AAssociateRqPDU(
    called_ae_title='A', calling_ae_title='B',
    variable_items=[pdu.ApplicationContextItem('1.2.840.10008.3.1.1.1')])
rq.called_presentation_address = ('127.0.0.1', 1)
prov.send(rq)                                                  # Evt1 -> AE-1 (connect request)
try:
    ind = prov.receive(3)
except exceptions.DCMTimeoutError:
    ind = None
st = prov.state_machine.current_state
alive = prov.is_alive()
prov.is_killed = True
if not isinstance(ind, pdu.AAbortPDU):
    print('PROPERTY C04 VIOLATED: the transport connection requested by AE-1 was refused '
          '(Evt17 while awaiting the connect confirmation = cell (Evt17, Sta4) -> AA-4), but the '
          'local user got no A-P-ABORT indication within 3 s: got %r; state index %d, '
          'provider thread alive: %r' % (ind, st, alive))
    sys.stdout.flush()
    os._exit(1)
print('ok: indication', ind)
os._exit(0)
