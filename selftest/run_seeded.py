#!/usr/bin/env python3
"""Run checks against the seeded property-breaking changes under seeded/.

For each seeded/<id>/patch.diff: a scratch worktree of /repo HEAD is created outside /repo and
/verif, the patch applied there, and the property's quick check (or the checks given with
--checks) is run with VERIF_REPO pointing at it (evidence / replays redirected to a scratch
directory so that nothing in /verif is touched).  Expected: exit 1 with a VIOLATION line.
Writes seeded/RESULTS.json.  Usage: run_seeded.py [ids...] [--checks C04,C05] [--jobs 4] [--tier quick]
"""
import argparse, json, os, shutil, subprocess, sys, tempfile, time
from concurrent.futures import ThreadPoolExecutor

V = os.path.dirname(os.path.dirname(os.path.abspath(__file__)))


def one(sid, checks, tier):
    d = os.path.join(V, 'seeded', sid)
    meta = json.load(open(os.path.join(d, 'meta.json')))
    prop = meta['property']
    if meta.get('stale'):
        # the lines this change edits were rewritten by a later fix: commit in /repo; it cannot be applied to the current
        # tree any more (its last run against the checks is kept in RESULTS.json)
        return {'id': sid, 'property': prop, 'stale': meta['stale'], 'checks': {}}
    wt = tempfile.mkdtemp(prefix='seedwt_')
    os.rmdir(wt)
    out = tempfile.mkdtemp(prefix='seedout_')
    res = {'id': sid, 'property': prop, 'checks': {}}
    try:
        subprocess.check_call(['git', '-C', '/repo', 'worktree', 'add', '--detach', '-q', wt, 'HEAD'])
        ap = subprocess.run(['git', '-C', wt, 'apply', os.path.join(d, 'patch.diff')], stderr=subprocess.PIPE)
        if ap.returncode != 0:
            ap = subprocess.run(['git', '-C', wt, 'apply', '-3', os.path.join(d, 'patch.diff')], stderr=subprocess.PIPE)
        if ap.returncode != 0:
            res['error'] = 'patch does not apply: ' + ap.stderr.decode()[:300]
            return res
        for c in (checks or [prop]):
            env = dict(os.environ, VERIF_REPO=wt, VERIF_EVIDENCE_DIR=os.path.join(out, 'ev'), VERIF_REPLAYS_DIR=os.path.join(out, 'rp'))
            t0 = time.time()
            p = subprocess.run([os.path.join(V, 'check'), c, '--tier', tier], env=env, stdout=subprocess.PIPE, stderr=subprocess.STDOUT, universal_newlines=True)
            first = [l for l in p.stdout.splitlines() if l.startswith('VIOLATION')][:1]
            what = ''
            lines = p.stdout.splitlines()
            for i, l in enumerate(lines):
                if l.startswith('VIOLATION') and i + 1 < len(lines):
                    what = lines[i + 1].strip()[:240]
                    break
            res['checks'][c] = {'exit': p.returncode, 'detected': p.returncode == 1 and bool(first), 'wall_s': round(time.time() - t0, 1),
                                'first': what, 'tail': '' if p.returncode in (0, 1) else p.stdout[-600:]}
    finally:
        subprocess.call(['git', '-C', '/repo', 'worktree', 'remove', '--force', wt], stderr=subprocess.DEVNULL)
        shutil.rmtree(out, ignore_errors=True)
    return res


def main():
    ap = argparse.ArgumentParser()
    ap.add_argument('ids', nargs='*')
    ap.add_argument('--checks', default='')
    ap.add_argument('--jobs', type=int, default=4)
    ap.add_argument('--tier', default='quick')
    a = ap.parse_args()
    ids = a.ids or sorted(x for x in os.listdir(os.path.join(V, 'seeded')) if os.path.isdir(os.path.join(V, 'seeded', x)))
    checks = [c for c in a.checks.split(',') if c]
    with ThreadPoolExecutor(a.jobs) as ex:
        results = list(ex.map(lambda s: one(s, checks, a.tier), ids))
    path = os.path.join(V, 'seeded', 'RESULTS.json')
    old = {}
    if os.path.exists(path):
        old = {r['id']: r for r in json.load(open(path))}
    for r in results:
        if r.get('stale') and r['id'] in old:
            r['checks'] = old[r['id']].get('checks', {})
            r['last_run_before_the_fix'] = True
            old[r['id']] = r
            continue
        if r['id'] in old and 'checks' in old[r['id']] and 'checks' in r:
            merged = dict(old[r['id']]['checks'])
            merged.update(r['checks'])
            r['checks'] = merged
        old[r['id']] = r
    json.dump([old[k] for k in sorted(old)], open(path, 'w'), indent=1)
    for r in results:
        if r.get('stale'):
            print('%-8s STALE %s' % (r['id'], r['stale'][:120]))
            continue
        if 'error' in r:
            print('%-8s ERROR %s' % (r['id'], r['error']))
        for c, x in r.get('checks', {}).items():
            print('%-8s %s: %s (exit %s, %.0fs) %s' % (r['id'], c, 'DETECTED' if x['detected'] else 'MISSED', x['exit'], x['wall_s'], x['first'][:140]))


if __name__ == '__main__':
    main()
