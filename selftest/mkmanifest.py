#!/usr/bin/env python3
"""Regenerates MANIFEST.json from the table below (kept here so that the manifest is always consistent
with the checks that exist)."""
import json, os
V = os.path.dirname(os.path.dirname(os.path.abspath(__file__)))
props = [json.loads(l) for l in open(os.path.join(V, 'properties.jsonl'))]
PROV_NOTE = ('Trusts: the transcription of PS3.8 Table 9-10 in specs/ULFsm.tla; the simulated socket / select / clock of '
             'harness/simnet.py standing for TCP and time; the projection of provider state in harness/ulrun.py; TLC.')
claimed = {
 'C16': dict(level='model_checking', ref='4 (C16)',
   technique='TLA+ Services.tla (RspFind/GotFind acceptors) + SendQueue.tla (all interleavings of application thread and lazily encoding provider thread, checked by TLC); real find providers/users run under lazy-encoding schedules, traces validated by TLC',
   text='SendQueue.tla shows by TLC that delivery fails for a reused response object and holds for fresh ones (design counterexample of the repaired defect). The real qr_find_scp / worklist providers and users run on real Association objects: every sequence of the two pending codes up to length 3-4 (6 thorough) and seeded longer ones, final success/failure/cancel, maxima forcing multi-fragment and exact-fit responses, four schedules of the lazy encoding; one response per match with the same data and status in order, one final response without identifier, user yields exactly the wire sequence and stops.',
   note='Data sets are compared by digest tokens. The c_find wrapper is exercised over real sockets by the C15/C20 checks.'),
 'C17': dict(level='model_checking', ref='4 (C17)',
   technique='TLA+ Services.tla Correlated/End acceptors validated by TLC on traces of every provider callable run on a real Association with independent wire readers',
   text='verification_scp, storage_scp, qr_find_scp, worklist, qr_move_scp, StorageCommitment.n_action / n_event_report and the C-STORE responses of qr_get_scu: message ids at all 16-bit boundaries plus samples, context ids, UID lengths, every handler outcome incl. EventHandlingError, success/failure/mixed commitment lists, three schedules of lazy encoding. TLC checks context, Message ID Being Responded To, SOP class/instance, response type, status and that every request is answered with a complete message.',
   note='Documented failure statuses are tabulated in harness/svccheck.py from the docstrings of sopclass.py.'),
 'C18': dict(level='model_checking', ref='4 (C18)',
   technique='TLA+ StatusClass.tla (PS3.4/PS3.7 tables as ranges) checked by TLC over every <<command, code>>; library classification of all 65536 codes x 12 commands judged by TLC (Trace_StatusClass)',
   text='Exhaustive: Status(code, command) for every code and every response class and no class, twice (ascending; shuffled after foreign-class lookups, to expose history dependence), compressed into runs and judged code by code by TLC against Allowed(cmd, code); exactly one flag, int() identity.',
   note='0107H/0116H may be Warning or Failure (statement silent). FF00/FF01/FE00 outside the three Q/R services are unknown codes, i.e. Failure.'),
 'C19': dict(level='model_checking', ref='4 (C19)',
   technique='TLA+ Services.tla C-GET user / C-MOVE provider acceptors validated by TLC on traces of the real qr_get_scu / qr_move_scp',
   text='Sub-operation counts 0..4 (6 thorough) with every outcome combination, long moves, every placement of pending C-GET responses among the C-STORE requests, handler outcomes incl. EventHandlingError, message/context ids, three lazy-encoding schedules: each C-STORE request answered exactly once on its context; instances yielded once in order; each supplied instance stored once in order at the designated destination; remaining = total - k and k performed after k sub-operations; exactly one final response, also for an empty move.',
   note='Sub-association is a recording stub injected through request_association.'),
 'C01': dict(level='model_checking', ref='4 (C01)',
   technique='TLA+ Wire.tla (PS3.8 layouts as data, length-driven Dec) checked by TLC over an enumerated structure universe; library round trips judged by TLC (Trace_Wire)',
   text='TLC enumerates structures (all ordered pairs - triples in thorough - of 40 user-information sub-item variants, presentation-context lists, item orders, header boundary values, all small PDUs), checks RoundTrip/TotalLength/LengthsExact of the reference on each; every structure plus thousands of seeded random ones is built with the public classes, encoded, decoded and re-encoded; TLC judges round-trip identity clause by clause; payloads beyond 64 KiB are judged with the certified reference.',
   note='Trusts the transcription of PS3.8 9.3 / PS3.7 Annex D in specs/Wire.tla (self-checked by RoundTrip, LengthsExact) and the projection harness/wirelib.py; AE-title padding is not significant.'),
 'C02': dict(level='model_checking', ref='4 (C02)',
   technique='TLA+ Wire.tla as independent length-driven reference; TLC judges library bytes against Enc(s) and library decode of reference encodings against s (Trace_Wire)',
   text='Same universe as C01. Library -> standard: the bytes of encode() must equal TLC\'s Enc of the structure (up to AE-title padding) and total_length must equal the byte count. Standard -> library: reference encodings, including item orders, unknown sub-item types, several transfer syntaxes and PDVs the library never emits, are decoded by the library and compared field by field by TLC. harness/wire_ref.py is certified against TLC\'s Enc on every case.',
   note='Trusts the transcription in specs/Wire.tla; symmetric mistakes invisible to C01 are visible here because the reference is independent of pdu.py.'),
 'C06': dict(level='model_checking', ref='4 (C06)',
   technique='TLA+ Dimse.tla sender explored by TLC; fragment sequences produced by the real Association.send validated as traces by TLC (code->spec)',
   text='MC_Dimse explores every fragmentation within bounds (SizeBound with 32-bit limbs, NonEmpty, CommandBeforeData, one last fragment per stream and final, SenderNeverStuck). Real sends of all 23 classes x data absent/bytes/file x lengths around multiples of the fragment size x maxima 7..100 (300 thorough) and 2^k, 2^k+-1 to 2^32-1 x context ids are parsed by the reference parser into traces TLC validates; concatenation equality is evaluated on the designated slices.',
   note='One PDV per P-DATA-TF required (what the library does). Byte equality evaluated by the harness, sizes/flags/order/tiling by TLC.'),
 'C07': dict(level='model_checking', ref='4 (C07)',
   technique='TLA+ Dimse.tla grouper+reassembler explored exhaustively by TLC; every TLC behaviour replayed into the real DIMSEDecoder (spec->code); decoder traces on regrouped library fragments validated by TLC (code->spec)',
   text='Every fragmentation x every grouping within bounds is printed by TLC with the reassembler\'s verdict after each PDU; each is concretised with real command sets of all 23 command fields and real data sets and replayed into fsm.DIMSEDecoder (in memory and file backed): receiving must match after every PDU; class, context, command set, data bytes, Part-10 readability and transfer syntax at completion.',
   note='Abstract fragment sizes are concretised as proportional cuts. File-backed reception uses C-STORE-RQ (what it is configured for).'),
 'C08': dict(level='model_checking', ref='4 (C08)',
   technique='TLA+ MsgObject.tla; all operation sequences enumerated by TLC and replayed on real message objects (spec->code); measurements of the independent reader validated by TLC (code->spec)',
   text='MC_MsgObject enumerates set-field / set-data-set / send sequences of bounded depth for all 23 classes; each Send goes through Association.send, the command fragments are read by an independent implicit-VR-LE reader; TLC validates group length = bytes following, ascending tags, PS3.7 command field, flag 0101H iff no data fragments, data iff attached, current field lengths. Seeded sequences with UID lengths 1..64 added.',
   note='Two variable fields per class are exercised; independent reader harness/cmdset.py.'),
 'C09': dict(level='model_checking', ref='4 (C09)',
   technique='TLA+ Negotiation.tla acceptor relation (MC: never empty, rejects wrong answers); real AssociationAcceptor constructor+handler run per case, membership decided by TLC',
   text='All 64 configurations x all requests with 0..1 contexts (every ordered list of 1..3 of 4 transfer syntaxes, served/unserved abstract syntaxes), pairs of contexts (all 14400 in thorough), seeded requests up to 60 contexts: the real handler (constructor, _establish, accept, _loop) runs on a scripted provider; answer, routing tables and dispatch are judged by TLC clause by clause.',
   note='Transfer-syntax choice and rejection reason are free (membership).'),
 'C10': dict(level='model_checking', ref='4 (C10)',
   technique='TLA+ Negotiation.tla MaxLenClauses with 32-bit limbs + Dimse progress; real negotiation and sends on the boundary grid judged by TLC',
   text='Every pair of the grid {0,7,8,127,128,1024,16384,65536,2^31,2^32-1} x acceptor / requester / acceptor with the sub-item not first: announced value <= configured unless unlimited, every P-DATA-TF <= peer announcement (0 restricts nothing), all bytes of messages smaller/equal/several times the fragment size delivered.',
   note='Send limit may be anything <= the peer announcement.'),
 'C11': dict(level='model_checking', ref='4 (C11)',
   technique='TLA+ Negotiation.tla requester clauses; real ClientAE/AE configuration histories and AssociationRequester._request on scripted replies judged by TLC',
   text='Configuration histories with class totals 1..130 (and 140), every accept/reject/transfer-syntax pattern for proposals <= 3 contexts, seeded patterns beyond, RJ replies: request well-formedness, usable table and get_scu lookups judged by TLC. Totals beyond 128 classes are a recorded known finding (F11).',
   note='Disjoint class lists; lookup iff only for add_scu classes.'),
 'C03': dict(level='model_checking', ref='4 (C03)',
   technique='TLA+ Framing/ULProvider specs checked by TLC; TLC trace validation of real provider runs under every cut schedule (code->spec) + baseline comparison',
   text='Framing.tla is explored exhaustively (every delivery schedule: Conservation, PrefixOfSent, Aligned, AllRecognised). The real run() loop is replayed on a deterministic transport for every conversation of a 19-conversation corpus under every single cut offset, dribble, all-at-once, pairs of cuts (all pairs in thorough) and k-cuts, with/without the first segment waiting; each execution is validated step by step by TLC against Trace_ULProvider (frames cut exactly when complete, FIFO events, PairedSlot) and compared with the one-PDU-per-segment run.',
   note=PROV_NOTE),
 'C04': dict(level='model_checking', ref='4 (C04)',
   technique='TLA+ cell model (ULFsm/ULFsmCells) explored by TLC; one implementation test per TLC transition (spec->code replay)',
   text='TLC enumerates every <<state,event,role>> of the Table 9-10 model (exhaustive, 2x247 cells, 123 defined per role, invariants on the transcription itself); every TLC transition and every undefined cell is executed on the real StateMachine with each applicable primitive kind and all five observable surfaces are compared. Exhaustive over the finite cell space.',
   note='Trusts the transcription of PS3.8 Table 9-10 in specs/ULFsm.tla (self-checked: 123 cells, ARTIM invariant) and the recording socket/clock shims of harness/simnet.py.'),
 'C05': dict(level='model_checking', ref='4 (C05)',
   technique='TLA+ ULProvider spec model-checked by TLC (safety+liveness); TLC trace validation of real provider executions driven by seeded walks (code->spec) and by TLC-simulated behaviours (spec->code)',
   text='MC_ULProvider (provider loop + Table 9-10 + budgeted peer/network/user/clock) is checked exhaustively by TLC for both roles: ArtimExactly, IdleImpliesClosed, PairedSlot, ToldGone, PDataOnlyWhenEstablished, NoIndicationAfterEnd, leads-to properties under fairness. The unmodified run() loop is stepped over a simulated transport: seeded random walks over the full event alphabet, TLC -simulate behaviours replayed as drivers, and the conversation corpus; every recorded iteration (event consumed, state, wire, indications, socket, ARTIM, queue, buffer) must be a step of the specification, all invariants evaluated at every step.',
   note=PROV_NOTE),
 'C12': dict(level='model_checking', ref='4 (C12)',
   technique='TLA+ ULProvider with fault vocabulary model-checked by TLC; structure-aware mutants of every peer PDU in every protocol state executed on the real provider, traces validated by TLC',
   text='The specification with grey/unknown/truncated frames is model-checked (Faults=TRUE) for the same safety and liveness properties. Every peer PDU of every corpus conversation is replaced by ~60-120 structure-aware mutants (truncation, length fields, item/sub-item lengths and types, PDV and command-set corruption, bit flips, random bytes) followed by the peer closing; a dead loop, a blocking call, a malformed PDU on the wire, a missing A-ABORT/abort indication or a provider that is not home afterwards cannot be matched by any specification step.',
   note=PROV_NOTE + ' One mutated PDU per run.'),
 'C13': dict(level='model_checking', ref='4 (C13)',
   technique='TLA+ liveness (leads-to under fairness, no state constraint) checked by TLC; endings enumerated on the real provider in virtual time, traces validated by TLC with a Home postcondition',
   text='Sta13Leaves, Sta2Leaves, FinHome are checked by TLC on MC_ULProvider with a finite peer and unbudgeted time. On the real loop: disconnection after every byte prefix of the peer stream and after every local step of every corpus conversation (both roles), peer silence after every step (clock advanced past ARTIM where armed), stop request at every quiescent point; the End event of the trace specification requires Sta1, transport closed, ARTIM off and the user told.',
   note=PROV_NOTE + ' Provider level; Association.kill/release/abort are covered under C14.'),
}
checks, na = [], []
for p in props:
    pid = p['id']
    if pid in claimed:
        c = claimed[pid]
        checks.append({'property_id': pid, 'quick_cmd': './check %s --tier quick' % pid, 'thorough_cmd': './check %s --tier thorough' % pid,
          'evidence_file': 'evidence/%s.json' % pid, 'replay_cmd_template': './check %s --replay {path}' % pid,
          'engine': 'tlc+harness', 'level_claimed': {'category': c['level'], 'text': c['text'], 'design_ref': c['ref']},
          'level_note': c['note'], 'technique': c['technique']})
    else:
        na.append({'property_id': pid, 'reason': 'check not built yet in this revision (planned: see DESIGN.md section 4); not a statement about applicability'})
m = {'version': 1, 'setup_cmd': './setup.sh',
 'hooks': {'guard': 'PYNETDICOM2_VERIF', 'enable': 'no source hooks: checks import /repo directly and attach from outside (subclass + module-attribute shims); ./check exports PYNETDICOM2_VERIF=1',
   'baseline_off_cmd': 'cd /repo && env -u PYNETDICOM2_VERIF /venv/bin/python -m pytest -ra -q -p no:cacheprovider --timeout=900 --continue-on-collection-errors --junitxml=/tmp/baseline_off.junit.xml',
   'source_commits': [], 'add_only': True},
 'engines': [{'name': 'tlc+harness', 'path': 'check', 'serves_properties': [c['property_id'] for c in checks],
   'kind_free_text': 'TLA+ specifications under specs/ checked by TLC; Python harness under harness/ replays TLC behaviours into the real code and has TLC validate traces recorded from it'}],
 'checks': checks, 'not_applicable': na,
 'notes': 'See DESIGN.md. Exit 0 held / 1 VIOLATION / 2 machinery failure. known_findings.json lists genuine defects (all currently fixed by fix: commits in /repo).'}
json.dump(m, open(os.path.join(V, 'MANIFEST.json'), 'w'), indent=1)
print('claimed', [c['property_id'] for c in checks])
