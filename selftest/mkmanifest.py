#!/usr/bin/env python3
"""Regenerates MANIFEST.json from the table below (kept here so that the manifest is always consistent
with the checks that exist)."""
import json, os
V = os.path.dirname(os.path.dirname(os.path.abspath(__file__)))
props = [json.loads(l) for l in open(os.path.join(V, 'properties.jsonl'))]
PROV_NOTE = ('Trusts: the transcription of PS3.8 Table 9-10 in specs/ULFsm.tla; the simulated socket / select / clock of '
             'harness/simnet.py standing for TCP and time; the projection of provider state in harness/ulrun.py; TLC.')
claimed = {
 'C03': dict(level='model_checking', ref='4 (C03)',
   technique='TLA+ Framing/ULProvider specs checked by TLC; TLC trace validation of real provider runs under every cut schedule (code->spec) + baseline comparison',
   text='Framing.tla is explored exhaustively (every delivery schedule: Conservation, PrefixOfSent, Aligned, AllRecognised). The real run() loop is replayed on a deterministic transport for every conversation of a 19-conversation corpus under every single cut offset, dribble, all-at-once, pairs of cuts (all pairs in thorough) and k-cuts, with/without the first segment waiting; each execution is validated step by step by TLC against Trace_ULProvider (frames cut exactly when complete, FIFO events, PairedSlot) and compared with the one-PDU-per-segment run.',
   note=PROV_NOTE),
 'C04': dict(level='model_checking', ref='4 (C04)',
   technique='TLA+ cell model (ULFsm/ULFsmCells) explored by TLC; one implementation test per TLC transition (spec->code replay)',
   text='TLC enumerates every <<state,event,role>> of the Table 9-10 model (exhaustive, 2x247 cells, 123 defined per role, invariants on the transcription itself); every TLC transition and every undefined cell is executed on the real StateMachine with each applicable primitive kind and all five observable surfaces are compared. Exhaustive over the finite cell space.',
   note='Trusts the transcription of PS3.8 Table 9-10 in specs/ULFsm.tla (self-checked: 123 cells, ARTIM invariant) and the recording socket/clock shims of harness/simnet.py.'),
 'C05': dict(level='model_checking', ref='4 (C05)',
   technique='TLA+ ULProvider spec model-checked by TLC (safety+liveness); TLC trace validation of real provider executions driven by seeded walks (code->spec) and by TLC-simulated behaviours (spec->code)',
   text='MC_ULProvider (provider loop + Table 9-10 + budgeted peer/network/user/clock) is checked exhaustively by TLC for both roles: ArtimExactly, IdleImpliesClosed, PairedSlot, ToldGone, PDataOnlyWhenEstablished, NoIndicationAfterEnd, leads-to properties under fairness. The unmodified run() loop is stepped over a simulated transport: seeded random walks over the full event alphabet, TLC -simulate behaviours replayed as drivers, and the conversation corpus; every recorded iteration (event consumed, state, wire, indications, socket, ARTIM, queue, buffer) must be a step of the specification, all invariants evaluated at every step.',
   note=PROV_NOTE),
 'C12': dict(level='model_checking', ref='4 (C12)',
   technique='TLA+ ULProvider with fault vocabulary model-checked by TLC; structure-aware mutants of every peer PDU in every protocol state executed on the real provider, traces validated by TLC',
   text='The specification with grey/unknown/truncated frames is model-checked (Faults=TRUE) for the same safety and liveness properties. Every peer PDU of every corpus conversation is replaced by ~60-120 structure-aware mutants (truncation, length fields, item/sub-item lengths and types, PDV and command-set corruption, bit flips, random bytes) followed by the peer closing; a dead loop, a blocking call, a malformed PDU on the wire, a missing A-ABORT/abort indication or a provider that is not home afterwards cannot be matched by any specification step.',
   note=PROV_NOTE + ' One mutated PDU per run.'),
 'C13': dict(level='model_checking', ref='4 (C13)',
   technique='TLA+ liveness (leads-to under fairness, no state constraint) checked by TLC; endings enumerated on the real provider in virtual time, traces validated by TLC with a Home postcondition',
   text='Sta13Leaves, Sta2Leaves, FinHome are checked by TLC on MC_ULProvider with a finite peer and unbudgeted time. On the real loop: disconnection after every byte prefix of the peer stream and after every local step of every corpus conversation (both roles), peer silence after every step (clock advanced past ARTIM where armed), stop request at every quiescent point; the End event of the trace specification requires Sta1, transport closed, ARTIM off and the user told.',
   note=PROV_NOTE + ' Provider level; Association.kill/release/abort are covered under C14.'),
}
checks, na = [], []
for p in props:
    pid = p['id']
    if pid in claimed:
        c = claimed[pid]
        checks.append({'property_id': pid, 'quick_cmd': './check %s --tier quick' % pid, 'thorough_cmd': './check %s --tier thorough' % pid,
          'evidence_file': 'evidence/%s.json' % pid, 'replay_cmd_template': './check %s --replay {path}' % pid,
          'engine': 'tlc+harness', 'level_claimed': {'category': c['level'], 'text': c['text'], 'design_ref': c['ref']},
          'level_note': c['note'], 'technique': c['technique']})
    else:
        na.append({'property_id': pid, 'reason': 'check not built yet in this revision (planned: see DESIGN.md section 4); not a statement about applicability'})
m = {'version': 1, 'setup_cmd': './setup.sh',
 'hooks': {'guard': 'PYNETDICOM2_VERIF', 'enable': 'no source hooks: checks import /repo directly and attach from outside (subclass + module-attribute shims); ./check exports PYNETDICOM2_VERIF=1',
   'baseline_off_cmd': 'cd /repo && env -u PYNETDICOM2_VERIF /venv/bin/python -m pytest -ra -q -p no:cacheprovider --timeout=900 --continue-on-collection-errors --junitxml=/tmp/baseline_off.junit.xml',
   'source_commits': [], 'add_only': True},
 'engines': [{'name': 'tlc+harness', 'path': 'check', 'serves_properties': [c['property_id'] for c in checks],
   'kind_free_text': 'TLA+ specifications under specs/ checked by TLC; Python harness under harness/ replays TLC behaviours into the real code and has TLC validate traces recorded from it'}],
 'checks': checks, 'not_applicable': na,
 'notes': 'See DESIGN.md. Exit 0 held / 1 VIOLATION / 2 machinery failure. known_findings.json lists genuine defects (all currently fixed by fix: commits in /repo).'}
json.dump(m, open(os.path.join(V, 'MANIFEST.json'), 'w'), indent=1)
print('claimed', [c['property_id'] for c in checks])
