# rebase_seed.sh <seed-id> : apply with fuzz / 3-way on current HEAD, regenerate the patch, verify tests + demo
n=$1; WT=/tmp/wt/rebase_$n; rm -rf $WT; git -C /repo worktree add -q --detach $WT HEAD
D0=$( /venv/bin/python /verif/seeded/$n/demo.py $WT >/dev/null 2>&1; echo $? )
cd $WT
if ! patch -p1 -s -F3 --no-backup-if-mismatch < /verif/seeded/$n/patch.diff >/dev/null 2>&1; then git reset -q --hard; git apply -3 /verif/seeded/$n/patch.diff >/dev/null 2>&1 || { echo "$n: CANNOT-APPLY"; cd /; git -C /repo worktree remove --force $WT; exit 1; }; fi
find . -name "*.orig" -delete; find . -name "*.rej" -delete
git diff > /tmp/rebased_$n.diff
T=$( /venv/bin/python -m pytest -q -p no:cacheprovider tests/test_dimsemessages.py tests/test_pdu.py 2>&1 | tail -1 )
D1=$( /venv/bin/python /verif/seeded/$n/demo.py $WT >/dev/null 2>&1; echo $? )
cd /; git -C /repo worktree remove --force $WT
if [ "$D0" = 0 ] && [ "$D1" = 1 ] && echo "$T" | grep -q "70 passed"; then
  cp /tmp/rebased_$n.diff /verif/seeded/$n/patch.diff
  /venv/bin/python - /verif/seeded/$n/meta.json $(git -C /repo rev-parse --short HEAD) <<'PY'
import json, sys
m = json.load(open(sys.argv[1]))
m.setdefault('rebased', []).append({'onto': sys.argv[2], 'how': 'patch -F3 / git apply -3 on the repaired tree; 70 tests pass with it, demo exits 1 with it and 0 without'})
json.dump(m, open(sys.argv[1], 'w'), indent=1)
PY
  echo "$n: REBASED"
else
  echo "$n: REBASE-NOT-VERIFIED (demo HEAD=$D0 with=$D1 tests=$T)"
fi
