"""Running the library's service callables (sopclass.py) against a scripted association.

The association object is a REAL asceprovider.Association (its send / receive are the library's),
whose provider is replaced by LazyDul: what send() hands over - the lazy generator of P-DATA-TF
PDUs - is iterated only when the schedule says the provider thread gets to run (eagerly, k messages
behind, or only when the application blocks / returns), then encoded to bytes and read back by the
independent readers (wire_ref + cmdset).  Requests and replies reach the callables the way they
really do: reference-encoded command sets and data sets cut into PDUs and reassembled by the real
DIMSEDecoder."""
from __future__ import annotations

import contextlib
import hashlib

from .common import import_repo, Machinery
from . import wire_ref as W, cmdset, dimselib as D

import_repo()
from pynetdicom2 import asceprovider, applicationentity, exceptions, dimsemessages as dm, fsm, pdu, statuses, sopclass  # noqa: E402
from pydicom import uid as pyuid  # noqa: E402

IMPLICIT = pyuid.ImplicitVRLittleEndian


def token(b):
    """Data set bytes -> small positive integer token (0 = no data set)."""
    if not b:
        return 0
    return 1 + int(hashlib.sha1(bytes(b)).hexdigest()[:7], 16)


class WireMsg(object):
    """One DIMSE message as read from its wire form by the independent readers."""

    def __init__(self, ctx, cmd, data, ndata, complete=True):
        self.complete = complete
        self.ctx = ctx
        self.raw_cmd = cmd
        self.elems = dict(cmdset.read(cmd))
        self.data = data
        self.ndata = ndata

    def u16(self, tag, default=-1):
        v = self.elems.get(tag)
        return cmdset.as_int(v) if v is not None and len(v) in (2, 4) else default

    def text(self, tag):
        v = self.elems.get(tag)
        return cmdset.text(v) if v is not None else ''

    @property
    def type(self):
        return self.u16(cmdset.TAG_COMMAND_FIELD)

    def record(self):
        cls = self.text(cmdset.TAG_AFF_SOP_CLASS) or self.text(cmdset.TAG_REQ_SOP_CLASS)
        inst = self.text(cmdset.TAG_AFF_SOP_INST) or self.text(cmdset.TAG_REQ_SOP_INST)
        return {'complete': bool(self.complete), 'type': self.type, 'ctx': self.ctx, 'rmid': self.u16(cmdset.TAG_MSG_ID_RSP), 'mid': self.u16(cmdset.TAG_MSG_ID),
                'cls': cls, 'inst': inst, 'status': self.u16(cmdset.TAG_STATUS), 'd': token(self.data),
                'rem': self.u16(cmdset.TAG_REMAINING), 'comp': self.u16(cmdset.TAG_COMPLETED),
                'fail': self.u16(cmdset.TAG_FAILED), 'warn': self.u16(cmdset.TAG_WARNING)}


class LazyDul(object):
    """Provider stub.  policy: 'eager' | ('lag', k) | 'blocked' (drain only when the application blocks in
    receive() or the call returns) | 'starved' (the provider loop serves the network before the outgoing queue:
    as long as incoming messages are available they are delivered first; outgoing messages are encoded only when
    nothing more is coming in, or at the end)."""

    def __init__(self, policy='eager', replies=()):
        self.policy = policy
        self.pending = []
        self.wire = []           # WireMsg in the order they were encoded
        self.sent_count = 0
        self.replies = list(replies)
        self.accepted_contexts = {}
        self.on_wire = None      # callback(WireMsg) -> optional list of replies to queue

    def send(self, item):
        if hasattr(item, 'pdu_type'):
            self.wire.append(item)
            return
        self.pending.append(item)
        self.sent_count += 1
        if self.policy == 'eager':
            self.drain()
        elif isinstance(self.policy, tuple):
            while len(self.pending) > self.policy[1]:
                self.drain(1)

    def drain(self, n=None):
        while self.pending and (n is None or n > 0):
            gen = self.pending.pop(0)
            cmd, data, ndata, ctx = b'', b'', 0, None
            cmd_last = data_last = False
            for p in gen:
                _, pdvs, _ = D.parse_pdata(p)
                for c, h, payload in pdvs:
                    ctx = c
                    if h & 1:
                        cmd += payload
                        cmd_last = cmd_last or bool(h & 2)
                    else:
                        data += payload
                        ndata += 1
                        data_last = data_last or bool(h & 2)
            # a receiver completes the message only when the last-fragment flags say so
            try:
                needs_data = cmdset.as_int(dict(cmdset.read(cmd)).get(cmdset.TAG_DS_TYPE, b'\x01\x01')) != 0x0101
            except cmdset.CmdError:
                needs_data = False
            complete = cmd_last and (data_last if (needs_data or ndata) else True)
            m = WireMsg(ctx, cmd, data, ndata, complete)
            self.wire.append(m)
            if self.on_wire:
                more = self.on_wire(m)
                if more:
                    self.replies.extend(more)
            if n is not None:
                n -= 1

    def receive(self, timeout=None):
        if self.policy != 'starved' or not self.replies:
            self.drain()             # the application blocks: the provider thread runs
        if not self.replies:
            raise exceptions.DCMTimeoutError()
        r = self.replies.pop(0)
        if isinstance(r, Exception):
            raise r
        return r

    def stop(self):
        return True

    def kill(self):
        pass


def decode_message(cmd_bytes, data_bytes, pc_id, max_payload=60):
    """Reference bytes -> library message object, through PDUs and the real DIMSEDecoder."""
    dec = fsm.DIMSEDecoder({}, frozenset(), None)
    frs = [(True, cmd_bytes[i:i + max_payload]) for i in range(0, len(cmd_bytes), max_payload)]
    frs = [(c, b, i == len(frs) - 1) for i, (c, b) in enumerate(frs)]
    dfr = [data_bytes[i:i + max_payload] for i in range(0, len(data_bytes), max_payload)] if data_bytes else []
    frs += [(False, b, i == len(dfr) - 1) for i, b in enumerate(dfr)]
    for is_cmd, payload, last in frs:
        b = W.enc_pdu({'t': 4, 'pdvs': [{'ctx': pc_id, 'val': bytes([(1 if is_cmd else 0) | (2 if last else 0)]) + payload}]})
        dec.process(pdu.PDataTfPDU.decode(b))
    if dec.receiving:
        raise Machinery('reference message did not reassemble')
    return dec.msg


def request_bytes(cmd_field, mid, cls_uid, inst_uid=None, has_data=True, extra=()):
    el = [(cmdset.TAG_COMMAND_FIELD, cmdset.us(cmd_field)), (cmdset.TAG_MSG_ID, cmdset.us(mid)),
          (cmdset.TAG_DS_TYPE, cmdset.us(0x0001 if has_data else 0x0101))]
    requested = cmd_field in (0x0110, 0x0120, 0x0130, 0x0150)
    el.append((cmdset.TAG_REQ_SOP_CLASS if requested else cmdset.TAG_AFF_SOP_CLASS, cmdset.ui(cls_uid)))
    if inst_uid is not None:
        el.append((cmdset.TAG_REQ_SOP_INST if requested else cmdset.TAG_AFF_SOP_INST, cmdset.ui(inst_uid)))
    if cmd_field in (0x0001, 0x0020, 0x0010, 0x0021):
        el.append((cmdset.TAG_PRIORITY, cmdset.us(0)))
    el.extend(extra)
    return cmdset.write(el)


def response_bytes(cmd_field, rmid, cls_uid, status, has_data=False, inst_uid=None, extra=()):
    el = [(cmdset.TAG_COMMAND_FIELD, cmdset.us(cmd_field)), (cmdset.TAG_MSG_ID_RSP, cmdset.us(rmid)),
          (cmdset.TAG_DS_TYPE, cmdset.us(0x0001 if has_data else 0x0101)), (cmdset.TAG_STATUS, cmdset.us(status)),
          (cmdset.TAG_AFF_SOP_CLASS, cmdset.ui(cls_uid))]
    if inst_uid is not None:
        el.append((cmdset.TAG_AFF_SOP_INST, cmdset.ui(inst_uid)))
    el.extend(extra)
    return cmdset.write(el)


class ScriptAE(applicationentity.ClientAE):
    """Application entity whose handlers are scripted by the test."""

    def __init__(self, max_pdu_length=16384):
        super(ScriptAE, self).__init__('VERIF-AE', supported_ts=[IMPLICIT], max_pdu_length=max_pdu_length)
        self.script = {}
        self.calls = []
        self.sub_associations = []
        self.timeout = 1

    def _do(self, name, *args):
        self.calls.append((name, args))
        out = self.script[name]
        if isinstance(out, Exception):
            raise out
        if callable(out):
            return out(*args)
        return out

    def on_receive_echo(self, context):
        return self._do('echo', context)

    def on_receive_store(self, context, ds):
        return self._do('store', context, ds)

    def on_receive_find(self, context, ds):
        return self._do('find', context, ds)

    def on_receive_move(self, context, ds, destination):
        return self._do('move', context, ds, destination)

    def on_commitment_request(self, remote_ae, uids):
        return self._do('commit_rq', remote_ae, list(uids))

    def on_commitment_response(self, transaction_uid, success, failure):
        return self._do('commit_rsp', transaction_uid, list(success), list(failure))

    @contextlib.contextmanager
    def request_association(self, remote_ae):
        sub = SubAssociation(self, remote_ae)
        self.sub_associations.append(sub)
        yield sub
        sub.released = True


SUB_CTX = 9


class SubAssociation(object):
    """Recording stand-in for the sub-association a provider opens (C-MOVE destination, N-EVENT-REPORT)."""

    def __init__(self, ae, remote_ae):
        self.ae = ae
        self.remote_ae = remote_ae
        self.stores = []          # (sop class asked, dataset, msg id)
        self.sent = []
        self.released = False
        self.store_status = []    # statuses to return, in order
        self.reply = None
        # what THIS association negotiated: another context id and another transfer syntax than the association the
        # provider is serving (whatever class is asked for)
        import pydicom.uid as _u

        class _Negotiated(dict):
            def __missing__(self, key):
                return (SUB_CTX, _u.ExplicitVRLittleEndian)
        self.sop_classes_as_scu = _Negotiated()

    def get_scu(self, sop_class):
        def service(dataset, msg_id):
            self.stores.append((str(sop_class), dataset, msg_id))
            code = self.store_status.pop(0) if self.store_status else 0
            return statuses.Status(code, dm.CStoreRSPMessage)
        return service

    def send(self, msg, pc_id):
        msg.set_length()
        a = D.bare_association(16384)
        a.send(msg, pc_id)
        cmd, data = b'', b''
        for p in a.dul.sent[0]:
            _, pdvs, _ = D.parse_pdata(p)
            for c, h, payload in pdvs:
                if h & 1:
                    cmd += payload
                else:
                    data += payload
        self.sent.append(WireMsg(pc_id, cmd, data, 0))

    def receive(self):
        return self.reply


def make_association(ae, policy='eager', replies=(), max_len=16384):
    a = D.bare_association(max_len, ae)
    a.dul = LazyDul(policy, replies)
    a.remote_ae = 'REMOTE'
    return a


def ctx_def(pc_id, sop_class, ts=IMPLICIT):
    return asceprovider.PContextDef(pc_id, pyuid.UID(sop_class), ts)
