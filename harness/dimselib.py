"""Helpers shared by C06 / C07 / C08 / C10: building real DIMSE messages of every class, sending
them through the real Association.send on a recording provider, parsing the produced P-DATA-TF
PDUs with the reference parser, and feeding PDUs to a real DIMSEDecoder."""
from __future__ import annotations

import io
import random
import struct

from .common import import_repo, Machinery
from . import wire_ref as W, cmdset
from . import dsref

import_repo()
from pynetdicom2 import dimsemessages as dm, asceprovider, dsutils, fsm, pdu, applicationentity, sopclass  # noqa: E402
import pydicom  # noqa: E402
from pydicom import uid as pyuid  # noqa: E402

CLASSES = [dm.MESSAGE_TYPE[k] for k in sorted(dm.MESSAGE_TYPE)]      # the 23 message classes
# PS3.7 section 9.3 / 10.3: command field codes, transcribed from the standard (also in MsgObject.tla)
PS37_COMMAND_FIELD = {
    'CStoreRQMessage': 0x0001, 'CStoreRSPMessage': 0x8001, 'CGetRQMessage': 0x0010, 'CGetRSPMessage': 0x8010,
    'CFindRQMessage': 0x0020, 'CFindRSPMessage': 0x8020, 'CMoveRQMessage': 0x0021, 'CMoveRSPMessage': 0x8021,
    'CEchoRQMessage': 0x0030, 'CEchoRSPMessage': 0x8030, 'NEventReportRQMessage': 0x0100, 'NEventReportRSPMessage': 0x8100,
    'NGetRQMessage': 0x0110, 'NGetRSPMessage': 0x8110, 'NSetRQMessage': 0x0120, 'NSetRSPMessage': 0x8120,
    'NActionRQMessage': 0x0130, 'NActionRSPMessage': 0x8130, 'NCreateRQMessage': 0x0140, 'NCreateRSPMessage': 0x8140,
    'NDeleteRQMessage': 0x0150, 'NDeleteRSPMessage': 0x8150, 'CCancelRQMessage': 0x0FFF,
}

UID_FIELDS = {'AffectedSOPClassUID', 'RequestedSOPClassUID', 'AffectedSOPInstanceUID', 'RequestedSOPInstanceUID'}


def make_uid(n, salt=0):
    """A syntactically valid UID of exactly n characters."""
    base = '1.2.%d' % (840 + salt)
    s = base
    while len(s) < n:
        s += '.' + str((len(s) * 7 + salt) % 10)
    s = s[:n]
    if s.endswith('.'):
        s = s[:-1] + '7'
    return s if n >= 1 else ''


def fill(msg, rng, uid_len=None):
    """Give every field of a freshly constructed message a value (the way the services do)."""
    cs = msg.command_set
    for name in type(msg).command_fields:
        if name == 'CommandGroupLength':
            continue
        if name in UID_FIELDS:
            setattr(cs, name, make_uid(uid_len or rng.randint(1, 64), rng.randint(0, 99)))
        elif name in ('MessageID', 'MessageIDBeingRespondedTo', 'Status', 'EventTypeID', 'ActionTypeID',
                      'NumberOfRemainingSuboperations', 'NumberOfCompletedSuboperations', 'NumberOfFailedSuboperations',
                      'NumberOfWarningSuboperations', 'MoveOriginatorMessageID'):
            setattr(cs, name, rng.choice([0, 1, 0xFFFF, 0x7FFF, rng.randint(0, 0xFFFF)]))
        elif name == 'Priority':
            setattr(cs, name, rng.choice([0, 1, 2]))
        elif name in ('MoveDestination', 'MoveOriginatorApplicationEntityTitle'):
            setattr(cs, name, 'AE' + 'X' * rng.randint(0, 14))
        elif name == 'AttributeIdentifierList':
            setattr(cs, name, [0x00100010, 0x00100020][:rng.randint(0, 2)])
    return msg


class RecordingDul(object):
    """Stands for the DUL provider behind an Association: collects what send() is given."""

    def __init__(self, max_pdu_length=1 << 20):
        self.sent = []
        self.accepted_contexts = {}
        self.max_pdu_length = max_pdu_length      # the real provider keeps the LOCAL (receive side) maximum here

    def send(self, item):
        if hasattr(item, 'pdu_type'):
            self.sent.append([item])
        else:
            self.sent.append(list(item))       # the generator of P-DATA-TF PDUs


def bare_association(max_pdu_length, ae=None):
    """A real asceprovider.Association whose dul is a RecordingDul (no thread, no socket)."""
    a = asceprovider.Association.__new__(asceprovider.Association)
    if ae is None:
        # the entity's CONFIGURED maximum is not the one in force on this association (that is max_pdu_length below)
        import types
        ae = types.SimpleNamespace(max_pdu_length=4 * max(max_pdu_length, 64) + 1000, timeout=5)
    a.ae = ae
    a.dul = RecordingDul()
    a.association_established = True
    a.max_pdu_length = max_pdu_length
    a.accepted_contexts = {}
    return a


def parse_pdata(p):
    """library PDataTfPDU -> (declared PDU length, [(ctx, control header, payload bytes)]) via the reference parser."""
    b = p.encode()
    d = W.dec_pdu(b)
    if d['t'] != 4:
        raise Machinery('not a P-DATA-TF')
    declared = struct.unpack('>I', b[2:6])[0]
    out = []
    for v in d['pdvs']:
        if len(v['val']) < 1:
            out.append((v['ctx'], None, b''))
        else:
            out.append((v['ctx'], v['val'][0], v['val'][1:]))
    return declared, out, len(b)


def limbs(n):
    return (n >> 16) & 0xFFFF, n & 0xFFFF


def send_trace(msg, ctx, max_len, data, as_file, assoc=None, offset=0):
    """Send msg through the real Association.send; returns (trace events for Trace_Dimse, cmd bytes, data bytes, problems)."""
    if data:
        if as_file:
            fp = io.BytesIO(bytes((7 * i) % 251 for i in range(offset)) + data)
            fp.seek(offset)
            msg.data_set = fp
        else:
            msg.data_set = data
    if assoc is None:
        assoc = bare_association(max_len)
    else:
        assoc.dul.sent = []
    problems = []
    try:
        assoc.send(msg, ctx)
        pdus = assoc.dul.sent[0]
    except Exception as exc:      # noqa
        return None, None, None, ['send raised %s: %s' % (type(exc).__name__, exc)]
    try:
        expected_cmd = cmdset.encode_dataset(msg.command_set)        # independent of the library's encoder
    except cmdset.CmdError as exc:
        raise Machinery('command set not encodable by the reference: %s' % exc)
    hi, lo = limbs(max_len)
    tr = [{'ev': 'Msg', 'lc': len(expected_cmd), 'ld': len(data or b''), 'maxHi': hi, 'maxLo': lo, 'ctx': ctx}]
    cmd, dat = b'', b''
    for p in pdus:
        declared, pdvs, total = parse_pdata(p)
        if total != declared + 6:
            problems.append('PDU length field %d but %d bytes emitted' % (declared, total))
        if len(pdvs) != 1:
            problems.append('%d PDVs in one P-DATA-TF' % len(pdvs))
        for c, h, payload in pdvs:
            if h is None or h > 3:
                problems.append('invalid message control header %r' % h)
                h = 0
            is_cmd = bool(h & 1)
            last = bool(h & 2)
            tr.append({'ev': 'Frag', 'cmd': is_cmd, 'last': last, 'n': len(payload), 'ctx': c, 'pdulen': declared})
            if is_cmd:
                cmd += payload
            else:
                dat += payload
    tr.append({'ev': 'SendDone'})
    if cmd != expected_cmd:
        problems.append('concatenated command fragments differ from the encoded command set')
    if dat != (data or b''):
        problems.append('concatenated data fragments differ from the data set (%d bytes vs %d)' % (len(dat), len(data or b'')))
    return tr, cmd, dat, problems


def dataset_bytes(rng, size_hint, ts=pyuid.ImplicitVRLittleEndian):
    ds = pydicom.Dataset()
    ds.PatientName = 'Test^' + 'N' * rng.randint(0, 9)
    ds.PatientID = 'ID%d' % rng.randint(0, 99999)
    ds.SOPClassUID = '1.2.840.10008.5.1.4.1.1.7'
    ds.SOPInstanceUID = make_uid(rng.randint(8, 40), rng.randint(0, 9))
    if size_hint > 60:
        ds.PixelData = bytes(rng.getrandbits(8) for _ in range((size_hint - 60) // 2 * 2))
        ds['PixelData'].VR = 'OB'
    return dsref.encode(ds, ts.is_implicit_VR, ts.is_little_endian), ds
