"""C06 - DIMSE fragmentation: size bound, fragment flags, byte-exact content.

Spec: specs/Dimse.tla sender (Frag / SendDone: NonEmpty, SizeBound with the 32-bit maximum as limbs,
CommandBeforeData, exactly one last fragment per stream and it is the final one, ContextConstant,
ConcatIsOriginal as tiling of offsets) - explored exhaustively by TLC in MC_Dimse.
Binding (code -> spec): every message class x data set absent / bytes / seekable file x data lengths
around multiples of the fragment size x maxima 7..N and 2^k, 2^k+-1 up to 2^32-1 x context ids is
sent through the real Association.send; the P-DATA-TF PDUs produced are encoded, re-parsed by the
reference parser and turned into a trace that TLC validates against the sender; byte equality of
the concatenated fragments with the command set / data set is evaluated by the harness.
"""
from __future__ import annotations

import random
import sys

from . import tlc, dimselib as D
from .common import Verdict, main_wrapper, Machinery, seed


def cases(tier, rng):
    """Yield (class, ctx, max, data length, as_file)."""
    dense = range(7, 101) if tier == 'quick' else range(7, 301)
    pow2 = []
    for k in range(3, 33):
        for d in (-1, 0, 1):
            v = (1 << k) + d
            if 7 <= v <= 0xFFFFFFFF:
                pow2.append(v)
    store = D.dm.CStoreRQMessage
    # dense maxima, all lengths near multiples of the fragment size, one class, bytes and file
    for m in dense:
        f = m - 6
        lens = sorted({x for k in range(1, 5) for x in (k * f - 2, k * f - 1, k * f, k * f + 1, k * f + 2) if x >= 1} | {1, 2})
        if tier == 'quick' and m > 20:
            lens = [x for x in lens if x % max(f, 1) in (0, 1, f - 1) or x <= 2]
        for ln in lens:
            for as_file in (False, True):
                yield store, rng.choice([1, 3, 127, 255]), m, ln, as_file
    # every class, absent data set and a short / long data set, at a spread of maxima
    for cls in D.CLASSES:
        for m in [7, 8, 9, 16, 64, 117, 118, 1024] + (pow2 if tier == 'thorough' else rng.sample(pow2, 12)):
            f = m - 6
            for ln in (0, 1, min(f, 4096), min(f + 1, 4097), min(3 * f, 9000)):
                yield cls, rng.choice([1, 3, 5, 127, 255]), m, ln, bool(ln and rng.random() < 0.5)
    # all context ids
    for c in (range(1, 256) if tier == 'thorough' else (1, 2, 3, 127, 128, 254, 255)):
        yield store, c, 20, 31, False
    # large maxima with data around the 64 KiB fragment
    for m in pow2[-12:]:
        yield store, 1, m, min(m - 6, 70000), False
        yield store, 1, m, min(m - 5, 70001), True


def main(tier='quick'):
    v = Verdict('C06', tier)
    rng = random.Random(seed())
    mc = tlc.run('MC_Dimse', 'MC_Dimse.cfg' if tier == 'quick' else 'MC_Dimse_thorough.cfg', workers=1, timeout=3000)
    if not mc.ok:
        raise Machinery('Dimse.tla fails TLC: %s %s' % (mc.violated, mc.errors[:2]))
    traces, metas = [], []
    n_nontrivial = 0
    for cls, ctx, m, ln, as_file in cases(tier, rng):
        msg = D.fill(cls(), rng)
        data = bytes(rng.getrandbits(8) for _ in range(ln)) if ln else None
        off = rng.choice([0, 0, 1, 5, 132, 4000]) if as_file else 0      # a file is handed over behind its meta header
        tr, cmd, dat, problems = D.send_trace(msg, ctx, m, data, as_file, offset=off)
        meta = {'class': cls.__name__, 'ctx': ctx, 'max': m, 'data_len': ln, 'file': as_file, 'file_offset': off}
        if tr is None:
            v.report({'site': 'dimsemessages.encode', 'clause': 'raised', 'max_class': 'small' if m < 64 else 'large'},
                     'Association.send raised for %r: %s' % (meta, problems[0]), replay=meta)
            continue
        for pr in problems:
            v.report({'site': 'dimsemessages.encode', 'clause': pr.split(' ')[0] + ' ' + pr.split(' ')[1]},
                     '%s for %r' % (pr, meta), replay=meta)
        if len(tr) > 4:
            n_nontrivial += 1
        traces.append(tr)
        metas.append(meta)
    # the SAME message object transmitted again after its data set was removed / attached or a field was changed in place:
    # every transmission must reproduce the command set and data set the object has at that time
    for i in range(40 if tier == 'quick' else 600):
        cls = [D.dm.CStoreRQMessage, D.dm.CFindRSPMessage, D.dm.CGetRSPMessage, D.dm.NEventReportRQMessage][i % 4]
        msg = D.fill(cls(), rng)
        m = rng.choice([30, 64, 16384])
        for step in range(3):
            kind = ('with', 'without', 'field', 'with')[(i + step) % 4]
            data = None
            if kind == 'with':
                data = bytes(rng.getrandbits(8) for _ in range(rng.choice([2, 40, 200])))
            elif kind == 'without':
                msg.data_set = None
            else:
                # a field edited directly on the command set, same encoded length (what an application may do)
                if hasattr(msg.command_set, 'Status'):
                    msg.command_set.Status = (int(msg.command_set.Status or 0) + 1) % 65536
                elif hasattr(msg.command_set, 'MessageID'):
                    msg.command_set.MessageID = (int(msg.command_set.MessageID or 0) + 1) % 65536
            had = bool(msg.data_set) or bool(data)
            tr, cmd, dat, problems = D.send_trace(msg, 1, m, data, False)
            if not data and had and tr is not None and kind == 'field':
                problems = [p_ for p_ in problems if not p_.startswith('concatenated data fragments')]     # data set kept from before
            meta = {'class': cls.__name__, 'ctx': 1, 'max': m, 'data_len': len(data or b''), 'file': False, 'resend_step': step, 'change': kind}
            if tr is None:
                v.report({'site': 'dimsemessages.encode', 'clause': 'raised', 'max_class': 'resend'}, 'Association.send raised for %r: %s' % (meta, problems[0]), replay=meta)
                break
            for pr in problems:
                v.report({'site': 'dimsemessages.encode', 'clause': pr.split(' ')[0] + ' ' + pr.split(' ')[1]}, '%s for %r' % (pr, meta), replay=meta)
            if kind != 'field' or not had:
                traces.append(tr)
                metas.append(meta)
    # the maximum "in force" is the outcome of a negotiation: real requester / acceptor, every pair of a small grid
    from . import neglib as N, check_c10
    for own in (0, 7, 128, 16384, 65536):
        for peer in (0, 7, 1024, 65536):
            for role in ('requester', 'acceptor'):
                eff = check_c10.effective(own, peer)
                try:
                    if role == 'requester':
                        ae = N.applicationentity.ClientAE('SCU', supported_ts=[N.TS_UID['T1']], max_pdu_length=own)
                        ae.add_scu(N.Recorder([N.AS_UID['S2']]))
                        remote = {'aet': 'SCP', 'address': 'peer', 'port': 104}
                        reply = N.pdu.AAssociateAcPDU.decode(N.ac_bytes('SCP', 'SCU', [{'id': 1, 'res': 0, 'ts': N.TS_UID['T1']}], peer))
                        assoc = N.bare_requester(ae, own, remote, [reply])
                        assoc._request(ae.local_ae, remote, users_pdu=[])
                    else:
                        cfg = {'served': [N.AS_UID['S2']], 'supported': [N.TS_UID['T1']]}
                        rq = {'called': 'SCP', 'calling': 'SCU', 'appctx': N.APP_CTX, 'ctxs': [{'id': 1, 'as': N.AS_UID['S2'], 'ts': [N.TS_UID['T1']]}]}
                        _, assoc, _, _ = N.run_accept(cfg, rq, own_max=own, peer_max=peer, probe=[])
                        assoc.dul = D.RecordingDul(own if own else 1 << 20)
                except Exception as exc:      # noqa - negotiation itself is C09-C11's business
                    continue
                for ln in ([0, 1, 3000] if eff == 0 or eff > 4000 else [0, max(eff - 7, 1), 3 * eff]):
                    msg = D.fill(D.dm.CStoreRQMessage(), rng, uid_len=20)
                    data = bytes(rng.getrandbits(8) for _ in range(ln)) if ln else None
                    tr, cmd, dat, problems = D.send_trace(msg, 1, eff, data, bool(ln % 2), assoc=assoc, offset=132 if ln % 2 else 0)
                    meta = {'class': 'CStoreRQMessage', 'ctx': 1, 'max': eff, 'data_len': ln, 'file': bool(ln % 2), 'negotiated': {'role': role, 'own': own, 'peer': peer}}
                    if tr is None:
                        v.report({'site': 'dimsemessages.encode', 'clause': 'raised', 'max_class': 'negotiated'}, 'Association.send raised for %r: %s' % (meta, problems[0]), replay=meta)
                        continue
                    for pr in problems:
                        v.report({'site': 'dimsemessages.encode', 'clause': pr.split(' ')[0] + ' ' + pr.split(' ')[1]}, '%s for %r' % (pr, meta), replay=meta)
                    traces.append(tr)
                    metas.append(meta)
    res, stats = tlc.validate_traces('Trace_Dimse', 'Trace_Dimse.cfg', traces, chunk=5000)
    for tr, r, meta in zip(traces, res, metas):
        if r['ok']:
            continue
        nxt = tr[r['reached']] if r['reached'] < len(tr) else None
        v.report({'site': 'dimsemessages.encode', 'clause': 'sender-step', 'ev': nxt and nxt['ev']},
                 'fragment sequence is not a behaviour of the Dimse sender at event %d %r (message %r; Msg=%r)'
                 % (r['reached'], nxt, meta, tr[0]), replay=meta)
    ev = {'tier': tier, 'level': 'model_checking',
          'coverage': {'states': mc.distinct, 'transitions': mc.generated,
                       'traces_validated_against_impl': len(traces), 'multi_fragment_messages': n_nontrivial,
                       'trace_events_validated': sum(len(t) for t in traces),
                       'samples': [{'message': metas[i], 'trace': traces[i][:8]} for i in sorted({0, len(traces) // 2, len(traces) - 1}) if 0 <= i < len(traces)],
                       'exhaustive': False},
          'assumptions': ['one PDV per P-DATA-TF (what the library does) is required by the sender specification',
                          'byte equality of concatenated fragments is evaluated by the harness; TLC decides sizes, flags, order and tiling']}
    return v.finish(ev)


def replay(doc):
    meta = doc['replay']
    rng = random.Random(0)
    cls = getattr(D.dm, meta['class'])
    msg = D.fill(cls(), rng)
    data = bytes(rng.getrandbits(8) for _ in range(meta['data_len'])) if meta['data_len'] else None
    tr, cmd, dat, problems = D.send_trace(msg, meta['ctx'], meta['max'], data, meta['file'])
    if tr is None or problems:
        print('REPRODUCED: %s' % problems)
        return 1
    res, _ = tlc.validate_traces('Trace_Dimse', 'Trace_Dimse.cfg', [tr])
    if not res[0]['ok']:
        print('REPRODUCED: rejected at event %d of %r' % (res[0]['reached'], tr))
        return 1
    return 0


if __name__ == '__main__':
    main_wrapper(lambda: main(sys.argv[1] if len(sys.argv) > 1 else 'quick'))
