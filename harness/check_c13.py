"""C13 - every association ending terminates the provider and releases the connection.

Spec: MC_ULProvider liveness under fairness with a finite peer and NO state constraint
(Sta13Leaves, Sta2Leaves, FinHome) - checked by TLC; Trace_ULProvider's End event requires Home
(Sta1, transport closed, ARTIM off, user told) where the property demands it.
Binding (S1, real run() loop, virtual time): every conversation of the corpus, both roles, is cut by
 (a) the peer disconnecting after EVERY byte prefix of its stream and after every local step,
 (b) the peer falling silent after every step (where ARTIM is armed the clock is advanced past it),
 (c) a stop request at every quiescent point.
A blocking call that nothing can satisfy is a Hang; every execution is validated by TLC.
"""
from __future__ import annotations

import sys

from . import tlc, ulcorpus, ulcheck
from .common import Verdict, main_wrapper, Machinery, seed


def finish(p, expect_home_after_tick=True):
    """After the scripted ending: if the provider is not home, let ARTIM expire once, settle, and record
    the End event."""
    run = p.run
    if p.outcome in ('died', 'hang'):
        return
    run.env.__enter__()
    try:
        for _ in range(3):
            if run.state() == 1 and run.p.dul_socket is None:
                break
            run.tick(True)
            if run.settle(100) != 'ok':
                break
        run.end(True)
    finally:
        run.close()


def silent(sc, req, i):
    """Play ops[:i]; the peer then says nothing more.  Home is required iff ARTIM is armed (Sta2/Sta13)."""
    p = ulcorpus.play(sc[:i], req)
    run = p.run
    if p.outcome in ('died', 'hang'):
        return p, None
    st = run.state()
    run.env.__enter__()
    try:
        armed = st in (2, 13)
        if armed:
            run.tick(True)
            run.settle(100)
        else:
            run.tick(False)          # time passes, nothing must happen
            run.settle(20)
        run.end(armed)
    finally:
        run.close()
    return p, st


def stop_at(sc, req, i):
    """Play ops[:i], then ask the provider to stop: run() must return and signal it."""
    p = ulcorpus.play(sc[:i], req)
    run = p.run
    if p.outcome in ('died', 'hang'):
        return p, 'n/a'
    run.env.__enter__()
    try:
        prov = run.p
        prov._is_killed.clear()
        prov.is_killed = True
        prov._budget = 5
        try:
            prov.run()
            res = 'stopped' if prov._is_killed.is_set() else 'not-signalled'
        except BaseException as exc:          # Hang included
            res = 'raised %s' % type(exc).__name__
        idle_ok = prov.stop() if run.state() == 1 else None
        if res == 'stopped':
            try:
                prov.kill()             # the public stop request (the loop has already ended: returns at once)
            except BaseException as exc:      # noqa
                res = 'kill() raised %s' % type(exc).__name__
        # a stopped provider has released its connection, wherever the protocol stood
        if res == 'stopped' and (prov.dul_socket is not None or any(not s_.closed for s_ in run._all_socks())):
            res = 'stopped with the transport connection left open'
    finally:
        run.close()
    return p, (res, idle_ok)


def main(tier='quick'):
    v = Verdict('C13', tier)
    mcs = []
    for cfg in ('MC_ULProvider_acc.cfg', 'MC_ULProvider_req.cfg') if tier == 'quick' else ('MC_ULProvider_acc3.cfg', 'MC_ULProvider_req3.cfg'):
        r = tlc.run('MC_ULProvider', cfg, workers=16, timeout=3000)
        if not r.ok:
            raise Machinery('liveness of the specification fails (%s): %s %s' % (cfg, r.violated, r.errors[:2]))
        mcs.append((cfg, r))
    runs, recipes = [], []
    n_fin = n_sil = n_stop = 0
    samples = []
    for req, corp in ((False, ulcorpus.ACCEPTOR), (True, ulcorpus.REQUESTOR)):
        for name, sc in sorted(corp.items()):
            total = len(ulcorpus.peer_stream(sc))
            stride = 1 if (tier == 'thorough' or total <= 400) else max(2, total // 250)
            offsets = sorted(set(list(range(0, total + 1, stride)) + list(range(0, min(total, 200))) + [total]))
            for k in offsets:
                p = ulcorpus.play(sc, req, fin_at=k)
                finish(p)
                runs.append(p.run)
                recipes.append({'kind': 'fin_at', 'req': req, 'conv': name, 'k': k})
                n_fin += 1
                if k % 5 == 0 or k in (total, total - 1) or tier == 'thorough':
                    # the same disconnection as a connection reset: reads fail instead of returning end-of-stream
                    p = ulcorpus.play(sc, req, fin_at=k, hard=True)
                    finish(p)
                    runs.append(p.run)
                    recipes.append({'kind': 'reset_at', 'req': req, 'conv': name, 'k': k})
                    n_fin += 1
            for i in range(0, len(sc) + 1):
                # disconnection between two local steps
                p = ulcorpus.play(sc[:i] + [('FIN',)], req)
                finish(p)
                runs.append(p.run)
                recipes.append({'kind': 'fin_after_op', 'req': req, 'conv': name, 'i': i})
                n_fin += 1
                p = ulcorpus.play(sc[:i] + [('RESET',)], req)
                finish(p)
                runs.append(p.run)
                recipes.append({'kind': 'reset_after_op', 'req': req, 'conv': name, 'i': i})
                n_fin += 1
                # the peer stops receiving: the loss of the connection is discovered by the next local WRITE failing
                nxt = [op for op in sc[i:] if op[0] in ('U', 'G', 'GF')][:1]
                if nxt:
                    p = ulcorpus.play(sc[:i] + [('DEAF',)] + nxt + [('FIN',)], req)
                    finish(p)
                    runs.append(p.run)
                    recipes.append({'kind': 'deaf_after_op', 'req': req, 'conv': name, 'i': i})
                    n_fin += 1
                p, st = silent(sc, req, i)
                runs.append(p.run)
                recipes.append({'kind': 'silent', 'req': req, 'conv': name, 'i': i, 'state': st})
                n_sil += 1
                p, res = stop_at(sc, req, i)
                n_stop += 1
                if res != 'n/a' and (res[0] != 'stopped' or res[1] is False):
                    v.report({'site': 'dulprovider.run', 'clause': 'stop', 'conv': name},
                             'stop requested after step %d of %s conversation %r: %r' % (i, 'requestor' if req else 'acceptor', name, res),
                             replay={'recipe': {'kind': 'stop', 'req': req, 'conv': name, 'i': i}})
            if len(samples) < 3:
                samples.append({'recipe': recipes[-2], 'trace_tail': runs[-1].trace[-4:]})
    stats = ulcheck.validate(v, runs, recipes, chunk=2000)
    stats.pop('cells')
    # association level (S3, real threads): a stop requested while the peer says nothing more must complete
    from . import check_c14
    import random as _random
    assoc_cases = [check_c14.acceptor_stop_scenario(_random.Random(seed())),
                   check_c14.raw_server_scenario('stop-with-silent-peer', _random.Random(seed()))]
    for c in assoc_cases:
        c.pop('handler_finished', None)
        c['placement'] = 'association-level'
    res2, _ = tlc.validate_traces('Trace_AssocLifecycle', 'Trace_AssocLifecycle.cfg', [[c] for c in assoc_cases])
    for c, r in zip(assoc_cases, res2):
        for clause in (r['bad_inv'] or []):
            v.report({'site': 'asceprovider.kill', 'clause': clause},
                     '%s: Association.kill() on an association whose peer is silent (a2r=%s r2a=%s)' % (clause, [x['k'] for x in c['a2r']], [x['k'] for x in c['r2a']]),
                     replay={'recipe': {'kind': 'assoc-stop'}})
    ev = {
        'tier': tier, 'level': 'model_checking',
        'coverage': {
            'states': sum(r.distinct for _, r in mcs), 'transitions': sum(r.generated for _, r in mcs),
            'traces_validated_against_impl': stats['traces'],
            'trace_events_validated': stats['events'], 'rejected_traces': stats['rejected'],
            'disconnection_points': n_fin, 'silence_points': n_sil, 'stop_points': n_stop, 'association_level_stop_scenarios': len(assoc_cases),
            'liveness_properties': ['Sta13Leaves', 'Sta2Leaves', 'FinHome'],
            'model_checking': {cfg: r.summary() for cfg, r in mcs},
            'samples': samples, 'exhaustive': False,
        },
        'assumptions': ['virtual clock; the ARTIM limit is never hit exactly', 'Association.kill with a silent peer is exercised on real threads (2 scenarios); other association-level endings under C14'],
    }
    return v.finish(ev)


def replay(doc):
    rec = doc['replay']['recipe']
    corp = ulcorpus.REQUESTOR if rec['req'] else ulcorpus.ACCEPTOR
    sc = corp[rec['conv']]
    v = Verdict('C13', 'quick')
    if rec['kind'] in ('fin_at', 'reset_at'):
        p = ulcorpus.play(sc, rec['req'], fin_at=rec['k'], hard=rec['kind'] == 'reset_at')
        finish(p)
    elif rec['kind'] == 'reset_after_op':
        p = ulcorpus.play(sc[:rec['i']] + [('RESET',)], rec['req'])
        finish(p)
    elif rec['kind'] == 'deaf_after_op':
        nxt = [op for op in sc[rec['i']:] if op[0] in ('U', 'G', 'GF')][:1]
        p = ulcorpus.play(sc[:rec['i']] + [('DEAF',)] + nxt + [('FIN',)], rec['req'])
        finish(p)
    elif rec['kind'] == 'fin_after_op':
        p = ulcorpus.play(sc[:rec['i']] + [('FIN',)], rec['req'])
        finish(p)
    elif rec['kind'] == 'silent':
        p, _ = silent(sc, rec['req'], rec['i'])
    else:
        p, res = stop_at(sc, rec['req'], rec['i'])
        print('stop result: %r' % (res,))
        return 1 if res != 'n/a' and (res[0] != 'stopped' or res[1] is False) else 0
    ulcheck.validate(v, [p.run], [rec])
    for x in v.violations:
        print('REPRODUCED: ' + x['what'])
    return 1 if v.violations else 0


if __name__ == '__main__':
    main_wrapper(lambda: main(sys.argv[1] if len(sys.argv) > 1 else 'quick'))
