"""C18 - status codes are classified totally and consistently.

Spec: specs/StatusClass.tla - the general list (PS3.7 Annex C) and the service tables (PS3.4) as
ranges, Allowed(cmd, code); TLC checks Decided, ServiceTablesUnambiguous, ZeroIsSuccess,
PendingCodes, ServicePrecedence, UnknownIsFailure over every <<command, code>> (all 12 x 65536 in
thorough, every range end +-1 in quick).
Binding: Status(code, command) is evaluated for EVERY code and every response class (and no
class, and the request classes) in both tiers; the result, compressed into maximal runs, is judged
by TLC against Allowed (Trace_StatusClass) for every code of every run.  The classification is
evaluated twice, in two orders of lookups, so that a classification that depends on what was asked
before is seen.
"""
from __future__ import annotations

import random
import sys

from . import tlc
from .common import Verdict, main_wrapper, Machinery, seed, import_repo

import_repo()
from pynetdicom2 import statuses, dimsemessages as dm  # noqa: E402

RSP = [None, dm.CStoreRSPMessage, dm.CGetRSPMessage, dm.CFindRSPMessage, dm.CMoveRSPMessage, dm.CEchoRSPMessage,
       dm.NEventReportRSPMessage, dm.NGetRSPMessage, dm.NSetRSPMessage, dm.NActionRSPMessage, dm.NCreateRSPMessage,
       dm.NDeleteRSPMessage]


def classify(code, cls):
    s = statuses.Status(code, cls) if cls is not None else statuses.Status(code)
    flags = [s.is_success, s.is_pending, s.is_warning, s.is_cancel, s.is_failure]
    names = ['Success', 'Pending', 'Warning', 'Cancel', 'Failure']
    flags_ok = sum(1 for f in flags if f) == 1 and s.status_type in names and flags[names.index(s.status_type)]
    return s.status_type, bool(flags_ok), int(s) == code


def runs_for(cls, order):
    """Classification of all 65536 codes, as maximal runs."""
    table = [None] * 65536
    for code in order:
        table[code] = classify(code, cls)
    runs = []
    lo = 0
    for code in range(1, 65537):
        if code == 65536 or table[code] != table[lo]:
            t = table[lo]
            runs.append({'lo': lo, 'hi': code - 1, 'cls': t[0], 'flagsOK': t[1], 'intOK': t[2]})
            lo = code
    return runs, table


def main(tier='quick'):
    v = Verdict('C18', tier)
    rng = random.Random(seed())
    mc = tlc.run('StatusClass', 'StatusClass.cfg' if tier == 'quick' else 'StatusClass_thorough.cfg', workers=16, timeout=3000)
    if not mc.ok:
        raise Machinery('StatusClass.tla fails TLC: %s %s' % (mc.violated, mc.errors[:2]))
    cases, metas = [], []
    # pass 1: every command class in turn, codes ascending; pass 2: shuffled interleaving of classes and codes
    tables = {}
    for cls in RSP:
        runs, table = runs_for(cls, range(65536))
        tables[cls] = table
        cases.append({'cmd': cls.command_field if cls else 0, 'runs': runs})
        metas.append({'class': cls.__name__ if cls else None, 'pass': 'ascending'})
    order = list(range(65536))
    rng.shuffle(order)
    special = [0x0000, 0xFF00, 0xFF01, 0xFE00, 0xB000, 0xB006, 0xB007, 0xA700, 0xA900, 0xC000, 0x0110, 0x0112]
    # history sensitivity: ask the special codes for foreign classes and without a class first, then again for every class
    for code in special:
        for cls in RSP:
            classify(code, cls)
    for cls in reversed(RSP):
        runs, table = runs_for(cls, order)
        cases.append({'cmd': cls.command_field if cls else 0, 'runs': runs})
        metas.append({'class': cls.__name__ if cls else None, 'pass': 'shuffled-after-foreign-lookups'})
        if table != tables[cls]:
            diff = [c for c in range(65536) if table[c] != tables[cls][c]][:5]
            v.report({'site': 'statuses.Status', 'clause': 'history-dependent'},
                     'classification for %s depends on earlier lookups, e.g. codes %s' % (metas[-1]['class'], [hex(c) for c in diff]), replay=metas[-1])
    # several threads classify at the same time (every association thread does): the answer for a pair must be the one
    # the sequential sweep gave - which TLC judges below
    import threading
    hot = [(code, cls) for code in (0x0000, 0xFF00, 0xFE00, 0xB000, 0xA700, 0xC123, 0x0110, 0xFF01) for cls in (dm.CStoreRSPMessage, dm.CFindRSPMessage, dm.CMoveRSPMessage, dm.CEchoRSPMessage)]
    wrong, stop_at = [], __import__('time').time() + (2.0 if tier == 'quick' else 20.0)

    def registrar():
        # the application registers private statuses while associations are classifying (add_status is public)
        k = 0
        while __import__('time').time() < stop_at and len(wrong) < 5:
            lo = 0x9000 + (k % 200) * 16
            statuses.add_status(lo, 'Warning', 'private %d' % k, end=lo + 3, command=dm.NDeleteRSPMessage)
            k += 1

    def hammer(k):
        r = random.Random(k)
        n = 0
        while __import__('time').time() < stop_at and len(wrong) < 5:
            code, cls = hot[r.randrange(len(hot))]
            try:
                got = classify(code, cls)
            except Exception as exc:      # noqa
                wrong.append((hex(code), cls.__name__, 'raised %s: %s' % (type(exc).__name__, exc), tables[cls][code]))
                continue
            if got != tables[cls][code]:
                wrong.append((hex(code), cls.__name__, got, tables[cls][code]))
            n += 1
    old = sys.getswitchinterval()
    sys.setswitchinterval(1e-6)
    try:
        ths = [threading.Thread(target=hammer, args=(k,)) for k in range(4)] + [threading.Thread(target=registrar)]
        for t in ths:
            t.start()
        for t in ths:
            t.join()
    finally:
        sys.setswitchinterval(old)
    for w in wrong[:3]:
        v.report({'site': 'statuses.Status', 'clause': 'concurrent-classification-differs'},
                 'with four threads classifying at once Status(%s, %s) came out as %r, sequentially it is %r' % w, replay={'class': w[1], 'pass': 'concurrent'})
    # general statuses registered by the application on codes a service defines itself: the service's classification still
    # comes first for that service, the new one holds where no service says otherwise (last: it changes the tables)
    statuses.add_status(0xB000, 'Failure', 'site-specific meaning of B000')
    statuses.add_status(0xFF00, 'Failure', 'site-specific', end=0xFF0F)
    statuses.add_status(0xC100, 'Warning', 'site-specific', end=0xC1FF)
    for code, cls, want in ((0xB000, dm.CStoreRSPMessage, 'Warning'), (0xB000, dm.CGetRSPMessage, 'Warning'), (0xFF00, dm.CFindRSPMessage, 'Pending'),
                            (0xFF01, dm.CFindRSPMessage, 'Pending'), (0xC123, dm.CStoreRSPMessage, 'Failure'), (0xB000, None, 'Failure'),
                            (0xFF00, dm.CEchoRSPMessage, 'Failure'), (0xC123, dm.CEchoRSPMessage, 'Warning')):
        got = classify(code, cls)
        if got[0] != want or not got[1] or not got[2]:
            v.report({'site': 'statuses.Status', 'clause': 'service-specific-code-gets-the-service-class', 'class': cls.__name__ if cls else None, 'after': 'add_status'},
                     'after general statuses were registered for B000H, FF00H-FF0FH, C100H-C1FFH: Status(%#x, %s) is %r, expected %s' % (
                         code, cls.__name__ if cls else None, got, want), replay={'class': cls.__name__ if cls else None, 'pass': 'after-add_status'})
    # request classes given as `command` must behave like their own table lookups too: same judgment, cmd = their field
    res, stats = tlc.validate_traces('Trace_StatusClass', 'Trace_StatusClass.cfg', [[c] for c in cases], chunk=100, timeout=3000)
    for meta, c, r in zip(metas, cases, res):
        if r['reached'] != 1:
            raise Machinery('case not judged')
        for clause in (r['bad_inv'] or []):
            ex = ''
            if clause in ('service-specific-code-gets-the-service-class', 'unknown-code-is-failure', 'zero-is-success'):
                ex = ' runs: %s' % [(hex(x['lo']), hex(x['hi']), x['cls']) for x in c['runs'] if x['cls'] != 'Failure'][:12]
            v.report({'site': 'statuses.Status', 'clause': clause, 'class': meta['class']},
                     '%s for command %s (%s)%s' % (clause, meta['class'], meta['pass'], ex), replay=meta)
    ev = {'tier': tier, 'level': 'model_checking',
          'coverage': {'states': mc.distinct, 'transitions': mc.generated, 'traces_validated_against_impl': len(cases),
                       'status_evaluations': 2 * 65536 * len(RSP), 'codes_judged_by_tlc': 65536 * len(cases),
                       'samples': [{'command': metas[3]['class'], 'runs': cases[3]['runs'][:12]}], 'exhaustive': True},
          'assumptions': ['service tables and the general list transcribed from PS3.4 / PS3.7 into specs/StatusClass.tla',
                          '0107H / 0116H may be Warning (standard) or Failure (library): the statement is silent']}
    return v.finish(ev)


def replay(doc):
    return main('quick')


if __name__ == '__main__':
    main_wrapper(lambda: main(sys.argv[1] if len(sys.argv) > 1 else 'quick'))
