"""Substrate S1: one real DULServiceProvider whose unmodified run() loop is stepped one
iteration at a time over a simulated socket, clock and user queue.  No source hooks: a subclass
(start() is a no-op, is_killed is a property = the scheduling point at every iteration boundary)
plus module-attribute shims (dulprovider.select / dulprovider.time / fsm.socket).

If a seam disappears the harness raises Machinery (exit 2), never a verdict.
"""
from __future__ import annotations

import types

from .common import import_repo, Machinery

import_repo()
from pynetdicom2 import dulprovider, fsm, pdu  # noqa: E402


SPIN_LIMIT = 500      # polls of the transport within ONE iteration of run(): beyond this the loop is spinning


class Hang(BaseException):
    """A blocking call that nothing can ever satisfy (no data, peer still open)."""


class Clock(object):
    def __init__(self):
        self.now = 1000.0

    def time(self):
        return self.now

    def sleep(self, dt):
        self.now += dt


class FakeSocket(object):
    """What the provider sees of the transport.  The harness appends arrived bytes to rx."""

    def __init__(self, name='sock'):
        self.name = name
        self.rx = bytearray()
        self.peer_fin = False
        self.peer_reset = False
        self.write_dead = False       # the peer no longer receives: writes fail (EPIPE), reads are unaffected
        self.closed = False
        self.sent = []            # list of bytes objects passed to sendall
        self.recv_log = []        # (n requested, n returned or 'eof' / 'reset')
        self.connected = None
        self.blocking_reads = 0
        self.failed_sends = 0
        self.polls = 0            # reads / select calls since the last scheduling point (reset by Stepped.step)

    # -- API used by the library
    def recv(self, n):
        if self.closed:
            raise OSError(9, 'Bad file descriptor')
        if self.peer_reset:
            self.recv_log.append((n, 'reset'))
            raise OSError(104, 'Connection reset by peer')
        if self.rx:
            data = bytes(self.rx[:n])
            del self.rx[:n]
            self.recv_log.append((n, len(data)))
            return data
        if self.peer_fin:
            self.polls += 1
            if self.polls > SPIN_LIMIT:
                raise Hang('recv() polled %d times at end of stream without returning to the event loop' % self.polls)
            self.recv_log.append((n, 'eof'))
            return b''
        self.blocking_reads += 1
        raise Hang('recv(%d) with nothing to read and the peer still open' % n)

    def sendall(self, data):
        if self.closed:
            raise OSError(9, 'Bad file descriptor')
        if self.peer_reset or self.write_dead:
            self.failed_sends += 1
            raise OSError(32, 'Broken pipe')          # the connection has been reset / the peer is gone: writes fail
        self.sent.append(bytes(data))

    send = sendall

    def close(self):
        self.closed = True

    def connect(self, addr):
        self.connected = addr

    def settimeout(self, t):
        pass

    def setsockopt(self, *a):
        pass

    def shutdown(self, how):
        pass

    def fileno(self):
        return 99

    def readable(self):
        return (not self.closed) and (bool(self.rx) or self.peer_fin or self.peer_reset)


class Env(object):
    """Installs the shims; one Env at a time (module attributes are global)."""

    def __init__(self):
        self.clock = Clock()
        self.sockets = []
        self._saved = None

    def __enter__(self):
        self._saved = (getattr(dulprovider, 'select'), getattr(dulprovider, 'time'), getattr(fsm, 'socket'))
        env = self

        def _select(r, w, x, timeout=None):
            for s in r:
                if isinstance(s, FakeSocket) and s.closed:
                    raise ValueError('file descriptor cannot be a negative integer (-1)')    # what select does with a closed socket
                if isinstance(s, FakeSocket):
                    s.polls += 1
                    if s.polls > SPIN_LIMIT:
                        raise Hang('select() called %d times within one iteration of the event loop' % s.polls)
            ready = [s for s in r if isinstance(s, FakeSocket) and s.readable()]
            return ready, [], []

        def _socket(*a, **k):
            s = FakeSocket('client%d' % len(env.sockets))
            env.sockets.append(s)
            return s

        real_socket = self._saved[2]
        dulprovider.select = types.SimpleNamespace(select=_select, error=OSError)
        dulprovider.time = types.SimpleNamespace(time=self.clock.time, sleep=self.clock.sleep)
        fsm.socket = types.SimpleNamespace(socket=_socket, AF_INET=real_socket.AF_INET,
                                           SOCK_STREAM=real_socket.SOCK_STREAM, error=OSError,
                                           timeout=real_socket.timeout)
        return self

    def __exit__(self, *exc):
        dulprovider.select, dulprovider.time, fsm.socket = self._saved
        return False


class Stepped(dulprovider.DULServiceProvider):
    """The real provider, not started as a thread; step() runs exactly one iteration of run()."""

    def __init__(self, dul_socket=None, max_pdu_length=65536, store_in_file=frozenset(), get_file_cb=None):
        self._budget = 0
        self._flag = False
        self._boundaries = 0
        self.actions = []          # (event, state before) recorded by the action wrapper
        super(Stepped, self).__init__(store_in_file, get_file_cb, dul_socket, max_pdu_length)
        sm = self.state_machine
        if not hasattr(sm, 'action') or not hasattr(sm, 'current_state'):
            raise Machinery('seam broken: StateMachine.action / current_state')
        real_action = sm.action
        # a queue with a bound would make put() BLOCK the single thread this harness runs in: turn that into a Hang
        q = self.to_service_user
        if hasattr(q, 'maxsize') and hasattr(q, 'put'):
            orig_put = q.put

            def put(item, block=True, timeout=None, q=q, orig_put=orig_put):
                if q.maxsize and q.qsize() >= q.maxsize:
                    raise Hang('the queue of indications to the local user is full (%d): put() blocks the event loop' % q.maxsize)
                return orig_put(item, block, timeout)
            q.put = put

        def action(evt):
            self.actions.append((evt, sm.current_state))
            return real_action(evt)
        sm.action = action
        for attr in ('event', 'raw_pdu', 'primitive', 'dimse_gen', 'from_service_user', 'to_service_user',
                     'timer', 'dul_socket', '_is_killed'):
            if not hasattr(self, attr):
                raise Machinery('seam broken: DULServiceProvider.%s' % attr)

    def start(self):          # no thread
        pass

    @property
    def is_killed(self):
        self._boundaries += 1
        if self._budget > 0:
            self._budget -= 1
            return self._flag
        return True

    @is_killed.setter
    def is_killed(self, value):
        self._flag = bool(value)

    def step(self):
        """One iteration of the unmodified run().  Returns None, or the exception that killed the loop."""
        self._budget = 1
        if isinstance(self.dul_socket, FakeSocket):
            self.dul_socket.polls = 0
        b0 = self._boundaries
        try:
            self.run()
        except Hang:
            raise
        except Exception as exc:        # the loop's last-resort handler re-raised
            return exc
        if self._boundaries - b0 < 1:
            raise Machinery('seam broken: run() did not consult is_killed')
        return None

    # -- projection
    lazy_user = False     # the local user is slow: indications stay in the queue until the end of the run
    _seen_inds = 0

    def drain_user(self):
        q = self.to_service_user
        if self.lazy_user and hasattr(q, 'queue'):
            items = list(q.queue)                 # look, do not take
            out = items[self._seen_inds:]
            self._seen_inds = len(items)
            return out
        out = []
        while True:
            try:
                out.append(self.to_service_user.get(False))
            except Exception:
                break
        return out


def timer_state(provider, clock):
    t = provider.timer
    if not hasattr(t, '_start_time') or not hasattr(t, '_max_seconds'):
        raise Machinery('seam broken: Timer._start_time/_max_seconds')
    if t._start_time is None:
        return 'off'
    return 'exp' if (clock.now - t._start_time) > t._max_seconds else 'run'
