"""C04 - every cell of PS3.8 Table 9-10, both roles.

specs/ULFsmCells.tla (EXTENDS ULFsm, the table transcribed from the standard) is explored by TLC:
one transition per defined cell and role, printing the prescribed effect.  Each of TLC's 2x247
initial states becomes one test on the real fsm.StateMachine attached to the real (unstarted)
DULServiceProvider with a recording socket / queue / timer: the state and the current primitive are set as in
the specification state, action(evt) is called, and wire output, user indication, transport
close, ARTIM and next state are compared with what TLC printed (undefined cell: no effect at all).
"""
from __future__ import annotations

import sys

from . import tlc
from .common import Verdict, main_wrapper, Machinery
from . import wire_ref as W
from .simnet import Env, FakeSocket, Stepped, timer_state, dulprovider, fsm, pdu
from . import ulrun

PDU_EVT = {3: 'AC', 4: 'RJ', 6: 'RQ', 10: 'PD', 12: 'RLRQ', 13: 'RLRP', 16: 'AB'}
USER_EVT = {1: 'RQ', 7: 'AC', 8: 'RJ', 9: 'PD', 11: 'RLRQ', 14: 'RLRP', 15: 'AB'}


def lib_decode(b):
    cls, _ = dulprovider.PDU_TYPES[b[0]]
    return cls.decode(b)


def primitives_for(e):
    """(label, primitive object, detail) variants to put in the 'current PDU' slot for event e."""
    out = []
    if e in PDU_EVT:
        k = PDU_EVT[e]
        if k == 'PD':
            m = ulrun.MsgPlan(9)
            _, b = ulrun.frame('PD', pdvs=[(fl, 9, v, 1) for fl, v in m.pdvs])
            out.append(('PD-complete', lib_decode(b), {'msg': 9}))
            m2 = ulrun.MsgPlan(11, nc=2)
            _, b2 = ulrun.frame('PD', pdvs=[(m2.pdvs[0][0], 11, m2.pdvs[0][1], 1)])
            out.append(('PD-partial', lib_decode(b2), {'msg': None}))
            # the REST of a message whose first PDU was received earlier, in Sta6 (for Sta7: before the local release
            # request): DT-2 / AR-6 complete the message and indicate it
            m3 = ulrun.MsgPlan(13, nc=2)
            _, b3a = ulrun.frame('PD', pdvs=[(m3.pdvs[0][0], 13, m3.pdvs[0][1], 1)])
            _, b3b = ulrun.frame('PD', pdvs=[(fl, 13, v, 1) for fl, v in m3.pdvs[1:]])
            out.append(('PD-rest-of-message', lib_decode(b3b), {'msg': 13, 'pre': lib_decode(b3a), 'only_in': (6, 7)}))
            # a well-framed P-DATA-TF whose content is no part of any DIMSE message (message control header 7): where the
            # content is looked at (Sta6, Sta7) this is an invalid PDU - the cell of Evt19 says what must happen
            b3 = bytes([4, 0]) + (10).to_bytes(4, 'big') + (6).to_bytes(4, 'big') + bytes([1, 7, 1, 2, 3, 4])
            out.append(('PD-invalid-content', lib_decode(b3), {'msg': None, 'as_evt': 19}))
        elif k == 'RJ':
            out.append(('RJ', lib_decode(ulrun.frame('RJ', [1, 2, 3])[1]), {'f': [1, 2, 3]}))
        elif k == 'AB':
            out.append(('AB', lib_decode(ulrun.frame('AB', [2, 5])[1]), {'f': [2, 5]}))
        else:
            out.append((k, lib_decode(ulrun.frame(k)[1]), {}))
    elif e in USER_EVT:
        k = USER_EVT[e]
        if k == 'PD':
            g = ulrun.FragGen([77])
            out.append(('uPD', next(g), {'fid': 77}))
        elif k == 'RJ':
            out.append(('uRJ', ulrun.user_pdu('RJ', [2, 1, 7]), {'f': [2, 1, 7]}))
        elif k == 'AB':
            out.append(('uAB', ulrun.user_pdu('AB', [0, 3]), {'f': [0, 3]}))
            out.append(('uAB2', ulrun.user_pdu('AB', [2, 6]), {'f': [2, 6]}))
        else:
            out.append(('u' + k, ulrun.user_pdu(k), {}))
    elif e == 2:
        # AE-2 sends the A-ASSOCIATE-RQ the user asked for with Evt1; it is still the current primitive
        out.append(('uRQ', ulrun.user_pdu('RQ'), {}))
    else:
        # events without a PDU of their own: the slot holds nothing, or something stale
        out.append(('none', None, {}))
        out.append(('stale-RLRP', lib_decode(ulrun.frame('RLRP')[1]), {}))
    return out


def run_cell(exp, label, prim, detail):
    """Execute one cell on the real state machine; returns list of mismatch strings."""
    s, e, req = exp['st'], exp['ev'], exp['req']
    with Env() as env:
        has_sock = not (s == 1 and e != 5) and not (s == 1 and req)
        sock = FakeSocket('cell') if has_sock else None
        # the provider is born as acceptor (socket given) or requestor (none); for a requestor in a
        # connected state the socket is attached afterwards, as ae_1 would have done
        p = Stepped(sock if not req else None)
        if req and sock is not None:
            p.dul_socket = sock
        p.event.clear()
        sm = p.state_machine
        sm.current_state = s - 1
        if exp['artimBefore']:
            p.timer.start()
        if detail.get('pre') is not None:
            # history: the first PDU of the message arrived in Sta6 (real DT-2); for Sta7 the local user then asked for
            # release (real AR-1)
            sm.current_state = 5
            p.primitive = detail['pre']
            sm.action(9)
            if s == 7:
                p.primitive = ulrun.user_pdu('RLRQ')
                sm.action(10)
            p.drain_user()
            for sk in ([sock] if sock is not None else []):
                del sk.sent[:]
            sm.current_state = s - 1
        t_before = p.timer._start_time
        # Evt18 IS the expiry of ARTIM: let it really have expired; for every other event a second passes
        env.clock.now += (p.timer._max_seconds + 1.0) if (e == 18 and exp['artimBefore']) else 1.0
        p.primitive = prim
        err = None
        try:
            sm.action(e - 1)
        except Exception as exc:      # noqa
            err = exc
        inds = p.drain_user()
        wire = []
        socks = ([sock] if sock is not None else []) + [x for x in env.sockets if x is not sock]
        for sk in socks:
            for b in sk.sent:
                pdus, rest = W.split_stream(b)
                if rest or not pdus:
                    wire.append({'k': 'GARBAGE'})
                for one in pdus:
                    try:
                        d = W.dec_pdu(one)
                        d['k'] = W.kind_of(one)
                        wire.append(d)
                    except W.WireError as we:
                        wire.append({'k': 'MALFORMED', 'why': str(we)})
        st_after = sm.current_state + 1
        closed = any(sk.closed for sk in socks)
        opened = [x for x in env.sockets if x.connected is not None]
        t_after = p.timer._start_time
        bad = []
        where = 'cell(Evt%d, Sta%d, %s, prim=%s)' % (e, s, 'requestor' if req else 'acceptor', label)
        if exp['act'] == 'none':
            if st_after != s:
                bad.append('%s is undefined in PS3.8 but the state moved to Sta%d' % (where, st_after))
            if wire:
                bad.append('%s is undefined but %s was put on the wire' % (where, [w['k'] for w in wire]))
            if inds:
                bad.append('%s is undefined but the user was given %r' % (where, inds))
            if closed or (has_sock and p.dul_socket is None):
                bad.append('%s is undefined but the transport was closed' % where)
            if t_after != t_before:
                bad.append('%s is undefined but ARTIM was touched' % where)
            return bad
        if err is not None:
            bad.append('%s: %s requires %s -> Sta%d but the action raised %s: %s' % (
                where, exp['act'], exp['act'], exp['next'], type(err).__name__, err))
            return bad
        alt_ok = exp.get('alt')
        if st_after != exp['next']:
            bad.append('%s: next state Sta%d, PS3.8 says Sta%d (%s)' % (where, st_after, exp['next'], exp['act']))
        # wire
        wk = [w['k'] for w in wire]
        want = [] if exp['wire'] == '-' else [exp['wire']]
        if wk != want:
            bad.append('%s: wire %s, PS3.8 %s says %s' % (where, wk, exp['act'], want))
        elif want:
            w = wire[0]
            if want[0] == 'AB':
                if exp['absrc'] == 'provider' and w['source'] != 2:
                    bad.append('%s: AA-8 must send A-ABORT with service-provider source (2), got %d' % (where, w['source']))
                if exp['absrc'] == 'asgiven' and [w['source'], w['reason']] != detail.get('f'):
                    bad.append("%s: the user's A-ABORT %s was sent as %s" % (where, detail.get('f'), [w['source'], w['reason']]))
            if want[0] == 'RJ' and [w['result'], w['source'], w['reason']] != detail.get('f'):
                bad.append("%s: the user's A-ASSOCIATE-RJ %s was sent as %s" % (where, detail.get('f'), [w['result'], w['source'], w['reason']]))
            if want[0] == 'PD':
                v = w['pdvs'][0]['val'] if w['pdvs'] else b''
                if v[1:5] != (detail.get('fid', -1)).to_bytes(4, 'big'):
                    bad.append('%s: P-DATA-TF on the wire is not the fragment the user gave' % where)
        # indication
        ik = []
        for i in inds:
            if isinstance(i, tuple):
                ik.append('MSG')
            else:
                ik.append(W.KIND.get(getattr(i, 'pdu_type', None), '?'))
        if exp['act'] in ('DT2', 'AR6'):
            wanti = ['MSG'] if detail.get('msg') is not None else []
        else:
            wanti = [] if exp['ind'] == '-' else [exp['ind']]
        if ik != wanti:
            bad.append('%s: user was given %s, PS3.8 %s says %s' % (where, ik, exp['act'], wanti))
        elif wanti == ['MSG']:
            mid = int(inds[0][0].command_set[(0, 0x0110)].value)
            if mid != detail['msg'] or inds[0][1] != 1:
                bad.append('%s: indicated message id/context %s/%s, sent %s/1' % (where, mid, inds[0][1], detail['msg']))
        elif wanti and wanti[0] in ('RJ', 'AB') and exp['act'] in ('AE4', 'AA3'):
            i = inds[0]
            got = [i.result, i.source, i.reason_diag] if wanti[0] == 'RJ' else [i.source, i.reason_diag]
            if got != detail.get('f'):
                bad.append('%s: indication fields %s, PDU carried %s' % (where, got, detail.get('f')))
        # transport
        if exp['closes']:
            if not closed or p.dul_socket is not None:
                bad.append('%s: %s must close the transport connection' % (where, exp['act']))
        elif closed or (has_sock and p.dul_socket is None):
            bad.append('%s: %s must not close the transport connection' % (where, exp['act']))
        if exp['opens']:
            if len(opened) != 1 or p.dul_socket is not opened[0] or opened[0].connected != ('peer.example', 104):
                bad.append('%s: AE-1 must open a transport connection to the called address' % where)
        # ARTIM
        tm = exp['timer']
        running = t_after is not None
        fresh = running and t_after == env.clock.now
        if tm in ('start', 'restart'):
            if not fresh:
                bad.append('%s: %s must %s ARTIM (running=%s, freshly started=%s)' % (where, exp['act'], tm, running, fresh))
        elif tm == 'stop':
            if running:
                bad.append('%s: %s must stop ARTIM' % (where, exp['act']))
        elif t_after != t_before:
            bad.append('%s: %s must not touch ARTIM' % (where, exp['act']))
        return bad


def recognition(v):
    """The events of Table 9-10 that stand for received PDUs (Evt3, 4, 6, 10, 12, 13, 16, 19) are produced by the
    provider from BYTES.  For every state with a connection, every kind of PDU - valid ones, an unknown type, and PDUs
    of a known type whose content cannot be decoded - goes through the real provider loop: exactly one event must come
    out, the type's own or Evt19 ("unrecognized or invalid PDU"), and the loop must survive.  Returns the number run."""
    from . import ulrun as U
    n = 0
    rq = U.frame('RQ')[1]
    ac = U.frame('AC')[1]
    inputs = [(k, U.frame(k, f)[1] if f is not None else U.frame(k)[1], ev) for k, f, ev in
              (('RQ', None, 6), ('AC', None, 3), ('RJ', [1, 2, 3], 4), ('RLRQ', None, 12), ('RLRP', None, 13), ('AB', [2, 5], 16))]
    m = U.MsgPlan(9)
    inputs.append(('PD', U.frame('PD', pdvs=[(fl, 9, x, 1) for fl, x in m.pdvs])[1], 10))
    inputs.append(('unknown-type', bytes([0x09, 0, 0, 0, 0, 4, 1, 2, 3, 4]), 19))
    inputs.append(('unknown-type-empty', bytes([0x55, 0, 0, 0, 0, 0]), 19))
    # known type, content not decodable: a byte that is no text in the AE title fields / a PDV running past the PDU
    inputs.append(('RQ-title-not-text', rq[:10] + b'\xff\xe9' + rq[12:], None))
    inputs.append(('AC-title-not-text', ac[:26] + b'\xe9\xff' + ac[28:], None))
    inputs.append(('PD-pdv-overrun', bytes([0x04, 0, 0, 0, 0, 8, 0, 0, 1, 0, 1, 3, 0, 0]), None))
    for s in (2, 3, 5, 6, 7, 8, 9, 10, 11, 12):
        for label, blob, want in inputs:
            n += 1
            run = U.Run(False)
            try:
                p = run.p
                while p.event:
                    p.event.popleft()
                p.state_machine.current_state = s - 1
                if s in (2,):
                    p.timer.start()
                sock = run._cur_sock()
                sock.rx += blob
                n0 = len(p.actions)
                died = None
                try:
                    for _ in range(4):
                        exc = p.step()
                        if exc is not None:
                            died = exc
                            break
                        if len(p.actions) > n0:
                            break
                except BaseException as exc:      # noqa (Hang included)
                    died = exc
                got = [a[0] + 1 for a in p.actions[n0:]]
                ok = died is None and len(got) >= 1 and (got[0] == want if want is not None else got[0] in (19, {'RQ': 6, 'AC': 3, 'PD': 10}[label.split('-')[0]]))
                if not ok:
                    v.report({'site': 'dulprovider._process_incoming', 'action': 'recognition', 'event': want or 19, 'state': s},
                             'Sta%d, received %s: %s; events produced %s (Table 9-10 expects %s)' % (
                                 s, label, ('the provider loop died with %s: %s' % (type(died).__name__, died)) if died is not None else 'loop alive',
                                 ['Evt%d' % g for g in got], 'Evt%d' % want if want else 'the event of its type or Evt19'),
                             replay={'cell': [s, want or 19, False], 'bytes': blob.hex()})
            finally:
                run.close()
    return n


def main(tier='quick'):
    v = Verdict('C04', tier)
    r = tlc.run('ULFsmCells', 'ULFsmCells.cfg', workers=1, coverage=True)
    if not r.ok:
        raise Machinery('ULFsmCells did not pass TLC: %s %s' % (r.violated, r.errors[:3]))
    cells = tlc.printed_values(r.out)
    defined = {}
    for c in cells:
        defined.setdefault((c['st'], c['ev'], c['req']), []).append(c)
    if len([k for k in defined if k[2]]) != 123:
        raise Machinery('expected 123 defined cells per role from TLC, got %d' % len([k for k in defined if k[2]]))
    n_run = 0
    samples = []
    per_cell_fail = {}
    for req in (False, True):
        for s in range(1, 14):
            for e in range(1, 20):
                exps = defined.get((s, e, req))
                if exps is None:
                    exps = [{'st': s, 'ev': e, 'req': req, 'act': 'none', 'next': s, 'artimBefore': s in (2, 13)}]
                for label, prim, detail in primitives_for(e):
                    if detail.get('only_in') and s not in detail['only_in']:
                        continue
                    if detail.get('as_evt'):
                        if s not in (6, 7):
                            continue
                        alt = defined.get((s, detail['as_evt'], req))
                        n_run += 1
                        results = [run_cell(dict(x, ev=e), label, prim, detail) for x in alt]
                        for msg in min(results, key=len):
                            per_cell_fail.setdefault((s, e, req), []).append(msg)
                        continue
                    n_run += 1
                    results = [run_cell(x, label, prim, detail) for x in exps]
                    # AE-6 has two admissible outcomes; the cell passes when one of them matches
                    best = min(results, key=len)
                    if len(samples) < 6 and exps[0]['act'] != 'none':
                        samples.append({'cell': exps[0], 'primitive': label, 'mismatches': best})
                    for msg in best:
                        per_cell_fail.setdefault((s, e, req), []).append(msg)
    for (s, e, req), msgs in sorted(per_cell_fail.items()):
        act = defined.get((s, e, req), [{'act': 'none'}])[0]['act']
        v.report({'site': 'fsm.StateMachine', 'action': act, 'event': e, 'state': s},
                 msgs[0] + (' (+%d more)' % (len(msgs) - 1) if len(msgs) > 1 else ''),
                 replay={'cell': [s, e, req]})
    n_rec = recognition(v)
    ev = {
        'tier': tier, 'level': 'model_checking',
        'coverage': {
            'states': r.distinct, 'transitions': len(cells),
            'traces_validated_against_impl': n_run, 'pdu_recognition_runs_through_the_provider': n_rec,
            'samples': samples,
            'exhaustive': True,
            'cells_defined_per_role': 123, 'cells_total_per_role': 247,
            'tlc': r.summary(),
            'explanation': 'TLC enumerated every <<state,event,role>> of ULFsmCells (123 defined cells per role, '
                           'AE-6 with both outcomes); every one of the 2x247 cells was executed on the real '
                           'StateMachine with each applicable primitive kind (%d executions)' % n_run,
        },
        'assumptions': ['Table 9-10 transcribed into specs/ULFsm.tla from PS3.8 (cross-checked by DualUL)',
                        'recording socket / clock shims (harness/simnet.py) stand for the transport and time'],
    }
    return v.finish(ev)


if __name__ == '__main__':
    main_wrapper(lambda: main(sys.argv[1] if len(sys.argv) > 1 else 'quick'))
