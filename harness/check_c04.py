"""C04 - every cell of PS3.8 Table 9-10, both roles.

specs/ULFsmCells.tla (EXTENDS ULFsm, the table transcribed from the standard) is explored by TLC:
one transition per defined cell and role, printing the prescribed effect.  Each of TLC's 2x247
initial states becomes one test on the real fsm.StateMachine attached to the real (unstarted)
DULServiceProvider with a recording socket / queue / timer: the state and the current primitive are set as in
the specification state, action(evt) is called, and wire output, user indication, transport
close, ARTIM and next state are compared with what TLC printed (undefined cell: no effect at all).
"""
from __future__ import annotations

import sys

from . import tlc
from .common import Verdict, main_wrapper, Machinery
from . import wire_ref as W
from .simnet import Env, FakeSocket, Stepped, timer_state, dulprovider, fsm, pdu
from . import ulrun

PDU_EVT = {3: 'AC', 4: 'RJ', 6: 'RQ', 10: 'PD', 12: 'RLRQ', 13: 'RLRP', 16: 'AB'}
USER_EVT = {1: 'RQ', 7: 'AC', 8: 'RJ', 9: 'PD', 11: 'RLRQ', 14: 'RLRP', 15: 'AB'}


def lib_decode(b):
    cls, _ = dulprovider.PDU_TYPES[b[0]]
    return cls.decode(b)


def primitives_for(e):
    """(label, primitive object, detail) variants to put in the 'current PDU' slot for event e."""
    out = []
    if e in PDU_EVT:
        k = PDU_EVT[e]
        if k == 'PD':
            m = ulrun.MsgPlan(9)
            _, b = ulrun.frame('PD', pdvs=[(fl, 9, v, 1) for fl, v in m.pdvs])
            out.append(('PD-complete', lib_decode(b), {'msg': 9}))
            m2 = ulrun.MsgPlan(11, nc=2)
            _, b2 = ulrun.frame('PD', pdvs=[(m2.pdvs[0][0], 11, m2.pdvs[0][1], 1)])
            out.append(('PD-partial', lib_decode(b2), {'msg': None}))
        elif k == 'RJ':
            out.append(('RJ', lib_decode(ulrun.frame('RJ', [1, 2, 3])[1]), {'f': [1, 2, 3]}))
        elif k == 'AB':
            out.append(('AB', lib_decode(ulrun.frame('AB', [2, 5])[1]), {'f': [2, 5]}))
        else:
            out.append((k, lib_decode(ulrun.frame(k)[1]), {}))
    elif e in USER_EVT:
        k = USER_EVT[e]
        if k == 'PD':
            g = ulrun.FragGen([77])
            out.append(('uPD', next(g), {'fid': 77}))
        elif k == 'RJ':
            out.append(('uRJ', ulrun.user_pdu('RJ', [2, 1, 7]), {'f': [2, 1, 7]}))
        elif k == 'AB':
            out.append(('uAB', ulrun.user_pdu('AB', [0, 3]), {'f': [0, 3]}))
            out.append(('uAB2', ulrun.user_pdu('AB', [2, 6]), {'f': [2, 6]}))
        else:
            out.append(('u' + k, ulrun.user_pdu(k), {}))
    elif e == 2:
        # AE-2 sends the A-ASSOCIATE-RQ the user asked for with Evt1; it is still the current primitive
        out.append(('uRQ', ulrun.user_pdu('RQ'), {}))
    else:
        # events without a PDU of their own: the slot holds nothing, or something stale
        out.append(('none', None, {}))
        out.append(('stale-RLRP', lib_decode(ulrun.frame('RLRP')[1]), {}))
    return out


def run_cell(exp, label, prim, detail):
    """Execute one cell on the real state machine; returns list of mismatch strings."""
    s, e, req = exp['st'], exp['ev'], exp['req']
    with Env() as env:
        has_sock = not (s == 1 and e != 5) and not (s == 1 and req)
        sock = FakeSocket('cell') if has_sock else None
        # the provider is born as acceptor (socket given) or requestor (none); for a requestor in a
        # connected state the socket is attached afterwards, as ae_1 would have done
        p = Stepped(sock if not req else None)
        if req and sock is not None:
            p.dul_socket = sock
        p.event.clear()
        sm = p.state_machine
        sm.current_state = s - 1
        if exp['artimBefore']:
            p.timer.start()
        t_before = p.timer._start_time
        env.clock.now += 1.0
        p.primitive = prim
        err = None
        try:
            sm.action(e - 1)
        except Exception as exc:      # noqa
            err = exc
        inds = p.drain_user()
        wire = []
        socks = ([sock] if sock is not None else []) + [x for x in env.sockets if x is not sock]
        for sk in socks:
            for b in sk.sent:
                pdus, rest = W.split_stream(b)
                if rest or not pdus:
                    wire.append({'k': 'GARBAGE'})
                for one in pdus:
                    try:
                        d = W.dec_pdu(one)
                        d['k'] = W.kind_of(one)
                        wire.append(d)
                    except W.WireError as we:
                        wire.append({'k': 'MALFORMED', 'why': str(we)})
        st_after = sm.current_state + 1
        closed = any(sk.closed for sk in socks)
        opened = [x for x in env.sockets if x.connected is not None]
        t_after = p.timer._start_time
        bad = []
        where = 'cell(Evt%d, Sta%d, %s, prim=%s)' % (e, s, 'requestor' if req else 'acceptor', label)
        if exp['act'] == 'none':
            if st_after != s:
                bad.append('%s is undefined in PS3.8 but the state moved to Sta%d' % (where, st_after))
            if wire:
                bad.append('%s is undefined but %s was put on the wire' % (where, [w['k'] for w in wire]))
            if inds:
                bad.append('%s is undefined but the user was given %r' % (where, inds))
            if closed or (has_sock and p.dul_socket is None):
                bad.append('%s is undefined but the transport was closed' % where)
            if t_after != t_before:
                bad.append('%s is undefined but ARTIM was touched' % where)
            return bad
        if err is not None:
            bad.append('%s: %s requires %s -> Sta%d but the action raised %s: %s' % (
                where, exp['act'], exp['act'], exp['next'], type(err).__name__, err))
            return bad
        alt_ok = exp.get('alt')
        if st_after != exp['next']:
            bad.append('%s: next state Sta%d, PS3.8 says Sta%d (%s)' % (where, st_after, exp['next'], exp['act']))
        # wire
        wk = [w['k'] for w in wire]
        want = [] if exp['wire'] == '-' else [exp['wire']]
        if wk != want:
            bad.append('%s: wire %s, PS3.8 %s says %s' % (where, wk, exp['act'], want))
        elif want:
            w = wire[0]
            if want[0] == 'AB':
                if exp['absrc'] == 'provider' and w['source'] != 2:
                    bad.append('%s: AA-8 must send A-ABORT with service-provider source (2), got %d' % (where, w['source']))
                if exp['absrc'] == 'asgiven' and [w['source'], w['reason']] != detail.get('f'):
                    bad.append("%s: the user's A-ABORT %s was sent as %s" % (where, detail.get('f'), [w['source'], w['reason']]))
            if want[0] == 'RJ' and [w['result'], w['source'], w['reason']] != detail.get('f'):
                bad.append("%s: the user's A-ASSOCIATE-RJ %s was sent as %s" % (where, detail.get('f'), [w['result'], w['source'], w['reason']]))
            if want[0] == 'PD':
                v = w['pdvs'][0]['val'] if w['pdvs'] else b''
                if v[1:5] != (detail.get('fid', -1)).to_bytes(4, 'big'):
                    bad.append('%s: P-DATA-TF on the wire is not the fragment the user gave' % where)
        # indication
        ik = []
        for i in inds:
            if isinstance(i, tuple):
                ik.append('MSG')
            else:
                ik.append(W.KIND.get(getattr(i, 'pdu_type', None), '?'))
        if exp['act'] in ('DT2', 'AR6'):
            wanti = ['MSG'] if detail.get('msg') is not None else []
        else:
            wanti = [] if exp['ind'] == '-' else [exp['ind']]
        if ik != wanti:
            bad.append('%s: user was given %s, PS3.8 %s says %s' % (where, ik, exp['act'], wanti))
        elif wanti == ['MSG']:
            mid = int(inds[0][0].command_set[(0, 0x0110)].value)
            if mid != detail['msg'] or inds[0][1] != 1:
                bad.append('%s: indicated message id/context %s/%s, sent %s/1' % (where, mid, inds[0][1], detail['msg']))
        elif wanti and wanti[0] in ('RJ', 'AB') and exp['act'] in ('AE4', 'AA3'):
            i = inds[0]
            got = [i.result, i.source, i.reason_diag] if wanti[0] == 'RJ' else [i.source, i.reason_diag]
            if got != detail.get('f'):
                bad.append('%s: indication fields %s, PDU carried %s' % (where, got, detail.get('f')))
        # transport
        if exp['closes']:
            if not closed or p.dul_socket is not None:
                bad.append('%s: %s must close the transport connection' % (where, exp['act']))
        elif closed or (has_sock and p.dul_socket is None):
            bad.append('%s: %s must not close the transport connection' % (where, exp['act']))
        if exp['opens']:
            if len(opened) != 1 or p.dul_socket is not opened[0] or opened[0].connected != ('peer.example', 104):
                bad.append('%s: AE-1 must open a transport connection to the called address' % where)
        # ARTIM
        tm = exp['timer']
        running = t_after is not None
        fresh = running and t_after == env.clock.now
        if tm in ('start', 'restart'):
            if not fresh:
                bad.append('%s: %s must %s ARTIM (running=%s, freshly started=%s)' % (where, exp['act'], tm, running, fresh))
        elif tm == 'stop':
            if running:
                bad.append('%s: %s must stop ARTIM' % (where, exp['act']))
        elif t_after != t_before:
            bad.append('%s: %s must not touch ARTIM' % (where, exp['act']))
        return bad


def main(tier='quick'):
    v = Verdict('C04', tier)
    r = tlc.run('ULFsmCells', 'ULFsmCells.cfg', workers=1, coverage=True)
    if not r.ok:
        raise Machinery('ULFsmCells did not pass TLC: %s %s' % (r.violated, r.errors[:3]))
    cells = tlc.printed_values(r.out)
    defined = {}
    for c in cells:
        defined.setdefault((c['st'], c['ev'], c['req']), []).append(c)
    if len([k for k in defined if k[2]]) != 123:
        raise Machinery('expected 123 defined cells per role from TLC, got %d' % len([k for k in defined if k[2]]))
    n_run = 0
    samples = []
    per_cell_fail = {}
    for req in (False, True):
        for s in range(1, 14):
            for e in range(1, 20):
                exps = defined.get((s, e, req))
                if exps is None:
                    exps = [{'st': s, 'ev': e, 'req': req, 'act': 'none', 'next': s, 'artimBefore': s in (2, 13)}]
                for label, prim, detail in primitives_for(e):
                    n_run += 1
                    results = [run_cell(x, label, prim, detail) for x in exps]
                    # AE-6 has two admissible outcomes; the cell passes when one of them matches
                    best = min(results, key=len)
                    if len(samples) < 6 and exps[0]['act'] != 'none':
                        samples.append({'cell': exps[0], 'primitive': label, 'mismatches': best})
                    for msg in best:
                        per_cell_fail.setdefault((s, e, req), []).append(msg)
    for (s, e, req), msgs in sorted(per_cell_fail.items()):
        act = defined.get((s, e, req), [{'act': 'none'}])[0]['act']
        v.report({'site': 'fsm.StateMachine', 'action': act, 'event': e, 'state': s},
                 msgs[0] + (' (+%d more)' % (len(msgs) - 1) if len(msgs) > 1 else ''),
                 replay={'cell': [s, e, req]})
    ev = {
        'tier': tier, 'level': 'model_checking',
        'coverage': {
            'states': r.distinct, 'transitions': len(cells),
            'traces_validated_against_impl': n_run,
            'samples': samples,
            'exhaustive': True,
            'cells_defined_per_role': 123, 'cells_total_per_role': 247,
            'tlc': r.summary(),
            'explanation': 'TLC enumerated every <<state,event,role>> of ULFsmCells (123 defined cells per role, '
                           'AE-6 with both outcomes); every one of the 2x247 cells was executed on the real '
                           'StateMachine with each applicable primitive kind (%d executions)' % n_run,
        },
        'assumptions': ['Table 9-10 transcribed into specs/ULFsm.tla from PS3.8 (cross-checked by DualUL)',
                        'recording socket / clock shims (harness/simnet.py) stand for the transport and time'],
    }
    return v.finish(ev)


if __name__ == '__main__':
    main_wrapper(lambda: main(sys.argv[1] if len(sys.argv) > 1 else 'quick'))
