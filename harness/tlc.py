"""Running TLC and reading what it says: statistics, coverage, violations, printed values,
state-graph dumps, simulation trace files, and batch trace validation."""
from __future__ import annotations

import json
import os
import re
import shutil
import subprocess
import tempfile
import time

from .common import SPECS, Machinery

JAR = '/opt/veriftools/tla/tla2tools.jar:/opt/veriftools/tla/CommunityModules-deps.jar'


class TLCResult(object):
    def __init__(self):
        self.ok = False
        self.generated = 0
        self.distinct = 0
        self.depth = 0
        self.violated = []      # names of violated invariants / properties
        self.errors = []        # other error lines
        self.coverage = {}      # action name -> (distinct, taken)
        self.printed = []       # raw PrintT lines
        self.out = ''
        self.wall = 0.0
        self.rc = None

    def summary(self):
        return {'states_generated': self.generated, 'distinct_states': self.distinct, 'depth': self.depth,
                'violated': self.violated, 'wall_s': round(self.wall, 2)}


def run(module, cfg, workers=16, timeout=1800, env=None, extra=(), simulate=None, depth=None, coverage=False,
        deadlock_off=True, dfs=False, cont=False, dump=None, seed=None, java_opts=()):
    """Run TLC on specs/<module>.tla with specs/<cfg>.  Returns TLCResult.  Raises Machinery on
    parse errors / crashes so that a broken spec can never look like a verdict."""
    meta = tempfile.mkdtemp(prefix='tlcmeta_')
    cmd = ['java', '-XX:+UseParallelGC', '-Xmx8g', '-Xss256m']
    if workers == 1:
        # trace validation: many such JVMs may run side by side; keep each one to a few threads
        cmd += ['-XX:ParallelGCThreads=2', '-XX:CICompilerCount=2']
    if dfs:
        cmd.append('-Dtlc2.tool.queue.IStateQueue=StateDeque')
    cmd += list(java_opts)
    cmd += ['-cp', JAR, 'tlc2.TLC', '-metadir', meta, '-noGenerateSpecTE',
            '-workers', str(workers), '-config', cfg]
    if deadlock_off:
        cmd.append('-deadlock')
    if coverage:
        cmd += ['-coverage', '1']
    if cont:
        cmd.append('-continue')
    if simulate:
        cmd += ['-simulate', simulate]
    if depth:
        cmd += ['-depth', str(depth)]
    if seed is not None:
        cmd += ['-seed', str(seed)]
    if dump:
        cmd += ['-dump', 'dot,actionlabels', dump]
    cmd += list(extra)
    cmd.append(module)
    e = dict(os.environ)
    if env:
        e.update({k: str(v) for k, v in env.items()})
    t0 = time.time()
    try:
        p = subprocess.run(cmd, cwd=SPECS, env=e, stdout=subprocess.PIPE, stderr=subprocess.STDOUT,
                           timeout=timeout, universal_newlines=True)
        out = p.stdout
        rc = p.returncode
    except subprocess.TimeoutExpired as exc:
        out = (exc.stdout or b'')
        if isinstance(out, bytes):
            out = out.decode('utf8', 'replace')
        rc = -9
        if not simulate:
            shutil.rmtree(meta, ignore_errors=True)
            raise Machinery('TLC timed out after %ss on %s/%s' % (timeout, module, cfg))
    finally:
        shutil.rmtree(meta, ignore_errors=True)
    r = parse(out)
    r.rc = rc
    r.wall = time.time() - t0
    if re.search(r'(Parsing or semantic analysis failed|Semantic errors|\*\*\* Errors: |Error: TLC threw an unexpected exception'
                 r'|java\.lang\.\w*Error|Error: Parsing|Was expecting|The exception was a java|Error: In evaluation'
                 r'|Error: Evaluating|Error: The (first|second) argument of|Error: Attempted to)', out):
        raise Machinery('TLC failed on %s/%s:\n%s' % (module, cfg, out[-3000:]))
    if rc not in (0, 12, 13, 10, 11, -9) and not r.violated:
        try:
            with open(os.path.join(tempfile.gettempdir(), 'tlc_last_failure.log'), 'w') as fh:
                fh.write(out)
        except OSError:
            pass
        first = [ln for ln in out.splitlines() if ln.startswith('Error')][:3]
        raise Machinery('TLC exit code %s on %s/%s: %s\n%s' % (rc, module, cfg, first, out[-1500:]))
    if False:
        raise Machinery('TLC exit code %s on %s/%s:\n%s' % (rc, module, cfg, out[-3000:]))
    return r


def parse(out):
    r = TLCResult()
    r.out = out
    for line in out.splitlines():
        m = re.match(r'(\d+) states generated, (\d+) distinct states found', line)
        if m:
            r.generated, r.distinct = int(m.group(1)), int(m.group(2))
        m = re.match(r'The depth of the complete state graph search is (\d+)', line)
        if m:
            r.depth = int(m.group(1))
        m = re.match(r'Error: Invariant (\S+) is violated', line)
        if m:
            r.violated.append(m.group(1))
        m = re.match(r'Error: Action property (\S+) is violated', line)
        if m:
            r.violated.append(m.group(1))
        if re.match(r'Error: Temporal properties were violated', line):
            r.violated.append('<temporal>')
        if re.match(r'Error: Deadlock reached', line):
            r.violated.append('<deadlock>')
        m = re.match(r'Error: (.*)', line)
        if m and not re.search(r'is violated|Temporal properties|Deadlock reached|The behavior up to|The following behavior', line):
            r.errors.append(m.group(1))
        m = re.match(r'<(\w+) line \d+, col \d+ to line \d+, col \d+ of module (\w+)>: (\d+):(\d+)', line)
        if m:
            r.coverage[m.group(1)] = (int(m.group(3)), int(m.group(4)))
    r.ok = ('Model checking completed. No error has been found.' in out) or \
           (not r.violated and not r.errors and 'Finished in' in out)
    return r


def printed_values(out):
    """Values printed with PrintT, one JSON string per line marked  @@{...}@@ ."""
    vals = []
    for m in re.finditer(r'@@(.*?)@@', out, re.S):
        s = m.group(1)
        try:
            vals.append(json.loads(s))
        except ValueError:
            # TLC wraps strings in quotes and escapes them when PrintT is given a string
            try:
                vals.append(json.loads(json.loads('"' + s + '"')))
            except ValueError:
                raise Machinery('cannot parse printed value: %r' % s[:200])
    return vals


# ------------------------------------------------------------------ batch trace validation

def validate_traces(module, cfg, traces, timeout=1800, env=None, chunk=None, dfs=True, workers=1, keep=None):
    """Validate a list of traces (each a list of JSON-able event records) against specs/<module>.tla
    (a Trace_* module following the batch protocol: CONSTANT-free, reads IOEnv.TRACE_FILE, prints one
    line  @@{"tid":i,"reached":n,"len":m,"inv":k}@@  per trace from its POSTCONDITION).

    Returns list of dicts aligned with traces: {'ok':bool,'reached':n,'len':m,'bad_inv':name|None}.
    States explored are summed into the returned stats."""
    results = []
    stats = {'states': 0, 'generated': 0, 'jvm_runs': 0, 'wall_s': 0.0}
    if chunk is None:
        chunk = len(traces) or 1
    for base in range(0, len(traces), chunk):
        part = traces[base:base + chunk]
        fd, path = tempfile.mkstemp(prefix='traces_', suffix='.json')
        with os.fdopen(fd, 'w') as fh:
            json.dump(part, fh)
        e = {'TRACE_FILE': path}
        if env:
            e.update(env)
        try:
            r = run(module, cfg, workers=workers, timeout=timeout, env=e, dfs=dfs, cont=True)
        finally:
            if keep:
                shutil.copy(path, keep)
            os.unlink(path)
        stats['states'] += r.distinct
        stats['generated'] += r.generated
        stats['jvm_runs'] += 1
        stats['wall_s'] += r.wall
        got = {}
        for v in printed_values(r.out):
            if isinstance(v, dict) and 'tid' in v:
                got[v['tid']] = v
        if len(got) != len(part):
            raise Machinery('trace validator %s reported %d of %d traces:\n%s' % (module, len(got), len(part), r.out[-3000:]))
        for i, tr in enumerate(part):
            g = got[i + 1]
            ok = (g['reached'] == len(tr)) and not g.get('inv')
            results.append({'ok': ok, 'reached': g['reached'], 'len': len(tr), 'bad_inv': g.get('inv') or None})
    return results, stats


# ------------------------------------------------------------------ DOT dump / simulation files

def parse_dot(path):
    """State graph dumped by -dump dot,actionlabels.  Returns (nodes {id: label}, edges [(src, dst, label)], initial ids)."""
    nodes, edges, init = {}, [], []
    with open(path) as fh:
        txt = fh.read()
    for m in re.finditer(r'^(-?\d+) \[label="(.*?)"(,style = filled)?\]', txt, re.M):
        nodes[m.group(1)] = m.group(2).replace('\\n', '\n').replace('\\"', '"').replace('\\\\', '\\')
        if m.group(3):
            init.append(m.group(1))
    for m in re.finditer(r'^(-?\d+) -> (-?\d+) \[label="(.*?)"', txt, re.M):
        edges.append((m.group(1), m.group(2), m.group(3)))
    return nodes, edges, init


_TOK = re.compile(r'\s*(<<|>>|\[|\]|\{|\}|\(|\)|,|\|->|:>|@@|"(?:[^"\\]|\\.)*"|-?\d+|[A-Za-z_][A-Za-z_0-9]*)')


def parse_tla_value(s):
    """Parse a TLA+ value as printed by TLC (sequences, records, sets, strings, ints, booleans, functions a:>b@@c:>d)."""
    toks = _TOK.findall(s)
    pos = [0]

    def peek():
        return toks[pos[0]] if pos[0] < len(toks) else None

    def eat(t=None):
        v = toks[pos[0]]
        if t is not None and v != t:
            raise Machinery('TLA value parse: expected %s got %s in %r' % (t, v, s[:200]))
        pos[0] += 1
        return v

    def atom():
        t = peek()
        if t == '<<':
            eat()
            out = []
            while peek() != '>>':
                out.append(expr())
                if peek() == ',':
                    eat()
            eat('>>')
            return out
        if t == '{':
            eat()
            out = []
            while peek() != '}':
                out.append(expr())
                if peek() == ',':
                    eat()
            eat('}')
            return {'__set__': out}
        if t == '[':
            eat()
            rec = {}
            while peek() != ']':
                k = eat()
                eat('|->')
                rec[k] = expr()
                if peek() == ',':
                    eat()
            eat(']')
            return rec
        if t == '(':
            eat()
            v = expr()
            eat(')')
            return v
        eat()
        if t.startswith('"'):
            return json.loads(t)
        if t in ('TRUE', 'FALSE'):
            return t == 'TRUE'
        if re.match(r'-?\d+$', t):
            return int(t)
        return t

    def expr():
        v = atom()
        if peek() == ':>':
            fn = {}
            while True:
                eat(':>')
                fn[json.dumps(v) if not isinstance(v, (str, int)) else v] = atom()
                if peek() == '@@':
                    eat()
                    v = atom()
                    continue
                break
            return fn
        return v

    return expr()


def parse_state_label(label):
    """'/\\ a = 1\n/\\ b = <<>>' -> {'a': 1, 'b': []}"""
    st = {}
    parts = re.split(r'(?:^|\n)/\\ ', label)
    for p in parts:
        p = p.strip()
        if not p:
            continue
        k, _, v = p.partition(' = ')
        st[k.strip()] = parse_tla_value(v)
    return st


def simulate_behaviours(module, cfg, num, depth, seed=0, timeout=600, workers=1):
    """Run tlc -simulate and return a list of behaviours, each a list of (action name, state dict)."""
    d = tempfile.mkdtemp(prefix='tlcsim_')
    try:
        # num is per worker
        r = run(module, cfg, workers=workers, timeout=timeout, simulate='file=%s/tr,num=%d' % (d, num), depth=depth, seed=seed)
        out = []
        for fn in sorted(os.listdir(d)):
            with open(os.path.join(d, fn)) as fh:
                txt = fh.read()
            beh = []
            for m in re.finditer(r'\\\* <(\w+) line[^\n]*>\nSTATE_\d+ == \n(.*?)(?=\n\n\n|\n=+\n|\Z)', txt, re.S):
                beh.append((m.group(1), parse_state_label(m.group(2))))
            if beh:
                out.append(beh)
        return out, r
    finally:
        shutil.rmtree(d, ignore_errors=True)
