"""Substrate S3: the whole stack with REAL threads (application, association handler, one provider
thread per association) over real sockets - socket.socketpair() (no ports at all) or loopback TCP on
an ephemeral port.  Nothing in /repo is modified: the requester reaches the network only through
fsm.socket.socket(...).connect(addr), which is shimmed to hand out one end of a socketpair and to
start the server's handler (exactly what socketserver's ThreadingMixIn does:
RequestHandlerClass(request, client_address, server) in a new thread) on the other end.

Every byte written by either side is recorded per direction and re-read by the reference parser.
"""
from __future__ import annotations

import socket as _socket
import threading
import time
import types

from .common import import_repo, Machinery
from . import wire_ref as W

import_repo()
from pynetdicom2 import fsm, applicationentity, asceprovider, exceptions  # noqa: E402


class Tap(object):
    """Wraps a real socket: delegates everything, records what is sent."""

    def __init__(self, sock, log, name):
        self._s = sock
        self._log = log
        self._name = name

    def sendall(self, data):
        self._log.append((self._name, bytes(data)))
        return self._s.sendall(data)

    def send(self, data):
        self._log.append((self._name, bytes(data)))
        return self._s.sendall(data)

    def __getattr__(self, k):
        return getattr(self._s, k)

    def fileno(self):
        return self._s.fileno()


class Net(object):
    """Registry of server entities by (host, port); installs the fsm.socket shim."""

    def __init__(self, batch=None):
        self.batch = batch       # seconds: what the accepting side writes reaches the requesting side in batches (a
                                 # relay collects for that long and then delivers everything in ONE segment)
        self.servers = {}
        self.links = []          # one dict per connection: {'log': [...], 'server_thread': t, 'addr': addr}
        self._saved = None
        self.lock = threading.Lock()
        self.handler_errors = []

    def register(self, addr, ae):
        self.servers[addr] = ae

    def __enter__(self):
        self._saved = fsm.socket
        net = self

        class ClientSocket(object):
            def __init__(self, *a, **k):
                self._tap = None

            def connect(self, addr):
                ae = net.servers.get(tuple(addr))
                if ae is None:
                    raise ConnectionRefusedError(111, 'no such verification server %r' % (addr,))
                a, b = _socket.socketpair()
                if net.batch:
                    a, b = _relay(a, b, net.batch)
                log = []
                link = {'log': log, 'addr': tuple(addr), 'done': threading.Event(), 'error': None}
                self._tap = Tap(a, log, 'R')
                srv = Tap(b, log, 'A')
                # who is at the two ends (for harness/lifetap.py): connect() runs in the requesting provider's thread
                link['tapR'], link['tapA'], link['requester_thread'] = self._tap, srv, threading.current_thread()

                def serve():
                    try:
                        if hasattr(ae, 'RequestHandlerClass'):
                            ae.RequestHandlerClass(srv, ('client', len(net.links)), ae)
                        else:
                            ae(srv)          # a scripted raw peer: callable(socket)
                    except Exception as exc:      # noqa - what socketserver would print and swallow
                        link['error'] = exc
                        net.handler_errors.append(exc)
                    finally:
                        try:
                            b.close()
                        except OSError:
                            pass
                        link['done'].set()
                t = threading.Thread(target=serve, daemon=True)
                link['server_thread'] = t
                with net.lock:
                    net.links.append(link)
                t.start()

            def __getattr__(self, k):
                if self._tap is None:
                    raise AttributeError(k)
                return getattr(self._tap, k)

            def fileno(self):
                return self._tap.fileno()

        fsm.socket = types.SimpleNamespace(socket=ClientSocket, AF_INET=_socket.AF_INET, SOCK_STREAM=_socket.SOCK_STREAM,
                                           error=_socket.error, timeout=_socket.timeout)
        return self

    def __exit__(self, *exc):
        fsm.socket = self._saved
        for l in self.links:
            l['done'].wait(20)
        return False

    def wait_all(self, timeout=30):
        ok = True
        for l in list(self.links):
            ok = l['done'].wait(timeout) and ok
        return ok


def _relay(a, b, batch):
    """Put a relay between the two ends: requesting -> accepting direction is passed on at once, accepting ->
    requesting direction is collected for `batch` seconds and delivered in one write (several PDUs per segment,
    as a busy network or a proxy does).  Returns the two outer ends."""
    import select as _select
    # topology:  requester [req_end] <-> [a2] relay [b2] <-> [acc_end] acceptor   (the pair handed in is not used)
    a2, req_end = _socket.socketpair()
    b2, acc_end = _socket.socketpair()
    a.close()
    b.close()

    def pump():
        pending = b''
        deadline = None
        open_a, open_b = True, True
        while open_a or open_b:
            timeout = 0.05 if deadline is None else max(0.0, deadline - time.time())
            rl = [s for s, o in ((a2, open_a), (b2, open_b)) if o]
            try:
                ready = _select.select(rl, [], [], timeout)[0] if rl else []
            except (OSError, ValueError):
                break
            for s in ready:
                try:
                    data = s.recv(65536)
                except OSError:
                    data = b''
                if s is a2:
                    if data:
                        try:
                            b2.sendall(data)
                        except OSError:
                            pass
                    else:
                        open_a = False
                        try:
                            b2.shutdown(_socket.SHUT_WR)
                        except OSError:
                            pass
                else:
                    if data:
                        pending += data
                        if deadline is None:
                            deadline = time.time() + batch
                    else:
                        open_b = False
                        deadline = time.time()
            if deadline is not None and time.time() >= deadline:
                if pending:
                    try:
                        a2.sendall(pending)
                    except OSError:
                        pass
                    pending = b''
                deadline = None
                if not open_b:
                    try:
                        a2.shutdown(_socket.SHUT_WR)
                    except OSError:
                        pass
        for s in (a2, b2):
            try:
                s.close()
            except OSError:
                pass
    threading.Thread(target=pump, daemon=True).start()
    return req_end, acc_end


def pdus_of(log, side):
    """All PDUs one side put on the wire, parsed by the reference parser: list of dicts with kind 'k'."""
    buf = b''.join(b for s, b in log if s == side)
    pdus, rest = W.split_stream(buf)
    out = []
    for p in pdus:
        try:
            d = W.dec_pdu(p)
            d['k'] = W.kind_of(p)
        except W.WireError as exc:
            d = {'k': 'MALFORMED', 'why': str(exc)}
        out.append(d)
    if rest:
        out.append({'k': 'TRAILING', 'n': len(rest)})
    return out


def server_ae(cls=applicationentity.AE, *args, **kw):
    """An AE that never binds a port (connections are injected through the Net)."""
    kw.setdefault('bind_and_activate', False) if cls is applicationentity.AE else None
    ae = cls(*args, **kw)
    try:
        ae.server_close()
    except Exception:     # noqa
        pass
    return ae


def read_pdu(sock, timeout=10):
    """Raw peer helper: read exactly one PDU from the socket (None on EOF)."""
    sock.settimeout(timeout)
    buf = b''
    while len(buf) < 6:
        c = sock.recv(6 - len(buf))
        if not c:
            return None
        buf += c
    n = int.from_bytes(buf[2:6], 'big')
    while len(buf) < 6 + n:
        c = sock.recv(6 + n - len(buf))
        if not c:
            return None
        buf += c
    return buf


def raw_client(ae):
    """Start the accepting entity's handler on one end of a socketpair; returns (raw socket for a scripted requesting
    peer, link dict with 'log' and 'done')."""
    a, b = _socket.socketpair()
    log = []
    link = {'log': log, 'done': threading.Event(), 'error': None}
    srv = Tap(b, log, 'A')

    def serve():
        try:
            ae.RequestHandlerClass(srv, ('rawclient', 0), ae)
        except Exception as exc:      # noqa
            link['error'] = exc
        finally:
            try:
                b.close()
            except OSError:
                pass
            link['done'].set()
    t = threading.Thread(target=serve, daemon=True)
    link['server_thread'] = t
    t.start()
    return Tap(a, log, 'R'), link
