"""C11 - requester: well-formed proposal; accepted contexts and service lookup agree.

Spec: specs/Negotiation.tla RequestClauses (titles, application context, own maximum length, each
configured class once in configuration order, ids distinct / odd / 1..255 / increasing, configured
transfer syntaxes) and ReplyClauses (usable = accepted among proposed with the chosen syntax;
service lookup succeeds iff such a context exists).
Binding: configuration histories (sequences of add_scu / add_scp calls with class lists of sizes
{1,2,3,63,64,126,127,128,129,130,...}) are applied to a real ClientAE / AE; AssociationRequester
._request runs on a scripted provider whose reply is every accept / reject pattern (result codes
0..4, either transfer syntax) for small proposals and seeded patterns for large ones, or an
A-ASSOCIATE-RJ; the A-ASSOCIATE-RQ handed to the provider is parsed by the reference parser; TLC
judges request, usable table and lookups (Trace_Negotiation).
Scope (DESIGN.md 4 C11): the 'iff' of the lookup is claimed for classes configured through add_scu;
class lists of successive calls may overlap (a class configured twice is one configured class).
"""
from __future__ import annotations

import itertools
import random
import sys

from . import tlc, neglib as N
from .common import Verdict, main_wrapper, Machinery, seed

ex = N.exceptions


def uid_pool(n, salt):
    return ['1.2.826.0.1.%d.%d' % (salt, i) for i in range(n)]


def histories(tier, rng):
    """Yield list of (kind 'scu'|'scp', n classes)."""
    small = [1, 2, 3]
    for a in small:
        yield [('scu', a)]
        for b in small:
            yield [('scu', a), ('scu', b)]
            yield [('scu', a), ('scp', b)]
            yield [('scp', a), ('scu', b)]
    # the same class configured in two calls (an entity that is user and provider of a service, a class list given
    # twice): it is still ONE configured class.  A third element k = the first k classes repeat those of the previous call
    yield [('scu', 1), ('scp', 1, 1)]
    yield [('scp', 2), ('scu', 2, 2)]
    yield [('scu', 2), ('scu', 3, 1)]
    yield [('scu', 3), ('scp', 1), ('scu', 2, 1)]
    # the entity is USED (an association is requested) between two configuration steps: the next request must still
    # reflect everything configured by then
    yield [('scu', 1), ('assoc',), ('scp', 1)]
    yield [('scu', 2), ('assoc',), ('scu', 1)]
    yield [('scp', 1), ('scu', 1), ('assoc',), ('scp', 2), ('assoc',), ('scu', 1)]
    # an earlier association of the same entity in which the peer REFUSED some contexts: the entity's configuration
    # is what it was
    yield [('scu', 3), ('assoc', 'refuse-some')]
    yield [('scu', 2), ('scp', 2), ('assoc', 'refuse-some'), ('scu', 1)]
    # one call naming a class twice: still one configured class
    yield [('scu', 3, 0, 'twice')]
    yield [('scp', 2), ('scu', 2, 1, 'twice')]
    for n in (63, 64, 126, 127, 128):
        yield [('scu', n)]
    yield [('scu', 64), ('scu', 64)]
    yield [('scu', 127), ('scu', 1)]
    yield [('scu', 100), ('scp', 28)]
    yield [('scp', 1), ('scu', 126), ('scu', 1)]
    # beyond the 128 odd ids that exist
    yield [('scu', 129)]
    yield [('scu', 130)]
    yield [('scu', 128), ('scu', 1)]
    yield [('scp', 139), ('scu', 1)]
    for _ in range(20 if tier == 'quick' else 300):
        yield [(rng.choice(['scu', 'scu', 'scp']), rng.choice([1, 2, 5, 17, 40])) for _ in range(rng.randint(1, 4))]


def reply_patterns(ctx_ids, ts_list, tier, rng):
    """Yield ('ac', [(id, res, ts)]) / ('rj', triple) replies."""
    choices = [(0, ts) for ts in ts_list] + [(r, '') for r in (1, 2, 3, 4)]
    if len(ctx_ids) <= 3:
        for combo in itertools.product(choices, repeat=len(ctx_ids)):
            yield 'ac', [(i, r, t) for i, (r, t) in zip(ctx_ids, combo)]
    else:
        yield 'ac', [(i, 0, ts_list[0]) for i in ctx_ids]
        yield 'ac', [(i, 3, '') for i in ctx_ids]
        for _ in range(6 if tier == 'quick' else 40):
            yield 'ac', [(i,) + rng.choice(choices) for i in ctx_ids]
        # the acceptor answers only some of the contexts / in another order
        sub = rng.sample(ctx_ids, max(1, len(ctx_ids) // 2))
        yield 'ac', [(i, 0, ts_list[-1]) for i in sub]
    # the peer's reply also names (as accepted) a context that was never proposed: it is not among the proposed ones
    stray = next((i for i in range(255, 0, -2) if i not in ctx_ids), None)
    if stray is not None:
        some = [(i, 0, ts_list[0]) for i in ctx_ids[:3]]
        yield 'ac', some[:1] + [(stray, 0, ts_list[-1])] + some[1:]
        yield 'ac', [(stray, 0, ts_list[0])] + [(i, 3, '') for i in ctx_ids[:2]]
    yield 'rj', (1, 1, 3)


def run_case(hist, ts_list, reply, own_max, rng):
    scu_lists, all_classes, scu_classes = [], [], []
    needs_server = any(h[0] == 'scp' for h in hist)
    if needs_server:
        ae = N.applicationentity.AE('LOCAL-AE', 0, supported_ts=ts_list, max_pdu_length=own_max, bind_and_activate=False)
        try:
            ae.server_close()
        except Exception:   # noqa
            pass
    else:
        ae = N.applicationentity.ClientAE('LOCAL-AE', supported_ts=ts_list, max_pdu_length=own_max)
    prev = []
    remote0 = {'aet': 'REMOTE-AE', 'address': 'peer.example', 'port': 11112}
    for j, h in enumerate(hist):
        if h[0] == 'assoc':
            # an association with everything configured so far, every context accepted; its outcome is not judged here
            ids0 = sorted(ae.context_def_list)
            refuse = len(h) > 1 and h[1] == 'refuse-some'
            acc = N.pdu.AAssociateAcPDU.decode(N.ac_bytes('REMOTE-AE', 'LOCAL-AE', [
                ({'id': i, 'res': 3, 'ts': ''} if (refuse and n_ % 2 == 0) else {'id': i, 'res': 0, 'ts': str(ts_list[0])})
                for n_, i in enumerate(ids0) if i <= 255], 16384))
            try:
                N.bare_requester(ae, own_max, remote0, [acc])._request(ae.local_ae, remote0, users_pdu=[])
            except Exception:      # noqa
                pass
            continue
        kind, n = h[0], h[1]
        shared = h[2] if len(h) > 2 else 0
        classes = prev[:shared] + uid_pool(n - shared, j)
        prev = classes
        if len(h) > 3 and h[3] == 'twice':
            classes = classes + [classes[0]]          # the list handed to add_scu / add_scp names its first class again
        rec = N.Recorder(classes)
        if kind == 'scu':
            ae.add_scu(rec)
            scu_classes.extend(classes)
        else:
            ae.add_scp(rec)
        all_classes.extend(c for c in classes if c not in all_classes)
    remote = {'aet': 'REMOTE-AE', 'address': 'peer.example', 'port': 11112}
    cfg = {'classes': all_classes, 'ts': [str(t) for t in ae.supported_ts], 'called': 'REMOTE-AE', 'calling': 'LOCAL-AE', 'max': N.limbs(own_max)}
    ids = sorted(ae.context_def_list)
    kind, body = reply
    if kind == 'ac':
        ids_avail = ids
        ctxs = [{'id': i, 'res': r, 'ts': t} for (i, r, t) in body if i <= 255]
        rp = N.pdu.AAssociateAcPDU.decode(N.ac_bytes('REMOTE-AE', 'LOCAL-AE', ctxs, 16384))
    else:
        rp = N.pdu.AAssociateRjPDU(*body)
        ctxs = []
    r = N.bare_requester(ae, own_max, remote, [rp])
    replied = False
    err = None
    try:
        r._request(ae.local_ae, remote, users_pdu=[])
        replied = (kind == 'ac')
    except ex.AssociationRejectedError as e:
        if kind != 'rj':
            err = 'unexpected rejection error'
    except Exception as e:     # noqa
        err = '%s: %s' % (type(e).__name__, e)
    if not r.dul.sent:
        return None, None, 'no request was handed to the provider (%s)' % err
    rq, enc_err = N.project_rq(r.dul.sent[0][0])
    usable = [{'as': str(k), 'id': v[0], 'ts': str(v[1])} for k, v in r.sop_classes_as_scu.items()]
    u2 = sorted((str(v.sop_class), k, str(v.supported_ts)) for k, v in r.accepted_contexts.items())
    notes = {}
    if replied and u2 != sorted((u['as'], u['id'], u['ts']) for u in usable):
        notes['tables_disagree'] = True
    lookups = []
    if replied:
        for c in all_classes + ['1.2.3.not.configured']:
            q = {'as': c, 'ok': False, 'id': 0, 'ts': '', 'scu': c in scu_classes or c == '1.2.3.not.configured'}
            try:
                svc = r.get_scu(c)
                q['ok'] = True
                ctx = svc.args[1]
                q['id'], q['ts'] = ctx.id, str(ctx.supported_ts)
            except ex.ClassNotSupportedError:
                pass
            except Exception as e:    # noqa
                notes['lookup_raised'] = '%s: %s' % (type(e).__name__, e)
            lookups.append(q)
    case = {'kind': 'request', 'cfg': cfg, 'rq': rq, 'replied': replied,
            'reply': ctxs, 'usable': usable, 'lookups': lookups}
    if enc_err:
        notes['unencodable'] = enc_err
    if err and kind == 'ac':
        notes['request_raised'] = err
    return case, notes, None


def main(tier='quick'):
    v = Verdict('C11', tier)
    rng = random.Random(seed())
    mc = tlc.run('MC_Negotiation', 'MC_Negotiation.cfg', workers=16)
    if not mc.ok:
        raise Machinery('Negotiation.tla fails TLC: %s %s' % (mc.violated, mc.errors[:2]))
    cases, metas = [], []
    ts_variants = [[N.TS_UID['T1']], [N.TS_UID['T2'], N.TS_UID['T1']], [N.TS_UID['T1'], N.TS_UID['T2'], N.TS_UID['T3']]]
    # transfer syntax UIDs one of which is a prefix of another (as Implicit VR LE is of both Explicit ones), in entities
    # whose syntax sets iterate in every order: the peer's choice must be bound exactly as it was made
    base = N.TS_UID['T1']
    prefix_plans = []
    for k in range(1, 13 if tier == 'quick' else 40):
        prefix_plans.append(([('scu', 2)], [base, '%s.%d' % (base, k)]))
        if k % 3 == 0:
            prefix_plans.append(([('scu', 2)], [base, '%s.%d' % (base, k), '%s.%d.9' % (base, k)]))
    plans = [(hist, None) for hist in histories(tier, rng)] + prefix_plans
    for hist, forced_ts in plans:
        total = sum(h[1] - (h[2] if len(h) > 2 else 0) for h in hist if h[0] != 'assoc')
        ts_list = forced_ts or ts_variants[total % 3]
        ids = [1 + 2 * i for i in range(total)]
        for reply in reply_patterns(ids, ts_list, tier, rng):
            own_max = rng.choice([0, 16384, 65536, 2 ** 32 - 1])
            meta = {'history': hist, 'ts': ts_list, 'reply': reply if total <= 6 else (reply[0], '...'), 'max': own_max, 'total_classes': total}
            case, notes, fatal = run_case(hist, ts_list, reply, own_max, rng)
            size = 'gt128' if total > 128 else 'le128'
            if fatal:
                v.report({'site': 'asceprovider._request', 'clause': 'no-request', 'classes': size}, '%s for %r' % (fatal, meta), replay=meta)
                continue
            for k, val in notes.items():
                v.report({'site': 'asceprovider._request', 'clause': k, 'classes': size}, '%s: %r for %r' % (k, val, meta), replay=meta)
            cases.append(case)
            metas.append((meta, size))
    res, stats = tlc.validate_traces('Trace_Negotiation', 'Trace_Negotiation.cfg', [[c] for c in cases], chunk=3000)
    for (meta, size), c, r in zip(metas, cases, res):
        if r['reached'] != 1:
            raise Machinery('case not judged')
        for clause in (r['bad_inv'] or []):
            v.report({'site': 'asceprovider._request', 'clause': clause, 'classes': size},
                     '%s for %r; request ids %s' % (clause, meta, [x['id'] for x in c['rq']['ctxs']][:6] + ['...'] + [x['id'] for x in c['rq']['ctxs']][-3:]),
                     replay=meta)
    ev = {'tier': tier, 'level': 'model_checking',
          'coverage': {'states': mc.distinct, 'transitions': mc.generated, 'traces_validated_against_impl': len(cases),
                       'configuration_histories': len({str(m['history']) for m, _ in metas}),
                       'samples': [cases[0], {k: (x if k != 'rq' else '...') for k, x in cases[len(cases) // 2].items() if k != 'lookups'}],
                       'exhaustive': False},
          'assumptions': ['disjoint class lists', 'lookup iff only for add_scu classes', 'replies are built with the reference encoder and decoded by the library']}
    return v.finish(ev)


def replay(doc):
    print('re-run ./check C11 (cases are regenerated deterministically); case: %r' % (doc.get('replay'),))
    return main('quick')


if __name__ == '__main__':
    main_wrapper(lambda: main(sys.argv[1] if len(sys.argv) > 1 else 'quick'))
