"""Shared by the provider-level checks (C03, C05, C12, C13): validate recorded S1 runs with TLC
against Trace_ULProvider, turn rejections into violations, collect coverage for the evidence."""
from __future__ import annotations

import collections
import json

from . import tlc
from .common import Machinery


def explain(run_trace, verdict):
    """Human-readable reason for a rejected trace: last matched line and the next one."""
    r = verdict['reached']
    nxt = run_trace[r] if r < len(run_trace) else None
    if verdict.get('bad_inv'):
        why = 'invariant %s of ULProvider fails on the recorded execution' % verdict['bad_inv']
    elif nxt is None:
        why = 'trace accepted'
    elif nxt['ev'] == 'Died':
        why = 'the provider loop died with %s: %s' % (nxt.get('exc'), nxt.get('msg'))
    elif nxt['ev'] == 'Hang':
        why = 'the provider loop blocks forever: %s' % nxt.get('why')
    elif nxt['ev'] == 'Iter':
        why = ('iteration not allowed by ULProvider: consumed Evt%s -> Sta%s, wire=%s ind=%s sock=%s artim=%s evq=%s '
               '(trace line %d)' % (nxt['evt'], nxt['st'], [w['k'] for w in nxt['wire']], [i['k'] for i in nxt['ind']],
                                    nxt['sock'], nxt['artim'], nxt['evq'], r + 1))
    else:
        why = 'environment event %s not applicable (harness/spec mismatch)' % nxt['ev']
    return why, nxt


def key_of(run_trace, verdict):
    r = verdict['reached']
    nxt = run_trace[r] if r < len(run_trace) else None
    # state before the failing step
    pst = 1
    for e in run_trace[:r]:
        if e['ev'] == 'Iter':
            pst = e['st']
    k = {'site': 'dulprovider.run', 'state': pst}
    if verdict.get('bad_inv'):
        k['clause'] = verdict['bad_inv']
    elif nxt is not None:
        k['clause'] = nxt['ev']
        if nxt['ev'] == 'Iter':
            k['evt'] = nxt['evt']
        if nxt['ev'] == 'Died':
            k['exc'] = nxt.get('exc')
    return k


def cells_of(trace):
    out = collections.Counter()
    pst = 1
    for e in trace:
        if e['ev'] == 'Iter':
            if e['evt']:
                out[(e['evt'], pst)] += 1
            pst = e['st']
    return out


def validate(v, runs, recipes, chunk=400):
    """runs: list of ulrun.Run (or objects with .trace); recipes: parallel list of JSON-able recipes
    for the replay file.  Reports violations on Verdict v.  Returns stats dict."""
    traces = [r.trace for r in runs]
    # one read returns at most the provider's own maximum: runs with a small local maximum are validated with ReadMax set
    groups = {}
    for k, r in enumerate(runs):
        lm = getattr(r, 'local_max', 65536)
        groups.setdefault(0 if lm >= 65536 else lm, []).append(k)
    res = [None] * len(traces)
    stats = {'states': 0, 'generated': 0, 'jvm_runs': 0, 'wall_s': 0.0}
    for lm, idx in sorted(groups.items()):
        cfg = 'Trace_ULProvider.cfg' if lm == 0 else 'Trace_ULProvider_rm%d.cfg' % lm
        part, st = tlc.validate_traces('Trace_ULProvider', cfg, [traces[k] for k in idx], chunk=chunk)
        for k, vd in zip(idx, part):
            res[k] = vd
        for key in stats:
            stats[key] += st[key]
    cells = collections.Counter()
    nbad = 0
    for tr, vd, rec in zip(traces, res, recipes):
        cells.update(cells_of(tr[:vd['reached']]))
        if vd['ok']:
            continue
        nbad += 1
        why, nxt = explain(tr, vd)
        v.report(key_of(tr, vd), why, replay={'recipe': rec, 'trace': tr, 'verdict': vd})
    stats['traces'] = len(traces)
    stats['rejected'] = nbad
    stats['events'] = sum(len(t) for t in traces)
    stats['cells'] = cells
    return stats


def sample_trace(run, n=12):
    return [e for e in run.trace[:n]]
