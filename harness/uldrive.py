"""Drivers for the S1 substrate: seeded random walks over the environment alphabet of
specs/ULProvider.tla (code -> spec), and replay of TLC-simulated behaviours of MC_ULProvider as
drivers (spec -> code).  Both return recorded traces for Trace_ULProvider."""
from __future__ import annotations

import random

from .ulrun import Run, frame, MsgPlan
from .common import Machinery

# table of defined cells, only used to decide which user primitives are *legal to issue* in a state
# (PS3.8: the user may issue a primitive only where the table has an entry for its event)
LEGAL_USER = {
    1: ['RQ'], 3: ['AC', 'RJ', 'AB'], 4: ['AB'], 5: ['AB'], 6: ['GEN', 'RLRQ', 'AB'], 7: ['AB'],
    8: ['GEN', 'RLRP', 'AB'], 9: ['RLRP', 'AB'], 10: ['AB'], 11: ['AB'], 12: ['RLRP', 'AB'],
}

PEER_KINDS = ['RQ', 'AC', 'RJ', 'PD0', 'PDC', 'PDD', 'PDM', 'RLRQ', 'RLRP', 'AB', 'UNK', 'UNK0']


class Walker(object):
    def __init__(self, rng, req, weights=None):
        self.rng = rng
        self.run = Run(req)
        self.mid = 0
        self.fid = 0
        self.pending_data = None       # a message whose data fragments are still to be sent
        self.issued_rq = False

    def mk_frames(self, kind):
        rng = self.rng
        if kind == 'RJ':
            return [frame('RJ', [rng.choice([1, 2]), rng.choice([1, 2, 3]), rng.choice([1, 2, 3, 7])])]
        if kind == 'AB':
            return [frame('AB', [rng.choice([0, 2]), rng.choice([0, 1, 2, 4, 5, 6])])]
        if kind == 'PD0':          # complete command-only message, 1..3 command fragments, possibly several PDUs
            self.mid += 1
            m = MsgPlan(self.mid, nc=rng.choice([1, 1, 2, 3]))
            return self.group(m)
        if kind == 'PDC':          # command of a message with data set; data follows later (maybe)
            self.mid += 1
            m = MsgPlan(self.mid, nc=rng.choice([1, 2]), nd=rng.choice([1, 2, 3]))
            ncmd = len([1 for fl, _ in m.pdvs if fl[0] == 'C'])
            self.pending_data = (m, ncmd)
            return self.group(m, upto=ncmd)
        if kind == 'PDD':
            if self.pending_data is None:
                self.mid += 1
                m = MsgPlan(self.mid, nc=1, nd=1)
                return self.group(m, frm=1)            # data without command: stays incomplete
            m, ncmd = self.pending_data
            self.pending_data = None
            return self.group(m, frm=ncmd)
        if kind == 'PDM':          # whole message with data in one or more PDUs
            self.mid += 1
            m = MsgPlan(self.mid, nc=rng.choice([1, 2]), nd=rng.choice([1, 2]))
            return self.group(m)
        return [frame(kind)]

    def group(self, m, frm=0, upto=None):
        """Pack PDVs frm..upto of message m into P-DATA-TF PDUs under a random grouping."""
        pdvs = m.pdvs[frm:upto]
        out, cur = [], []
        for fl, v in pdvs:
            cur.append((fl, m.m, v, m.ctx))
            if self.rng.random() < 0.6:
                out.append(frame('PD', pdvs=cur))
                cur = []
        if cur:
            out.append(frame('PD', pdvs=cur))
        return out

    def step(self):
        """Choose and apply one action; returns False when the walk must stop."""
        r, rng = self.run, self.rng
        p = r.p
        s = r._cur_sock()
        st = r.state()
        sock_open = p.dul_socket is not None and not p.dul_socket.closed
        choices = []
        if sock_open and st != 4 and not r.fin_pending and not s.peer_reset:
            choices += [('send', 5)]
            choices += [('fin', 1), ('reset', 0.3)]
            if not s.write_dead:
                choices += [('deaf', 0.25)]
        if r.transit and s is not None and not s.closed:
            choices += [('arrive', 6)]
        # user primitives that are legal in the state the user sees
        quiet = not p.event and p.from_service_user.empty() and (p.dimse_gen is None or p.dimse_gen.remaining() == 0)
        if quiet and st in LEGAL_USER and not (st == 1 and (not r.req or self.issued_rq)):
            choices += [('user', 4)]
        choices += [('tick', 0.7), ('tock', 0.5), ('iter', 9)]
        tot = sum(w for _, w in choices)
        x = rng.random() * tot
        for name, w in choices:
            x -= w
            if x <= 0:
                break
        if name == 'send':
            kind = rng.choice(self.good_kinds(st) if rng.random() < 0.7 else PEER_KINDS)
            r.peer_send(self.mk_frames(kind))
        elif name == 'arrive':
            n = len(r.transit)
            r.arrive(rng.choice([n, n, rng.randint(1, n), 1, min(n, 6), min(n, 7)]))
        elif name == 'fin':
            r.peer_fin()
        elif name == 'reset':
            r.peer_reset()
        elif name == 'deaf':
            r.peer_deaf()
        elif name == 'user':
            k = rng.choice(LEGAL_USER[st])
            if k == 'GEN':
                n = rng.choice([1, 1, 2, 3])
                fids = list(range(self.fid + 1, self.fid + 1 + n))
                self.fid += n
                # now and then the source of the message fails at some fragment (or nothing can be produced at all)
                fail_at = rng.randint(0, n - 1) if rng.random() < 0.15 else None
                if fail_at == 0 and rng.random() < 0.5:
                    fids = []
                r.user_gen(fids, fail_at=fail_at)
            elif k == 'RJ':
                r.user_put('RJ', [rng.choice([1, 2]), rng.choice([1, 2, 3]), rng.choice([1, 2, 3, 7])])
            elif k == 'AB':
                r.user_put('AB', [rng.choice([0, 2]), rng.choice([0, 1, 2, 6])])
            else:
                if k == 'RQ':
                    self.issued_rq = True
                r.user_put(k)
        elif name == 'tick':
            r.tick(True)
        elif name == 'tock':
            r.tick(False)
        else:
            res = r.iterate()
            if res != 'ok':
                return False
        return True

    @staticmethod
    def good_kinds(st):
        return {2: ['RQ'], 3: ['AB'], 5: ['AC', 'RJ', 'AB'], 6: ['PD0', 'PDC', 'PDD', 'PDM', 'RLRQ', 'AB'],
                7: ['RLRP', 'RLRQ', 'PD0', 'AB'], 8: ['AB'], 9: ['AB'], 10: ['RLRP'], 11: ['RLRP'], 12: ['AB'],
                13: ['AB', 'RQ']}.get(st, PEER_KINDS)


def random_walk(seed, req, steps=60):
    rng = random.Random(seed)
    w = Walker(rng, req)
    try:
        for _ in range(steps):
            if not w.step():
                break
        else:
            # let the loop settle so that the trace ends at a quiescent point
            w.run.settle(20)
    finally:
        w.run.close()
    return w.run


# ---------------------------------------------------------------- spec -> code: TLC behaviours as drivers

def replay_behaviour(beh, seed=0):
    """beh: list of (action, state) from MC_ULProvider.  Applies the environment actions to the real
    provider between the same iterations; returns the Run (whose recorded trace is then validated)."""
    rng = random.Random(seed)
    first = beh[0][1]
    run = Run(bool(first['isReq']))
    w = Walker(rng, run.req)
    w.run.close()
    w.run = run
    sent_frames = []        # (abstract len, concrete bytes)
    a_arrived = 0           # abstract bytes arrived so far
    c_arrived = 0
    mid = 100
    fid = 1000
    try:
        prev = first
        for act, stt in beh[1:]:
            p = run.p
            s = run._cur_sock()
            sock_ok = p.dul_socket is not None and not p.dul_socket.closed
            if act == 'MCPeerSend':
                fr = stt['stream'][-1]
                if sock_ok and not run.fin_pending:
                    k = fr['k']
                    if k == 'PD':
                        fl = fr['pdvs'][0]['fl']
                        mid += 1
                        if fl == 'C0':
                            m = MsgPlan(mid)
                            fb = frame('PD', pdvs=[(f_, mid, v, 1) for f_, v in m.pdvs], grey=False)
                        elif fl == 'C1':
                            m = MsgPlan(mid, nc=1, nd=1)
                            w.pending_data = (m, 1)
                            fb = frame('PD', pdvs=[(m.pdvs[0][0], mid, m.pdvs[0][1], 1)])
                        else:
                            if w.pending_data:
                                m, _ = w.pending_data
                                w.pending_data = None
                            else:
                                m = MsgPlan(mid, nc=1, nd=1)
                            fb = frame('PD', pdvs=[(m.pdvs[-1][0], m.m, m.pdvs[-1][1], 1)])
                    elif k in ('RJ', 'AB'):
                        fb = frame(k, fr['f'])
                    else:
                        fb = frame(k)
                    run.peer_send([fb])
                    sent_frames.append(len(fb[1]))
            elif act == 'MCArrive':
                n = stt['rx'] - prev['rx']
                if sock_ok and run.transit:
                    a_arrived += n
                    # abstract frames are 2 units long: an odd position is a cut inside the frame
                    whole, half = divmod(a_arrived, 2)
                    target = sum(sent_frames[:whole])
                    if half and whole < len(sent_frames):
                        target += rng.choice([1, 3, 5, 6, 7, sent_frames[whole] - 1, rng.randint(1, sent_frames[whole] - 1)])
                    if target > c_arrived:
                        got = run.arrive(target - c_arrived)
                        c_arrived += got
            elif act == 'MCPeerFin':
                if sock_ok and not run.fin_pending:
                    run.peer_fin()
            elif act == 'MCUser':
                it = stt['uq'][-1]
                if it['k'] == 'GEN':
                    kinds = [f_['k'] for f_ in it['frags']]
                    fail_at = kinds.index('BAD') if 'BAD' in kinds else None
                    n = len(it['frags']) if fail_at is None else fail_at
                    run.user_gen(list(range(fid, fid + n)), fail_at=fail_at)
                    fid += n
                elif it['k'] in ('RJ', 'AB'):
                    run.user_put(it['k'], it['f'])
                else:
                    run.user_put(it['k'])
            elif act == 'MCTick':
                run.tick(True)
            elif act == 'MCIterate':
                if run.iterate() != 'ok':
                    break
            prev = stt
        else:
            run.settle(20)
    finally:
        run.close()
    return run
