"""C19 - retrieve (C-GET / C-MOVE) performs each sub-operation exactly once, with true progress.

Spec: specs/Services.tla: C-GET user (SubRsp: every incoming C-STORE request answered exactly once on
the context it arrived on, with its message id / class / instance; GotGet: each received instance
handed to the caller once and in order; End) and C-MOVE provider (SubStore: each supplied instance sent
to the designated destination exactly once in order; RspMove: after k sub-operations remaining =
total - k and k performed; exactly one final response, also when there is nothing to move).
Binding: the real qr_get_scu and qr_move_scp on real Association objects with a scripted provider;
sub-operation counts 0..n, outcomes success / warning / failure / EventHandlingError, every
interleaving position of pending C-GET responses, message and context ids, destination known or
not, three schedules of the lazy encoding; traces validated by TLC.
"""
from __future__ import annotations

import itertools
import random
import sys

from . import tlc, svccheck as K
from .common import Verdict, main_wrapper, Machinery, seed

POLICIES = ['eager', ('lag', 1), 'blocked', 'starved']


def main(tier='quick'):
    v = Verdict('C19', tier)
    rng = random.Random(seed())
    mc = tlc.run('SendQueue', 'SendQueue_fresh.cfg', workers=4)
    if not mc.ok:
        raise Machinery('SendQueue.tla fails')
    traces, metas = [], []

    def add(tr, extra, meta):
        traces.append(tr)
        metas.append(meta)
        for k, val in extra.items():
            v.report({'site': 'sopclass.' + meta['svc'], 'clause': k}, '%s (%r)' % (val, meta), replay=meta)

    nmax = 4 if tier == 'quick' else 6
    outs = [0, 0xB000, 0xA700]
    for pol in POLICIES:
        for n in range(0, nmax + 1):
            combos = list(itertools.product(outs, repeat=n))
            if len(combos) > 30 and tier == 'quick':
                combos = rng.sample(combos, 30)
            for oc in combos:
                mid = rng.choice(K.MIDS)
                tr, extra = K.run_move_scp(rng, pol, mid, rng.choice([1, 3, 255]), n, list(oc))
                add(tr, extra, {'svc': 'qr_move_scp', 'n': n, 'outcomes': list(oc), 'policy': str(pol)})
        # nothing to move and no destination (what the default on_receive_move answers): still exactly one final response
        tr, extra = K.run_move_scp(rng, pol, rng.choice(K.MIDS), rng.choice([1, 3, 255]), 0, [], known=False)
        add(tr, extra, {'svc': 'qr_move_scp', 'n': 0, 'outcomes': [], 'policy': str(pol), 'destination': 'unknown'})
        # sub-operations announced, none supplied: still exactly one final response
        tr, extra = K.run_move_scp(rng, pol, rng.choice(K.MIDS), rng.choice([1, 3, 255]), 2, [], supplied=0)
        add(tr, extra, {'svc': 'qr_move_scp', 'n': 2, 'supplied': 0, 'outcomes': [], 'policy': str(pol)})
        # the handler signals an error / the destination refuses the association / did not accept the class of the
        # k-th instance: what was sent before was sent once and in order, and there is exactly one final response
        for fault in ('handler', 'rejected', ('refused', 0), ('refused', 1), ('refused', 2)):
            tr, extra = K.run_move_scp(rng, pol, rng.choice(K.MIDS), rng.choice([1, 3, 255]), 3, [0, 0xB000, 0], fault=fault)
            add(tr, extra, {'svc': 'qr_move_scp', 'n': 3, 'policy': str(pol), 'fault': fault})
        for n in (7, 20, 50):
            tr, extra = K.run_move_scp(rng, pol, rng.choice(K.MIDS), 1, n, [rng.choice(outs) for _ in range(n)])
            add(tr, extra, {'svc': 'qr_move_scp', 'n': n, 'policy': str(pol)})
        # C-GET user: every placement of pending responses among the C-STORE requests
        for n in range(0, nmax + 1):
            for npend in (0, 1, 2):
                slots = list(itertools.combinations(range(n + npend), npend))
                if len(slots) > 10 and tier == 'quick':
                    slots = rng.sample(slots, 10)
                for ps in slots:
                    plan = []
                    for i in range(n + npend):
                        if i in ps:
                            plan.append(('pending',))
                        else:
                            plan.append(('store', rng.choice([7, 9]), rng.choice(K.MIDS), 1))
                    oc = [rng.choice([0, 0xB000, 0xA700, 'EHE']) for _ in range(n)]
                    fin = rng.choice([0x0000, 0xB000, 0xA702, 0xFE00, 0xC000])       # the final response ends the operation whatever its class
                    tr, extra = K.run_get_scu(rng, rng.choice(K.MIDS), rng.choice([1, 3, 5]), plan, oc, pol, final=fin)
                    add(tr, extra, {'svc': 'qr_get_scu', 'plan': [p[0] for p in plan], 'outcomes': oc, 'policy': str(pol), 'final': fin})
    res, stats = tlc.validate_traces('Trace_Services', 'Trace_Services.cfg', traces, chunk=5000)
    for tr, r, meta in zip(traces, res, metas):
        if r['ok']:
            continue
        e = tr[r['reached']] if r['reached'] < len(tr) else None
        if e and 'wire' in e:
            e = {k: x for k, x in e.items() if k != 'wire'}
        v.report({'site': 'sopclass.' + meta['svc'], 'clause': 'step-' + (e['ev'] if e else 'none'),
                  'lazy': 'eager' if meta.get('policy', 'eager') == 'eager' else 'lazy'},
                 '%s: event %d %r is not allowed by Services.tla; %r' % (meta['svc'], r['reached'], e, meta), replay=meta)
    ev = {'tier': tier, 'level': 'model_checking',
          'coverage': {'states': mc.distinct, 'transitions': mc.generated, 'traces_validated_against_impl': len(traces),
                       'schedules': [str(p) for p in POLICIES], 'samples': [traces[5], traces[-1][:6]], 'exhaustive': False},
          'assumptions': ['"k performed" may be carried in the completed counter or as completed+failed+warning',
                          'an instance whose store handler raised EventHandlingError is answered with the failure status and not handed to the caller',
                          'the C-MOVE sub-association is a recording stub injected through request_association']}
    return v.finish(ev)


def replay(doc):
    return main('quick')


if __name__ == '__main__':
    main_wrapper(lambda: main(sys.argv[1] if len(sys.argv) > 1 else 'quick'))
