"""Spec -> code for the association life cycle: every terminal behaviour TLC finds in MC_AssocLife is
turned into two application programs (requesting block, accepting hook + services) and run on
substrate S3 (real application, handler and provider threads over a socketpair).  The order of the
application-level actions of the TLC behaviour is followed across the two threads where the library
lets the driver decide it (a driver-initiated action waits until the other side has logged what
precedes it in the behaviour); what the library decides (what a receive returns, when a provider
moves) is simply recorded.  The three logs (requesting thread, accepting thread, both byte streams)
are then validated against AssocLife by Trace_AssocLife - TLC infers the provider steps.
"""
from __future__ import annotations

import threading
import time

from . import tlc, realnet as R
from .common import Machinery

ae_mod, exceptions = R.applicationentity, R.exceptions
from pynetdicom2 import sopclass as sc, statuses, dimsemessages as dm  # noqa: E402

ADDR = ('life.example', 104)
REMOTE = {'aet': 'SRV', 'address': ADDR[0], 'port': ADDR[1]}
DRIVER_ACTIONS = {'RqRequest', 'RqSend', 'RqWait', 'RqAbort', 'RqExitNormal', 'RqExitError',
                  'AcRefuse', 'AcAccept', 'AcRespond', 'AcReturn', 'AcAbort', 'AcRelease'}


class UserError(Exception):
    pass


class _Leave(Exception):
    """Raised by the driver to leave the block after the application aborted the association itself."""


def scripts(module='MC_AssocLife', cfg='MC_AssocLife_1.cfg', workers=16):
    """All terminal behaviours of the model (TLC, exhaustive, deadlock and liveness checked).
    Returns (TLC result, list of dicts with 'script')."""
    r = tlc.run(module, cfg, workers=workers, deadlock_off=False, timeout=3000)
    if not r.ok:
        raise Machinery('AssocLife fails TLC (%s/%s): %s %s' % (module, cfg, r.violated, r.errors[:2]))
    vals = [v for v in tlc.printed_values(r.out) if isinstance(v, dict) and 'script' in v]
    if not vals:
        raise Machinery('%s printed no terminal behaviour' % module)
    return r, vals


def projections(vals):
    """Group behaviours by what each application does (the pair of per-thread programs); keep the first, the last and
    a middle interleaving of each group."""
    groups = {}
    for v in vals:
        s = v['script']
        key = (tuple(a for a in s if a.startswith('Rq')), tuple(a for a in s if a.startswith('Ac')))
        groups.setdefault(key, []).append(s)
    for ss in groups.values():
        ss.sort()
    return groups


class Sync(object):
    def __init__(self, script, ordered=True):
        self.script = script
        self.ordered = ordered
        self.cv = threading.Condition()
        self.log = {'Rq': [], 'Ac': []}
        self.cursor = {'Rq': 0, 'Ac': 0}         # how many of this side's script actions have been consumed
        self.pos = {'Rq': [k for k, a in enumerate(script) if a.startswith('Rq')],
                    'Ac': [k for k, a in enumerate(script) if a.startswith('Ac')]}

    def emit(self, side, ev, **kw):
        rec = dict(ev=ev, **kw)
        with self.cv:
            self.log[side].append(rec)
            self.cv.notify_all()

    def before(self, side, name, patience=0.6):
        """Called by a driver-initiated action `name` of `side`: find its position in the behaviour and wait until
        the other side has logged everything that precedes it there (bounded: the library may order things otherwise)."""
        other = 'Ac' if side == 'Rq' else 'Rq'
        if not self.ordered:
            return
        with self.cv:
            c = self.cursor[side]
            p = None
            while c < len(self.pos[side]):
                p = self.pos[side][c]
                c += 1
                if self.script[p] == name:
                    break
                p = None
            self.cursor[side] = c
            if p is None:
                return
            need = sum(1 for a in self.script[:p] if a.startswith(other))
            end = time.time() + patience
            while len(self.log[other]) < need:
                left = end - time.time()
                if left <= 0:
                    break
                self.cv.wait(left)
            settle = need > 0 and p > 0 and self.script[p - 1].startswith(other)
        if settle:
            time.sleep(0.12)          # let the providers carry what the other side just did across (two polling periods)


def ac_segments(script):
    """What the accepting side does inside each service invocation: the actions between two AcRecv."""
    segs, cur = [], None
    for a in script:
        if not a.startswith('Ac'):
            continue
        if a == 'AcRecv':
            if cur:
                segs.append(cur)
            cur = []
        elif cur is not None and a in ('AcRespond', 'AcReturn', 'AcAbort', 'AcRelease'):
            cur.append(a)
    if cur:
        segs.append(cur)
    return [s for s in segs if s]


def run_script(script, triple=(1, 2, 3), rq_reason=5, ac_reason=5, timeout=3, ordered=True, in_handler=False):
    """One real association driven along `script`.  Returns the observation record for Trace_AssocLife."""
    sync = Sync(script, ordered)
    segs = ac_segments(script)
    state = {'svc': 0}

    class Server(ae_mod.AE):
        def __init__(self):
            super(Server, self).__init__('SRV', 0, max_pdu_length=4096, bind_and_activate=False)
            self.timeout = timeout

        def on_association_request(self, asce, assoc):
            if 'AcRefuse' in script:
                sync.before('Ac', 'AcRefuse')
                sync.emit('Ac', 'AcRefuse', f=list(triple))
                raise exceptions.AssociationRejectedError(*triple)
            sync.before('Ac', 'AcAccept')
            sync.emit('Ac', 'AcAccept')

    srv = Server()

    def service(asce, ctx, msg):
        k = state['svc']
        state['svc'] += 1
        seg = segs[k] if k < len(segs) else ['AcRespond', 'AcReturn']
        for a in seg:
            if a == 'AcRespond':
                rsp = dm.CEchoRSPMessage()
                rsp.message_id_being_responded_to = msg.message_id
                rsp.sop_class_uid = msg.sop_class_uid
                rsp.status = 0
                sync.before('Ac', a)
                asce.send(rsp, ctx.id)
                sync.emit('Ac', a)
            elif a == 'AcReturn':
                sync.before('Ac', a)
                sync.emit('Ac', a)
                return
            elif a == 'AcAbort':
                sync.before('Ac', a)
                asce.abort(ac_reason)
                sync.emit('Ac', a, r=ac_reason)        # logged once the A-ABORT has left and the provider is stopped
                return
            elif a == 'AcRelease':
                sync.before('Ac', a)
                sync.emit('Ac', a)
                try:
                    asce.release()
                except exceptions.DCMTimeoutError:
                    sync.emit('Ac', 'AcTimeout')
                    raise
                sync.emit('Ac', 'AcRelDone')
                return
    service.sop_classes = [sc.VERIFICATION_SOP_CLASS]
    srv.add_scp(service)

    real_receive = R.asceprovider.Association.receive

    def receive(self):
        if not isinstance(self, R.asceprovider.AssociationAcceptor):
            return real_receive(self)
        try:
            res = real_receive(self)
        except exceptions.AssociationAbortedError as e:
            sync.emit('Ac', 'AcRecv', res='AB', f=[e.source, e.reason_diag])
            raise
        except exceptions.AssociationReleasedError:
            sync.emit('Ac', 'AcRecv', res='RLRQ', f=[])
            raise
        except exceptions.DCMTimeoutError:
            sync.emit('Ac', 'AcTimeout')
            raise
        sync.emit('Ac', 'AcRecv', res='PD', f=[])
        return res

    cl = ae_mod.ClientAE('CL', max_pdu_length=4096).add_scu(sc.verification_scu)
    cl.timeout = timeout
    obs = {'script': list(script), 'ordered': ordered, 'in_handler': in_handler, 'values': {'triple': list(triple), 'rq_reason': rq_reason, 'ac_reason': ac_reason},
           'rqErr': {'type': 'none', 'f': []}, 'entered': False}
    rq_prog = [a for a in script if a.startswith('Rq')]
    R.asceprovider.Association.receive = receive
    try:
        with R.Net() as net:
            net.register(ADDR, srv)
            mid = [0]
            def rq_flow():
                try:
                    sync.before('Rq', 'RqRequest')
                    sync.emit('Rq', 'RqRequest')
                    try:
                        cm = cl.request_association(REMOTE)
                        assoc = cm.__enter__()
                    except exceptions.AssociationRejectedError as e:
                        sync.emit('Rq', 'RqAssocInd', res='RJ', f=[e.result, e.source, e.diagnostic])
                        raise
                    except exceptions.AssociationAbortedError as e:
                        sync.emit('Rq', 'RqAssocInd', res='AB', f=[e.source, e.reason_diag])
                        raise
                    except exceptions.DCMTimeoutError:
                        sync.emit('Rq', 'RqTimeout')
                        raise
                    sync.emit('Rq', 'RqAssocInd', res='AC', f=[])
                    obs['entered'] = True
                    try:
                        pcid = assoc.sop_classes_as_scu[sc.VERIFICATION_SOP_CLASS][0]
                        for a in rq_prog[1:]:
                            if a == 'RqSend':
                                mid[0] += 1
                                msg = dm.CEchoRQMessage()
                                msg.message_id = mid[0]
                                msg.sop_class_uid = sc.VERIFICATION_SOP_CLASS
                                sync.before('Rq', a)
                                assoc.send(msg, pcid)
                                sync.emit('Rq', a)
                            elif a == 'RqWait':
                                sync.before('Rq', a)
                                sync.emit('Rq', a)
                                try:
                                    assoc.receive()
                                except exceptions.AssociationAbortedError as e:
                                    sync.emit('Rq', 'RqRecv', res='AB', f=[e.source, e.reason_diag])
                                    raise
                                except exceptions.AssociationReleasedError:
                                    sync.emit('Rq', 'RqRecv', res='RLRQ', f=[])
                                    raise
                                except exceptions.DCMTimeoutError:
                                    sync.emit('Rq', 'RqTimeout')
                                    raise
                                sync.emit('Rq', 'RqRecv', res='PD', f=[])
                            elif a == 'RqAbort':
                                sync.before('Rq', a)
                                assoc.abort(rq_reason)
                                sync.emit('Rq', a, r=rq_reason)
                                raise _Leave()
                            elif a == 'RqExitNormal':
                                sync.before('Rq', a)
                                sync.emit('Rq', a)
                                break
                            elif a == 'RqExitError':
                                sync.before('Rq', a)
                                sync.emit('Rq', a)
                                raise UserError('application failure')
                        else:
                            sync.emit('Rq', 'RqExitNormal')       # the program ran out (the library decided otherwise than
                                                                  # the behaviour followed): the block simply ends here
                    except BaseException as exc:
                        if not cm.__exit__(type(exc), exc, exc.__traceback__):
                            raise
                    else:
                        try:
                            cm.__exit__(None, None, None)
                        except exceptions.DCMTimeoutError:
                            sync.emit('Rq', 'RqTimeout')          # release() gave up waiting
                            raise
                        sync.emit('Rq', 'RqRelDone')
                except _Leave:
                    pass
                except exceptions.AssociationRejectedError as e:
                    obs['rqErr'] = {'type': 'AssociationRejectedError', 'f': [e.result, e.source, e.diagnostic]}
                except exceptions.AssociationAbortedError as e:
                    obs['rqErr'] = {'type': 'AssociationAbortedError', 'f': [e.source, e.reason_diag]}
                except exceptions.AssociationReleasedError:
                    obs['rqErr'] = {'type': 'AssociationReleasedError', 'f': []}
                except UserError:
                    obs['rqErr'] = {'type': 'UserError', 'f': []}
                except exceptions.DCMTimeoutError:
                    obs['rqErr'] = {'type': 'DCMTimeoutError', 'f': []}
                except Exception as e:          # noqa
                    obs['rqErr'] = {'type': type(e).__name__, 'f': []}
            if in_handler:
                # the application opens and uses the association while it is handling an unrelated exception of its own
                try:
                    raise KeyError('an unrelated error the application is dealing with')
                except KeyError:
                    rq_flow()
            else:
                rq_flow()
            finished = net.wait_all(20)
            link = net.links[0] if net.links else {'log': []}
            obs['r2a'] = _wire(link, 'R')
            obs['a2r'] = _wire(link, 'A')
    finally:
        R.asceprovider.Association.receive = real_receive
    obs['rq'] = sync.log['Rq']
    obs['ac'] = sync.log['Ac']
    obs['svc'] = state['svc']
    obs['handler_finished'] = bool(finished)
    return obs


def _wire(link, side):
    out = []
    for d in R.pdus_of(link['log'], side):
        k = d['k']
        f = []
        if k == 'RJ':
            f = [d['result'], d['source'], d['reason']]
        elif k == 'AB':
            f = [d['source'], d['reason']]
        out.append({'k': k, 'f': f})
    return out


def validate(cases):
    """Trace_AssocLife on a list of observation records.  Returns list of (ok, failing clauses / progress)."""
    payload = [{'rq': c['rq'], 'ac': c['ac'], 'r2a': c['r2a'], 'a2r': c['a2r'], 'svc': c['svc'],
                'entered': c['entered'], 'rqErr': c['rqErr']} for c in cases]
    res, stats = tlc.validate_traces('Trace_AssocLife', 'Trace_AssocLife.cfg', [[p] for p in payload], chunk=400, dfs=False)
    out = []
    for c, r in zip(cases, res):
        total = len(c['rq']) + len(c['ac']) + 1
        ok = r['reached'] == total and not r['bad_inv']
        out.append((ok, r['bad_inv'] or [], r['reached'], total))
    return out, stats


def _job(args):
    script, kw = args
    try:
        return run_script(script, **kw)
    except Exception as exc:      # noqa
        return {'harness_error': '%s: %s' % (type(exc).__name__, exc), 'script': list(script)}


def run_many(jobs, procs=8):
    """jobs: list of (script, kwargs).  Each association runs in a worker process (module-level shims are per process)."""
    import multiprocessing
    with multiprocessing.Pool(processes=procs) as pool:
        out = pool.map(_job, jobs, chunksize=1)
    for o in out:
        if 'harness_error' in o:
            raise Machinery('life-cycle driver failed on %s: %s' % (o['script'], o['harness_error']))
    return out


def plan(tier, rng):
    """Scripts to drive: (TLC results, jobs).  quick: every behaviour class of the model with one request (first / middle
    / last interleaving of each pair of programs, order followed) + every pair of programs with two requests (free
    running).  thorough: the two-request model with up to 6 interleavings per pair of programs."""
    std = [(r, s, d) for r in (1, 2) for s in (1, 2, 3) for d in (1, 2, 3, 7)]
    triples = std + [(0, 0, 0), (255, 255, 255)] + [(rng.randint(0, 255), rng.randint(0, 255), rng.randint(0, 255)) for _ in range(6 if tier == 'quick' else 80)]
    reasons = [0, 1, 2, 6, 255] + [rng.randint(0, 255) for _ in range(20)]
    mcs, jobs = [], []

    def values():
        return {'triple': rng.choice(triples), 'rq_reason': rng.choice(reasons), 'ac_reason': rng.choice(reasons)}
    if tier == 'quick':
        r1, v1 = scripts('MC_AssocLife', 'MC_AssocLife_1.cfg')
        r2, v2 = scripts('MC_AssocLifeP', 'MC_AssocLifeP.cfg')
        mcs = [('MC_AssocLife_1.cfg', r1, len(v1)), ('MC_AssocLifeP.cfg', r2, len(v2))]
        for key, ss in sorted(projections(v1).items()):
            for s in sorted({tuple(ss[0]), tuple(ss[-1]), tuple(ss[len(ss) // 2])}):
                jobs.append((list(s), values()))
        for key, ss in sorted(projections(v2).items()):
            jobs.append((list(ss[0]), dict(values(), ordered=False)))
        # two requests with the order followed: interleavings sampled by TLC's simulator from the same model
        rs = tlc.run('MC_AssocLife', 'MC_AssocLife_sim.cfg', workers=8, simulate='num=6000', depth=60, deadlock_off=True, timeout=600, seed=rng.randint(1, 10 ** 6))
        if not rs.ok:
            raise Machinery('simulation of AssocLife failed: %s %s' % (rs.violated, rs.errors[:2]))
        sim = {tuple(v['script']) for v in tlc.printed_values(rs.out) if isinstance(v, dict) and 'script' in v}
        known = {tuple(j[0]) for j in jobs}

        def late(sc):       # one side ends the association and the other still acts afterwards: the interesting orders
            for k, a in enumerate(sc):
                if a in ('AcAbort', 'AcRelease', 'RqAbort', 'RqExitError', 'RqExitNormal'):
                    return sum(1 for b in sc[k + 1:] if b[:2] != a[:2] and b in DRIVER_ACTIONS)
            return 0
        for key, ss in sorted(projections([{'script': list(x)} for x in sim if x not in known]).items()):
            ss.sort(key=lambda sc: (-late(sc), sc))
            for sc in ss[:2]:
                jobs.append((list(sc), values()))
        mcs.append(('MC_AssocLife_sim.cfg (simulation)', rs, len(sim)))
    else:
        r1, v1 = scripts('MC_AssocLife', 'MC_AssocLife.cfg')
        mcs = [('MC_AssocLife.cfg', r1, len(v1))]
        for key, ss in sorted(projections(v1).items()):
            picks = {tuple(ss[0]), tuple(ss[-1])} | {tuple(ss[rng.randrange(len(ss))]) for _ in range(4)}
            for s in sorted(picks):
                jobs.append((list(s), values()))
            jobs.append((list(ss[0]), dict(values(), ordered=False)))
    for k, (sc_, kw) in enumerate(jobs):
        if k % 3 == 1:
            kw['in_handler'] = True
    # refusal: every triple of the value classes
    refuse = [s for s, _ in jobs if 'AcRefuse' in s][0]
    for t in triples:
        jobs.append((refuse, {'triple': t}))
    return mcs, jobs


def explain(case, res):
    """(key, text) for a rejected observation."""
    ok, inv, reached, total = res
    rq, ac = case['rq'], case['ac']
    if inv:
        clause = inv[0]
    else:
        clause = 'no-behaviour-of-the-specification-explains-the-observation'
    txt = ('%s (matched %d of %d): requesting thread %s | accepting thread %s | requestor wrote %s | acceptor wrote %s | error leaving the block %s | services %d'
           % (', '.join(inv) if inv else clause, reached, total,
              [(e['ev'], e.get('res'), e.get('f'), e.get('r')) for e in rq], [(e['ev'], e.get('res'), e.get('f'), e.get('r')) for e in ac],
              [(x['k'], x['f']) for x in case['r2a']], [(x['k'], x['f']) for x in case['a2r']], case['rqErr'], case['svc']))
    kinds = [a for a in case['script'] if a in ('AcRefuse', 'RqAbort', 'AcAbort', 'AcRelease', 'RqExitNormal', 'RqExitError')]
    return {'site': 'asceprovider', 'clause': clause, 'scn': '+'.join(kinds)}, txt
