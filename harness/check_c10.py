"""C10 - the negotiated maximum PDU length is honoured in both directions, including 0 (no limit).

Spec: specs/Negotiation.tla MaxLenClauses (announce no more than configured unless unlimited; never
send a P-DATA-TF longer than the peer announced, 0 restricting nothing; remain able to send messages
of any size) with 32-bit values as limbs; Dimse.tla SizeBound / progress (MC_Dimse: SenderNeverStuck).
Binding: for every pair of the boundary grid x both roles the real negotiation code runs on a
recording provider (acceptor: the whole handler; requester: _request with a scripted reply), then
Association.send with messages smaller than, equal to and several times the fragment size; TLC judges
the announced value and every P-DATA-TF length (Trace_Negotiation), and the fragment sequences are
validated against the Dimse sender with max := the peer's announcement (Trace_Dimse).
"""
from __future__ import annotations

import random
import sys

from . import tlc, neglib as N, dimselib as D
from .common import Verdict, main_wrapper, Machinery, seed

GRID = [0, 7, 8, 127, 128, 1024, 16384, 65536, 2 ** 31, 2 ** 32 - 1]
EXTRA = [9, 100, 4096, 65535, 65537, 2 ** 31 - 1, 2 ** 31 + 1, 2 ** 32 - 2]


def sizes_for(limit):
    """Data lengths smaller than, equal to and several times the fragment payload (capped)."""
    if limit == 0 or limit - 6 > 60000:
        return [0, 1, 1000, 70000]
    f = max(limit - 6, 1)
    return sorted({0, 1, max(f - 1, 1), f, f + 1, 3 * f + 1, 5 * f})


def effective(a, b):
    vals = [x for x in (a, b) if x]
    return min(vals) if vals else 0


def acceptor_case(own, peer, rng, user_first=False):
    cfg = {'served': [N.AS_UID['S2']], 'supported': [N.TS_UID['T1']]}
    rq = {'called': 'SCP', 'calling': 'SCU', 'appctx': N.APP_CTX, 'ctxs': [{'id': 1, 'as': N.AS_UID['S2'], 'ts': [N.TS_UID['T1']]}]}
    ans, acc, ann, notes = N.run_accept(cfg, rq, own_max=own, peer_max=peer, user_first=user_first, probe=[])
    acc.dul = D.RecordingDul(own if own else 1 << 20)
    lens, delivered, err = N.send_after_negotiation(acc, sizes_for(effective(own, peer)), rng)
    return ann, lens, delivered, err


def requester_case(own, peer, rng, entity_max=None):
    """entity_max: the requesting entity is configured with another maximum than the one this association is created
    with (AssociationRequester(ae, max_pdu_length, remote) is public): the association's own value is what counts."""
    ae = N.applicationentity.ClientAE('SCU', supported_ts=[N.TS_UID['T1']], max_pdu_length=own if entity_max is None else entity_max)
    ae.add_scu(N.Recorder([N.AS_UID['S2']]))
    remote = {'aet': 'SCP', 'address': 'peer', 'port': 104}
    reply = N.pdu.AAssociateAcPDU.decode(N.ac_bytes('SCP', 'SCU', [{'id': 1, 'res': 0, 'ts': N.TS_UID['T1']}], peer))
    r = N.bare_requester(ae, own, remote, [reply])
    r._request(ae.local_ae, remote, users_pdu=[])
    rq, _ = N.project_rq(r.dul.sent[0][0])
    ann = (rq['max'][0] << 16) | rq['max'][1]
    r.dul.sent = []
    lens, delivered, err = N.send_after_negotiation(r, sizes_for(effective(own, peer)), rng)
    return ann, lens, delivered, err


def main(tier='quick'):
    v = Verdict('C10', tier)
    rng = random.Random(seed())
    mc = tlc.run('MC_Dimse', 'MC_Dimse.cfg', workers=1, timeout=3000)
    if not mc.ok:
        raise Machinery('Dimse.tla fails TLC: %s %s' % (mc.violated, mc.errors[:2]))
    grid = GRID + (EXTRA if tier == 'thorough' else [])
    cases, metas = [], []
    for own in grid:
        for peer in grid:
            for role in ('acceptor', 'requester', 'acceptor-maxlen-not-first', 'requester-own-maximum'):
                meta = {'role': role, 'configured': own, 'peer_announced': peer}
                try:
                    if role == 'requester':
                        ann, lens, delivered, err = requester_case(own, peer, rng)
                    elif role == 'requester-own-maximum':
                        meta['entity_configured'] = 65536 if own != 65536 else 1024
                        ann, lens, delivered, err = requester_case(own, peer, rng, entity_max=meta['entity_configured'])
                    else:
                        ann, lens, delivered, err = acceptor_case(own, peer, rng, user_first=(role != 'acceptor'))
                except Exception as exc:      # noqa
                    v.report({'site': 'asceprovider', 'clause': 'negotiation-raised', 'role': role, 'exc': type(exc).__name__},
                             'negotiation raised %s: %s for %r' % (type(exc).__name__, exc, meta), replay=meta)
                    continue
                meta['announced'] = ann
                meta['error'] = err
                cases.append({'kind': 'maxlen', 'own': N.limbs(own), 'ann': N.limbs(ann if ann is not None else 0), 'peer': N.limbs(peer),
                              'pdulens': lens, 'delivered': bool(delivered and not err)})
                metas.append(meta)
    # a peer announcing 1..6: no fragment fits (6 bytes of PDV header come first), so nothing can be delivered - but
    # neither may anything LONGER than announced leave (first half of the statement); judged by the same clause
    import io
    from . import dimselib as D_
    for peer in range(1, 7):
        for source in ('bytes', 'file', 'no-data-set'):
            msg = D_.dm.CStoreRQMessage()
            msg.message_id, msg.sop_class_uid, msg.affected_sop_instance_uid, msg.priority = 1, '1.2.840.10008.5.1.4.1.1.2', '1.2.3.4', 0
            if source != 'no-data-set':
                msg.data_set = bytes(range(200)) * 5 if source == 'bytes' else io.BytesIO(bytes(range(200)) * 5)
            msg.set_length()
            lens = []
            try:
                for p_ in msg.encode(1, peer):
                    lens.append(len(p_.encode()) - 6)
            except Exception:      # noqa - refusing to fragment is the expected outcome
                pass
            cases.append({'kind': 'maxlen', 'own': N.limbs(16384), 'ann': N.limbs(16384), 'peer': N.limbs(peer),
                          'pdulens': [[n_ >> 16, n_ & 0xFFFF] for n_ in lens], 'delivered': True})
            metas.append({'role': 'sender-below-the-minimum', 'configured': 16384, 'peer_announced': peer, 'announced': 16384, 'error': None, 'source': source})
    res, stats = tlc.validate_traces('Trace_Negotiation', 'Trace_Negotiation.cfg', [[c] for c in cases], chunk=20000)
    for meta, c, r in zip(metas, cases, res):
        if r['reached'] != 1:
            raise Machinery('case not judged')
        for clause in (r['bad_inv'] or []):
            v.report({'site': 'asceprovider', 'clause': clause, 'role': meta['role'].split('-')[0],
                      'zero': 'peer0' if meta['peer_announced'] == 0 else ('own0' if meta['configured'] == 0 else 'nonzero')},
                     '%s: %r (P-DATA lengths sent: %s)' % (clause, meta, [(h << 16) | l for h, l in c['pdulens']][:8]), replay=meta)
    ev = {'tier': tier, 'level': 'model_checking',
          'coverage': {'states': mc.distinct, 'transitions': mc.generated, 'traces_validated_against_impl': len(cases),
                       'grid': grid, 'roles': ['acceptor', 'requester', 'acceptor with the maximum-length sub-item not first'],
                       'pdata_pdus_measured': sum(len(c['pdulens']) for c in cases),
                       'samples': [{'case': metas[i], 'judged': cases[i]} for i in (3, len(cases) // 2)], 'exhaustive': True},
          'assumptions': ['grid of boundary values, exhaustive over pairs', 'message sizes capped at 70000 bytes for very large limits',
                          'announced values 1..6 are outside the grid: a P-DATA-TF PDU needs 6 bytes of PDV header before the first byte of a fragment, so no implementation can send anything under such a maximum (what the provider does then - an orderly abort - is decided under C12, finding F27)']}
    return v.finish(ev)


def replay(doc):
    meta = doc['replay']
    rng = random.Random(0)
    if meta['role'].startswith('requester'):
        ann, lens, delivered, err = requester_case(meta['configured'], meta['peer_announced'], rng, entity_max=meta.get('entity_configured'))
    else:
        ann, lens, delivered, err = acceptor_case(meta['configured'], meta['peer_announced'], rng, meta['role'] != 'acceptor')
    c = {'kind': 'maxlen', 'own': N.limbs(meta['configured']), 'ann': N.limbs(ann or 0), 'peer': N.limbs(meta['peer_announced']),
         'pdulens': lens, 'delivered': bool(delivered and not err)}
    res, _ = tlc.validate_traces('Trace_Negotiation', 'Trace_Negotiation.cfg', [[c]])
    print('TLC verdict: %r (announced %r, error %r)' % (res[0]['bad_inv'], ann, err))
    return 1 if res[0]['bad_inv'] else 0


if __name__ == '__main__':
    main_wrapper(lambda: main(sys.argv[1] if len(sys.argv) > 1 else 'quick'))
