"""C05 - the provider as a whole equals the PS3.8 protocol machine over every event history.

1. TLC checks specs/MC_ULProvider (ULProvider + ULFsm closed by a budgeted peer, network, user and
   clock) exhaustively for both roles: ArtimExactly, IdleImpliesClosed, PairedSlot, ToldGone,
   PDataOnlyWhenEstablished, NoIndicationAfterEnd, and the leads-to properties under fairness.
2. code -> spec: seeded random walks over the environment alphabet drive the REAL provider loop
   (substrate S1); every recorded execution is validated by TLC against Trace_ULProvider, with
   every invariant evaluated at every step.
3. spec -> code: behaviours simulated by TLC from MC_ULProvider are replayed as drivers into the
   real provider; the executions they provoke are validated the same way.
"""
from __future__ import annotations

import sys

from . import tlc, uldrive, ulcorpus, ulcheck
from .common import Verdict, main_wrapper, Machinery, seed


def model_check(tier):
    out = []
    for cfg in ('MC_ULProvider_acc.cfg', 'MC_ULProvider_req.cfg') if tier == 'quick' else \
            ('MC_ULProvider_acc3.cfg', 'MC_ULProvider_req3.cfg'):
        r = tlc.run('MC_ULProvider', cfg, workers=16, timeout=3000, coverage=False)
        if not r.ok:
            raise Machinery('the specification itself fails TLC (%s): %s %s' % (cfg, r.violated, r.errors[:2]))
        out.append((cfg, r))
    return out


def connect_refused(v):
    """Transport connection that can not be opened (F43): ULFsm.tla's cells (Evt1, Sta1) -> AE-1 -> Sta4 and
    (Evt17, Sta4) -> AA-4 (A-P-ABORT indication) -> Sta1 on the real provider loop, with a transport whose connect()
    is refused.  The simulated sockets of the walks / behaviours always connect; this is the one history they lack."""
    from . import simnet, ulrun
    from pynetdicom2 import fsm as F
    with simnet.Env() as env:
        real_factory = F.socket.socket

        def refusing(*a, **k):
            s = real_factory(*a, **k)

            def connect(addr):
                raise OSError(111, 'Connection refused')
            s.connect = connect
            return s
        F.socket.socket = refusing
        p = simnet.Stepped()
        p.send(ulrun.user_pdu('RQ'))
        inds, died = [], None
        for _ in range(6):
            died = p.step()
            if died is not None:
                break
            inds += p.drain_user()
        cells = [(int(e) + 1, int(st) + 1) for e, st in p.actions]
        state = int(p.state_machine.current_state) + 1
        told = [type(i).__name__ for i in inds]
        ok = (died is None and cells == [(1, 1), (17, 4)] and state == 1 and told == ['AAbortPDU'] and p.dul_socket is None
              and getattr(inds[0], 'source', None) == 0 and all(s.closed for s in env.sockets))
        if not ok:
            v.report({'site': 'fsm.ae_1 / dulprovider.run', 'clause': 'refused-transport-connection-is-Evt17-in-Sta4'},
                     'transport connect refused: cells taken %s (ULFsm: [(1, 1), (17, 4)] = AE-1, AA-4), state Sta%d (Sta1), '
                     'user told %s (one A-P-ABORT indication), socket %s, loop died with %r' % (
                         cells, state, told, 'dropped' if p.dul_socket is None else 'kept', died),
                     replay={'recipe': {'kind': 'connect_refused'}})
    return 1


def main(tier='quick'):
    v = Verdict('C05', tier)
    n_refused = connect_refused(v)
    sd = seed()
    mc = model_check(tier)
    n_walk, n_sim, steps = (400, 150, 70) if tier == 'quick' else (6000, 1500, 120)
    runs, recipes = [], []
    for i in range(n_walk):
        s = sd * 1000003 + i
        req = bool(i % 2)
        runs.append(uldrive.random_walk(s, req, steps))
        recipes.append({'kind': 'walk', 'seed': s, 'req': req, 'steps': steps})
    for cfg, req in (('Sim_ULProvider_acc.cfg', False), ('Sim_ULProvider_req.cfg', True)):
        behs, _ = tlc.simulate_behaviours('MC_ULProvider', cfg, n_sim, 45, seed=sd + 1)
        for j, b in enumerate(behs):
            runs.append(uldrive.replay_behaviour(b, sd + j))
            recipes.append({'kind': 'sim', 'cfg': cfg, 'tlc_seed': sd + 1, 'index': j, 'num': n_sim,
                            'actions': [a for a, _ in b]})
    for req, corp in ((False, ulcorpus.ACCEPTOR), (True, ulcorpus.REQUESTOR)):
        for name, sc in corp.items():
            for waiting in (False, True):
                p = ulcorpus.play(sc, req, waiting=waiting)
                runs.append(p.run)
                recipes.append({'kind': 'corpus', 'req': req, 'name': name, 'waiting': waiting})
    stats = ulcheck.validate(v, runs, recipes)
    cells = stats.pop('cells')
    ev = {
        'tier': tier, 'level': 'model_checking',
        'coverage': {
            'states': sum(r.distinct for _, r in mc), 'transitions': sum(r.generated for _, r in mc),
            'traces_validated_against_impl': stats['traces'],
            'trace_events_validated': stats['events'], 'trace_validation_states': stats['states'],
            'rejected_traces': stats['rejected'], 'refused_transport_connect_histories': n_refused,
            'random_walks': n_walk, 'tlc_behaviours_replayed': len(runs) - n_walk - 34,
            'table_cells_exercised_on_impl': len(cells),
            'cells': sorted('Evt%d@Sta%d' % c for c in cells),
            'model_checking': {cfg: r.summary() for cfg, r in mc},
            'samples': [{'recipe': recipes[0], 'trace_head': ulcheck.sample_trace(runs[0])},
                        {'recipe': recipes[n_walk], 'trace_head': ulcheck.sample_trace(runs[n_walk])}],
            'exhaustive': False,
        },
        'assumptions': ['simulated socket / clock / select (harness/simnet.py) stand for TCP and time',
                        'ULFsm.tla is a faithful transcription of PS3.8 Table 9-10',
                        'named deviations DEV-PDATA-IND-PER-MESSAGE, DEV-AE6-ALWAYS-ACCEPT, DEV-STA13-DISCARD are accepted'],
    }
    return v.finish(ev)


def replay(doc):
    rec = doc['replay']['recipe']
    v = Verdict('C05', 'quick')
    if rec['kind'] == 'connect_refused':
        connect_refused(v)
        for x in v.violations:
            print('REPRODUCED: ' + x['what'])
        return 1 if v.violations else 0
    if rec['kind'] == 'walk':
        run = uldrive.random_walk(rec['seed'], rec['req'], rec['steps'])
    elif rec['kind'] == 'corpus':
        corp = ulcorpus.REQUESTOR if rec['req'] else ulcorpus.ACCEPTOR
        run = ulcorpus.play(corp[rec['name']], rec['req'], waiting=rec['waiting']).run
    else:
        behs, _ = tlc.simulate_behaviours('MC_ULProvider', rec['cfg'], rec['num'], 45, seed=rec['tlc_seed'])
        run = uldrive.replay_behaviour(behs[rec['index']], rec['tlc_seed'] - 1 + rec['index'])
    stats = ulcheck.validate(v, [run], [rec])
    for x in v.violations:
        print('REPRODUCED: ' + x['what'])
    return 1 if v.violations else 0


if __name__ == '__main__':
    main_wrapper(lambda: main(sys.argv[1] if len(sys.argv) > 1 else 'quick'))
