"""C12 - no byte sequence from the peer can crash or hang the provider.

Spec: ULProvider with the fault vocabulary (grey = framed but possibly undecodable content, UNK =
unknown type, truncated = a frame that never completes); the allowed reactions to a grey PDU are
its type's event or Evt19, and for a grey P-DATA additionally the AA-8 reaction from inside
DT-2/AR-6; after the peer closes, Home is required.  MC_ULProvider with Faults=TRUE is checked by
TLC (same safety and liveness properties).
Binding (S1): every peer PDU of every corpus conversation (i.e. every protocol state in which the
provider can be) is replaced by each structure-aware mutant (harness/mutate.py), followed by the
peer closing; the recorded execution is validated by TLC.  A dead loop (Died), a blocking call
(Hang) or a malformed PDU on the wire cannot be matched by any specification step.
"""
from __future__ import annotations

import random
import sys

from . import tlc, ulcorpus, ulcheck, mutate
from .check_c13 import finish
from .common import Verdict, main_wrapper, Machinery, seed


def ops_upto_pdu(sc, j):
    """Prefix of the script that ends with the 'P' op containing peer PDU number j."""
    ids = {'m': 0}
    count = 0
    for i, op in enumerate(sc):
        if op[0] == 'P':
            for spec in op[1]:
                count += len(ulcorpus.mk(spec, ids))
            if count > j:
                return sc[:i + 1]
    return sc


def peer_pdus(sc):
    ids = {'m': 0}
    out = []
    for op in sc:
        if op[0] == 'P':
            for spec in op[1]:
                out.extend(ulcorpus.mk(spec, ids))
    return out


def run_one(sc, req, j, name, mutated, orig_rec, orig, ending='FIN', local_max=65536, lazy_user=False, echo=False):
    def fn(rec, b):
        return mutate.reframe(orig_rec, orig, mutated)
    ops = ops_upto_pdu(sc, j)
    if echo:
        ops = ops + [('UACCEPT',) if echo == 'accept' else ('UECHO',)]      # the local user answers the (mutated) request it was indicated
    if ending == 'DEAF':
        # the peer is gone for writing by the time its last bytes are handled: the provider's answer cannot be written
        ops = ops[:-1] + [('DEAF',), ops[-1], ('FIN',)]
    else:
        ops = ops + [(ending,)]
    p = ulcorpus.play(ops, req, mutate=(j, fn), local_max=local_max, lazy_user=lazy_user)
    finish(p)
    return p


def main(tier='quick'):
    v = Verdict('C12', tier)
    sd = seed()
    mcs = []
    # quick: safety with the fault vocabulary (liveness with faults is part of the thorough tier)
    for cfg in (('MC_ULProvider_accF_safe.cfg', 'MC_ULProvider_reqF_safe.cfg') if tier == 'quick' else ('MC_ULProvider_accF.cfg', 'MC_ULProvider_reqF.cfg')):
        r = tlc.run('MC_ULProvider', cfg, workers=16, timeout=3000)
        if not r.ok:
            raise Machinery('the specification with faults fails TLC (%s): %s %s' % (cfg, r.violated, r.errors[:2]))
        mcs.append((cfg, r))
    runs, recipes = [], []
    by_state = {}
    reps = 1 if tier == 'quick' else 6
    for req, corp in ((False, ulcorpus.ACCEPTOR), (True, ulcorpus.REQUESTOR)):
        for name, sc in sorted(corp.items()):
            pdus = peer_pdus(sc)
            for j, (rec, b) in enumerate(pdus):
                for rep in range(reps):
                    rng = random.Random('%s-%s-%s-%d-%d' % (sd, req, name, j, rep))
                    for mname, mb in mutate.mutators(b, rng):
                        if rep and not (mname.startswith('bitflip') or mname.startswith('random') or mname == 'cmd-garbage'):
                            continue
                        if mname.startswith('ui-add-') and name not in ('echo', 'find') and tier == 'quick' and rng.random() > 0.2:
                            continue          # the sub-item variants: all of them where the user echoes them, a sample elsewhere
                        n_mut = len(runs)
                        # every fourth ending is a connection reset, every fourth a peer that no longer receives
                        ending = 'RESET' if n_mut % 4 == 3 else ('DEAF' if n_mut % 4 == 1 else 'FIN')
                        p = run_one(sc, req, j, mname, mb, rec, b, ending)
                        runs.append(p.run)
                        recipes.append({'req': req, 'conv': name, 'pdu': j, 'mutator': mname, 'bytes': mb.hex(), 'ending': ending})
                        if not req and name == 'echo' and j == 0 and any(type(i).__name__ == 'AAssociateRqPDU' for i in p.run.indications):
                            # the mutated request was indicated: the user accepts it the way the acceptor does
                            for how in (True, 'accept'):
                                p = run_one(sc, req, j, mname, mb, rec, b, 'FIN', echo=how)
                                runs.append(p.run)
                                recipes.append({'req': req, 'conv': name, 'pdu': j, 'mutator': mname, 'bytes': mb.hex(), 'ending': 'FIN', 'echo': how})
    # (a) an unrecognised PDU whose size is exactly one or two read buffers of a provider with a small own maximum, in
    #     every state the corpus reaches; (b) the local user does not take its indications while the peer pipelines
    n_extra = 0
    for req, corp in ((False, ulcorpus.ACCEPTOR), (True, ulcorpus.REQUESTOR)):
        for name in ('echo', 'local-release', 'collision', 'store'):
            if name not in corp:
                continue
            sc = corp[name]
            pdus = peer_pdus(sc)
            for j, (rec, b) in enumerate(pdus):
                for lm in (128,):
                    for k in (1, 2):
                        mb = bytes([0x2A, 0]) + (k * lm - 6).to_bytes(4, 'big') + bytes(k * lm - 6)
                        p = run_one(sc, req, j, 'unknown-type-%dx-read-buffer' % k, mb, rec, b, 'FIN', local_max=lm)
                        runs.append(p.run)
                        recipes.append({'req': req, 'conv': name, 'pdu': j, 'mutator': 'unknown-type-%dx-read-buffer' % k, 'bytes': mb.hex(), 'ending': 'FIN', 'local_max': lm})
                        n_extra += 1
        for name in (('many-pipelined', 'pipelined', 'store') if not req else ('find', 'response-close')):
            sc = corp[name]
            for ending in ('FIN', 'DEAF'):
                pdus = peer_pdus(sc)
                j = len(pdus) - 1
                rec, b = pdus[j]
                mb = bytes([0x2A, 0, 0, 0, 0, 4, 1, 2, 3, 4])
                p = run_one(sc, req, j, 'unknown-type', mb, rec, b, ending, lazy_user=True)
                runs.append(p.run)
                recipes.append({'req': req, 'conv': name, 'pdu': j, 'mutator': 'unknown-type', 'bytes': mb.hex(), 'ending': ending, 'lazy_user': True})
                n_extra += 1
    stats = ulcheck.validate(v, runs, recipes, chunk=2500)
    cells = stats.pop('cells')
    ev = {
        'tier': tier, 'level': 'model_checking',
        'coverage': {
            'states': sum(r.distinct for _, r in mcs), 'transitions': sum(r.generated for _, r in mcs),
            'traces_validated_against_impl': stats['traces'],
            'trace_events_validated': stats['events'], 'rejected_traces': stats['rejected'],
            'invalid_pdu_cells_exercised': sorted('Evt%d@Sta%d' % c for c in cells if c[0] == 19),
            'cells_exercised': len(cells),
            'model_checking': {cfg: r.summary() for cfg, r in mcs},
            'samples': [{'recipe': recipes[i], 'trace_tail': runs[i].trace[-3:]} for i in (0, len(runs) // 2, len(runs) - 1)],
            'exhaustive': False,
        },
        'assumptions': ['mutants are derived from the PDUs of the conversation corpus; one mutated PDU per run, then the peer closes'],
    }
    return v.finish(ev)


def replay(doc):
    rec = doc['replay']['recipe']
    corp = ulcorpus.REQUESTOR if rec['req'] else ulcorpus.ACCEPTOR
    sc = corp[rec['conv']]
    orig_rec, orig = peer_pdus(sc)[rec['pdu']]
    p = run_one(sc, rec['req'], rec['pdu'], rec['mutator'], bytes.fromhex(rec['bytes']), orig_rec, orig, rec.get('ending', 'FIN'),
                local_max=rec.get('local_max', 65536), lazy_user=rec.get('lazy_user', False), echo=rec.get('echo', False))
    v = Verdict('C12', 'quick')
    ulcheck.validate(v, [p.run], [rec])
    for x in v.violations:
        print('REPRODUCED: ' + x['what'])
    return 1 if v.violations else 0


if __name__ == '__main__':
    main_wrapper(lambda: main(sys.argv[1] if len(sys.argv) > 1 else 'quick'))
