"""C09 - the acceptor answers every proposed presentation context correctly.

Spec: specs/Negotiation.tla AcceptClauses (relation between configuration, request and answer: one
answer per context, same ids and order, accepted iff served and a proposed syntax is supported, the
answered syntax proposed AND supported, routing table = accepted contexts, dispatch only on those,
titles and application context echoed).  MC_Negotiation: the relation is never empty and rejects
wrong answers, exhaustively over the small universe.
Binding: every <<configuration, request>> of the universe (served/unserved abstract syntaxes, every
ordered list of 1..3 of 4 transfer syntaxes, 0..n contexts, every subset of served classes and of
supported syntaxes) is run through the real AssociationAcceptor.accept and _loop on a recording
provider; TLC decides membership of what the library did (Trace_Negotiation).
"""
from __future__ import annotations

import itertools
import random
import sys

from . import tlc, neglib as N
from .common import Verdict, main_wrapper, Machinery, seed

AS = ['S1', 'S2', 'U']
TS = ['T1', 'T2', 'T3', 'T4']


def ts_lists():
    out = []
    for n in (1, 2, 3):
        out.extend(itertools.permutations(TS, n))
    return out


def configs():
    for k in range(0, 3):
        for served in itertools.combinations(['S1', 'S2'], k):
            for m in range(0, 5):
                for sup in itertools.combinations(TS, m):
                    yield list(served), list(sup)


def universe(tier, rng):
    lists = ts_lists()
    ctx_kinds = [(a, l) for a in AS for l in lists]          # 120
    cfgs = list(configs())                                    # 64
    for served, sup in cfgs:
        yield served, sup, []
        for a, l in ctx_kinds:
            yield served, sup, [(a, l)]
    pairs = list(itertools.product(ctx_kinds, ctx_kinds))
    if tier == 'thorough':
        for served, sup in cfgs:
            for p in pairs:
                yield served, sup, list(p)
    else:
        for served, sup in cfgs:
            for p in rng.sample(pairs, 60):
                yield served, sup, list(p)
    for _ in range(300 if tier == 'quick' else 5000):
        served, sup = rng.choice(cfgs)
        n = rng.choice([3, 3, 4, 8, 20, 60])
        yield served, sup, [rng.choice(ctx_kinds) for _ in range(n)]


def make_case(served, sup, ctxs, rng):
    cfg = {'served': [N.AS_UID[a] for a in served], 'supported': [N.TS_UID[t] for t in sup]}
    start = rng.choice([1, 1, 1, 3, 101])
    ids = [min(start + 2 * i, 255) if start + 2 * i <= 255 else (start + 2 * i) % 254 | 1 for i in range(len(ctxs))]
    # the requestor numbers its contexts as it likes: ascending (what this library does), descending, any order
    how = rng.random()
    if len(ids) > 1 and len(set(ids)) == len(ids):
        if how < 0.15:
            ids.reverse()
        elif how < 0.35:
            rng.shuffle(ids)
    rq = {'called': rng.choice(['SCP', 'ANY-SCP', 'X' * 16]), 'calling': rng.choice(['SCU', 'ME', 'Y' * 16]), 'appctx': N.APP_CTX,
          'ctxs': [{'id': ids[i], 'as': N.AS_UID[a], 'ts': [N.TS_UID[t] for t in l]} for i, (a, l) in enumerate(ctxs)]}
    return cfg, rq


def main(tier='quick'):
    v = Verdict('C09', tier)
    rng = random.Random(seed())
    mc = tlc.run('MC_Negotiation', 'MC_Negotiation.cfg', workers=16)
    if not mc.ok:
        raise Machinery('Negotiation.tla fails TLC: %s %s' % (mc.violated, mc.errors[:2]))
    cases, metas = [], []
    for served, sup, ctxs in universe(tier, rng):
        cfg, rq = make_case(served, sup, ctxs, rng)
        try:
            probe = None if len(rq['ctxs']) <= 4 else sorted(rng.sample(range(len(rq['ctxs'])), 3))
            ans, acc, ann, notes = N.run_accept(cfg, rq, probe=probe)
        except Exception as exc:      # noqa
            v.report({'site': 'asceprovider.accept', 'clause': 'raised', 'exc': type(exc).__name__},
                     'accept() raised %s: %s for cfg=%r rq=%r' % (type(exc).__name__, exc, cfg, rq), replay={'cfg': cfg, 'rq': rq})
            continue
        for k, val in notes.items():
            v.report({'site': 'asceprovider.accept', 'clause': k}, '%s: %r (cfg=%r rq=%r)' % (k, val, cfg, rq), replay={'cfg': cfg, 'rq': rq})
        cases.append({'kind': 'accept', 'cfg': cfg, 'rq': rq, 'ans': ans})
        metas.append((cfg, rq, ans))
    # ONE entity with a history: the same request before and after each service is registered (and a different request
    # in between); every association is judged against the configuration the entity has at that moment
    lists = ts_lists()
    n_hist = 0
    for h in range(40 if tier == 'quick' else 400):
        sup = rng.choice([list(c) for m in (1, 2, 3, 4) for c in itertools.combinations(TS, m)])
        order = rng.choice([['S1', 'S2'], ['S2', 'S1'], ['S1'], ['S2']])
        ent = N.History([N.TS_UID[t] for t in sup])
        ctxs = [(rng.choice(AS), rng.choice(lists)) for _ in range(rng.choice([1, 2, 3, 5]))]
        if not any(a in order for a, _ in ctxs):
            ctxs.append((order[0], rng.choice(lists)))
        other = [(rng.choice(AS), rng.choice(lists)) for _ in range(2)]
        served = []
        for step in [None] + order:
            if step is not None:
                # the class may also be configured in the user role, before or after: what is SERVED is what add_scp got
                as_user = rng.choice(['no', 'before', 'after'])
                if as_user == 'before':
                    ent.ae.add_scu(lambda *a: None, [N.AS_UID[step]])
                ent.add([N.AS_UID[step]])
                if as_user == 'after':
                    ent.ae.add_scu(lambda *a: None, [N.AS_UID[step]])
                served.append(step)
            for which in (ctxs, other, ctxs):
                cfg, rq = make_case(served, sup, which, rng)
                n_hist += 1
                try:
                    ans, acc, ann, notes = N.run_accept(cfg, rq, entity=ent)
                except Exception as exc:      # noqa
                    v.report({'site': 'asceprovider.accept', 'clause': 'raised-after-reconfiguration', 'exc': type(exc).__name__},
                             'accept() raised %s: %s on an entity configured step by step (%r), rq=%r' % (type(exc).__name__, exc, served, rq))
                    continue
                for k, val in notes.items():
                    v.report({'site': 'asceprovider.accept', 'clause': k, 'history': True}, '%s: %r on an entity configured step by step (served now %r, rq=%r)' % (k, val, served, rq))
                cases.append({'kind': 'accept', 'cfg': cfg, 'rq': rq, 'ans': ans})
                metas.append((dict(cfg, history='one entity, services registered one by one: %r so far' % (served,)), rq, ans))
    res, stats = tlc.validate_traces('Trace_Negotiation', 'Trace_Negotiation.cfg', [[c] for c in cases], chunk=20000)
    for (cfg, rq, ans), r in zip(metas, res):
        if r['reached'] != 1:
            raise Machinery('case not judged')
        for clause in (r['bad_inv'] or []):
            v.report({'site': 'asceprovider.accept', 'clause': clause},
                     '%s: cfg=%r request contexts=%r answer=%r routing=%r dispatch=%r' % (clause, cfg, rq['ctxs'], ans['ctxs'], ans['routing'], ans['dispatch']),
                     replay=None if 'history' in cfg else {'cfg': cfg, 'rq': rq})
    ev = {'tier': tier, 'level': 'model_checking',
          'coverage': {'states': mc.distinct, 'transitions': mc.generated, 'traces_validated_against_impl': len(cases),
                       'judge_states': stats['states'],
                       'samples': [cases[5], cases[len(cases) // 2]], 'exhaustive': tier == 'thorough',
                       'explanation': 'all 64 configurations x all requests with 0..1 contexts (121) exhaustively; 2 contexts: %s; 3..60 contexts seeded; %d associations on entities whose services are registered one by one between associations' %
                                      (('all 14400 pairs' if tier == 'thorough' else '60 seeded pairs per configuration'), n_hist)},
          'assumptions': ['abstract syntaxes S1,S2 (servable), U (never served); transfer syntaxes T1..T4; real UIDs substituted']}
    return v.finish(ev)


def replay(doc):
    cfg, rq = doc['replay']['cfg'], doc['replay']['rq']
    ans, acc, ann, notes = N.run_accept(cfg, rq)
    res, _ = tlc.validate_traces('Trace_Negotiation', 'Trace_Negotiation.cfg', [[{'kind': 'accept', 'cfg': cfg, 'rq': rq, 'ans': ans}]])
    print('TLC verdict: %r notes: %r' % (res[0]['bad_inv'], notes))
    return 1 if (res[0]['bad_inv'] or notes) else 0


if __name__ == '__main__':
    main_wrapper(lambda: main(sys.argv[1] if len(sys.argv) > 1 else 'quick'))
