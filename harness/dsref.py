"""Encoding / decoding of data sets for the harness's own expectations: written on pydicom directly, with a fresh buffer
per call, so that what the harness expects never goes through the library under test (pynetdicom2.dsutils)."""
from __future__ import annotations

import io

from pydicom import filebase, filereader, filewriter


def encode(ds, is_implicit_vr, is_little_endian):
    fp = filebase.DicomBytesIO()
    fp.is_implicit_VR = is_implicit_vr
    fp.is_little_endian = is_little_endian
    filewriter.write_dataset(fp, ds)
    raw = fp.getvalue()
    fp.close()
    return raw


def decode(raw, is_implicit_vr, is_little_endian):
    return filereader.read_dataset(io.BytesIO(bytes(raw)), is_implicit_vr, is_little_endian)
