"""C07 - DIMSE reassembly is exact under any PDV grouping; completion detected exactly.

Spec: specs/Dimse.tla grouper + reassembler (Feed: CompletionExact, NothingBeforeEnd,
ReassembledEqualsSent) explored exhaustively by TLC in MC_Dimse over every fragmentation and every
grouping within the bounds; each complete behaviour is printed.
Binding:
 spec -> code: every printed behaviour is concretised (real command sets of all 23 command-field
   codes, real data sets) and replayed into a real fsm.DIMSEDecoder, in memory and file backed;
   after each PDU `receiving` must be what the specification says, and at completion message
   class, context id, command set and data bytes must be the transmitted ones.
 code -> spec: the fragments the library's own sender produces (C06) are regrouped under seeded
   random compositions, fed to the decoder, and the Feed trace is validated by TLC.
"""
from __future__ import annotations

import io
import random
import sys

from . import tlc, dimselib as D, wire_ref as W, cmdset
from .common import Verdict, main_wrapper, Machinery, seed

pydicom = D.pydicom
TS = [D.pyuid.ImplicitVRLittleEndian, D.pyuid.ExplicitVRLittleEndian, D.pyuid.ExplicitVRBigEndian]


def split_to(b, sizes):
    """Cut b into len(sizes) non-empty pieces (proportions follow sizes)."""
    k = len(sizes)
    if k == 0:
        return []
    if len(b) < k:
        raise Machinery('cannot cut %d bytes into %d fragments' % (len(b), k))
    tot = sum(sizes)
    cuts, acc = [], 0
    for i, s in enumerate(sizes[:-1]):
        acc += s
        c = max(len(cuts) + 1, min(len(b) - (k - 1 - i), round(len(b) * acc / tot)))
        if cuts and c <= cuts[-1]:
            c = cuts[-1] + 1
        cuts.append(c)
    pieces, prev = [], 0
    for c in cuts + [len(b)]:
        pieces.append(b[prev:c])
        prev = c
    return pieces


class Ctx(object):
    def __init__(self, pcid, sop, ts):
        self.id = pcid
        self.sop_class = sop
        self.supported_ts = ts


class ProviderSink(object):
    """The receiving side of ONE association: P-DATA-TF PDUs go through the provider's real DT-2 action (which owns the
    life of the DIMSEDecoder), message after message.  Same interface as a DIMSEDecoder for feed_and_check."""

    def __init__(self, contexts, store):
        from . import simnet
        self.ae = D.applicationentity.ClientAE('VERIF')
        self.opened = []
        self.sock = simnet.FakeSocket()
        self.prov = simnet.Stepped(dul_socket=self.sock, store_in_file=frozenset(store), get_file_cb=self.get_file)
        self.sm = self.prov.state_machine
        self.sm.accepted_contexts = contexts
        self.receiving = True
        self.msg = None
        self.pc_id = None

    spool = None               # one file all received instances are appended to (an entity may store that way)

    def get_file(self, ctx, command_set):
        if self.spool is not None:
            # the documented contract: return the file AND the position at which this instance starts
            self.spool.seek(0, 2)
            start = self.spool.tell()
            D.applicationentity.write_meta(self.spool, command_set, ctx.supported_ts)
            return self.spool, start
        fp, start = self.ae.get_file(ctx, command_set)
        self.opened.append(fp)
        return fp, start

    def request_release(self):
        """The local user asks for release now (AR-1 is performed by the real state machine): what the peer still
        sends arrives in Sta7."""
        self.sm.current_state = D.fsm.States.STA_6
        self.prov.primitive = D.pdu.AReleaseRqPDU()
        ns = self.sm.ar_1()
        if ns != D.fsm.States.STA_7:
            raise RuntimeError('AR-1 led to Sta%d' % (ns + 1))
        self.releasing = True

    releasing = False          # the local user has asked for release: P-DATA arrives in Sta7 and is handled by AR-6

    def process(self, p):
        home = D.fsm.States.STA_7 if self.releasing else D.fsm.States.STA_6
        self.sm.current_state = home
        self.prov.primitive = p
        ns = self.sm.ar_6() if self.releasing else self.sm.dt_2()
        if ns != home:
            raise RuntimeError('DT-2 treated the PDU as invalid (next state Sta%d, wrote %r)' % (ns + 1, self.sock.sent[-1:]))
        got = self.prov.drain_user()
        if got:
            if len(got) != 1 or not isinstance(got[0], tuple):
                raise RuntimeError('DT-2 indicated %r' % (got,))
            self.msg, self.pc_id = got[0]
            self.receiving = False
        else:
            self.receiving = True


def feed_and_check(v, frags, groups, cmd_bytes, data_bytes, pc_id, cls_name, mode, ts, meta, trace=None, sink=None, release_after=None):
    """frags: list of (is_cmd, last, payload); groups: list of (k, expected_receiving or None).
    mode: 'mem' | 'file' | 'dir'.  Returns list of Feed events (for code->spec validation).
    sink: a ProviderSink shared by the messages of one association (default: a fresh DIMSEDecoder)."""
    sop = None
    for t, val in cmdset.read(cmd_bytes):
        if t in (cmdset.TAG_AFF_SOP_CLASS, cmdset.TAG_REQ_SOP_CLASS):
            sop = cmdset.text(val)
    if not sop:
        mode = 'mem'           # a message that names no SOP class cannot belong to a class configured for file storage
    store = frozenset([sop]) if mode != 'mem' and sop else frozenset()
    ae = D.applicationentity.ClientAE('VERIF')
    opened = []

    def get_file(ctx, command_set):
        fp, start = ae.get_file(ctx, command_set)
        opened.append(fp)
        return fp, start
    if sink is not None:
        dec = sink
        opened = sink.opened
        dec.receiving = True
    else:
        dec = D.fsm.DIMSEDecoder({pc_id: Ctx(pc_id, sop, ts)}, store, get_file)
    events = []
    i = 0
    where = 'message %r' % (meta,)
    done_at = None
    for gi, (k, exp) in enumerate(groups):
        part = frags[i:i + k]
        i += k
        b = W.enc_pdu({'t': 4, 'pdvs': [{'ctx': pc_id, 'val': bytes([(1 if c else 0) | (2 if last else 0)]) + pl} for c, last, pl in part]})
        p = D.pdu.PDataTfPDU.decode(b)
        try:
            dec.process(p)
        except Exception as exc:       # noqa
            v.report({'site': 'fsm.DIMSEDecoder', 'clause': 'raised', 'mode': mode},
                     'DIMSEDecoder.process raised %s: %s on PDU %d of %s' % (type(exc).__name__, exc, gi + 1, where), replay=meta)
            return None
        events.append({'ev': 'Feed', 'k': k, 'receiving': bool(dec.receiving)})
        if release_after is not None and gi == release_after and dec.receiving and sink is not None:
            sink.request_release()          # the rest of this message arrives after the local release request
        if exp is not None and bool(dec.receiving) != exp:
            v.report({'site': 'fsm.DIMSEDecoder', 'clause': 'completion', 'early': not dec.receiving},
                     'after PDU %d of %d (grouping %s) receiving=%s, the specification says %s; %s'
                     % (gi + 1, len(groups), [g[0] for g in groups], dec.receiving, exp, where), replay=meta)
            return events
        if not dec.receiving:
            done_at = gi
            break
    if dec.receiving:
        return events
    # completion: the message must be the one transmitted
    msg = dec.msg
    problems = []
    if type(msg).__name__ != cls_name:
        problems.append('class %s instead of %s' % (type(msg).__name__, cls_name))
    if dec.pc_id != pc_id:
        problems.append('context id %r instead of %r' % (dec.pc_id, pc_id))
    try:
        got_cmd = cmdset.encode_dataset(msg.command_set)           # independent of the library's encoder
        got, want = cmdset.read(got_cmd), cmdset.read(cmd_bytes)
        same = got == want
    except Exception as exc:      # noqa - the delivered command set cannot even be walked: that is the finding
        same, got, want = False, [], []
        problems.append('delivered command set is not readable: %s: %s' % (type(exc).__name__, str(exc)[:120]))
    if not same and got:
        gt, wt = [t for t, _ in got], [t for t, _ in want]
        problems.append('command set differs (elements added %s, lost %s, changed %s)' % (
            ['%08x' % t for t in gt if t not in wt], ['%08x' % t for t in wt if t not in gt],
            ['%08x' % t for t, x in got if t in wt and dict(want)[t] != x]))
    if data_bytes:
        ds = msg.data_set
        if mode == 'mem':
            if not isinstance(ds, (bytes, bytearray)) and ds is not None:
                problems.append('in-memory reception handed over %s instead of the data set bytes' % type(ds).__name__)
            elif ds != data_bytes:
                problems.append('data set bytes differ (%d vs %d bytes)' % (len(ds or b''), len(data_bytes)))
        else:
            if not hasattr(ds, 'read'):
                problems.append('file-backed reception handed over %s' % type(ds).__name__)
            else:
                try:
                    pos = ds.tell()                 # the application gets the file positioned where its instance begins
                    raw = ds.read()
                    ds.seek(pos)
                    f = pydicom.dcmread(io.BytesIO(raw))
                    if f.file_meta.TransferSyntaxUID != ts:
                        problems.append('file transfer syntax %s, negotiated %s' % (f.file_meta.TransferSyntaxUID, ts))
                    if not raw.endswith(data_bytes) or raw[:132] != b'\0' * 128 + b'DICM':
                        problems.append('file content is not preamble + meta + the transmitted data set bytes')
                    elif len(raw) - len(data_bytes) != 132 + 12 + f.file_meta.FileMetaInformationGroupLength:
                        problems.append('extra bytes between meta header and data set')
                except Exception as exc:     # noqa
                    problems.append('file not readable as DICOM: %s: %s' % (type(exc).__name__, exc))
    elif msg.data_set:
        problems.append('a data set was delivered although none was sent')
    for fp in opened:
        try:
            fp.close()          # as the storage service does once it has handled the message
        except Exception:   # noqa
            pass
    del opened[:]
    for pr in problems:
        v.report({'site': 'fsm.DIMSEDecoder', 'clause': 'content', 'what': pr.split(' ')[0], 'mode': mode},
                 '%s; grouping %s; %s' % (pr, [g[0] for g in groups], where), replay=meta)
    return events


OPTIONAL_TAGS = (0x00001030, 0x00001031, 0x00001020, 0x00001021, 0x00001022, 0x00001023)     # move originator, sub-operation counters


def without_optional(cmd, rng, p=0.5):
    """The same command set as another implementation would send it: optional / conditional elements simply absent."""
    elems = [(t, x) for t, x in cmdset.read(cmd) if t != 0 and not (t in OPTIONAL_TAGS and rng.random() < p)]
    return cmdset.write(elems)


def message_material(cls, rng, with_data, ts):
    msg = D.fill(cls(), rng)
    if with_data:
        data, _ = D.dataset_bytes(rng, rng.choice([40, 90, 300]), ts)
        msg.data_set = data
    else:
        data = b''
    msg.set_length()
    cmd = cmdset.encode_dataset(msg.command_set)
    if rng.random() < 0.5:
        cmd = without_optional(cmd, rng)
    return cmd, data


def main(tier='quick'):
    v = Verdict('C07', tier)
    rng = random.Random(seed())
    mc = tlc.run('MC_Dimse', 'MC_Dimse.cfg' if tier == 'quick' else 'MC_Dimse_thorough.cfg', workers=1, timeout=3000)
    if not mc.ok:
        raise Machinery('Dimse.tla fails TLC: %s %s' % (mc.violated, mc.errors[:2]))
    behaviours = tlc.printed_values(mc.out)
    n_replayed = 0
    samples = []
    # ---- spec -> code
    for bi, beh in enumerate(behaviours):
        frs = beh['frags']
        nc = [f['n'] for f in frs if f['cmd']]
        nd = [f['n'] for f in frs if not f['cmd']]
        cls = D.CLASSES[bi % len(D.CLASSES)]
        for mode in (('mem', 'file') if nd else ('mem',)):
            ts = TS[(bi // 3) % 3]
            # file-backed reception: whatever message carries a data set on a class configured for it (every type)
            cls_used = cls
            cmd, data = message_material(cls_used, rng, bool(nd), ts)
            frags = [(True, i == len(nc) - 1, pl) for i, pl in enumerate(split_to(cmd, nc))] + \
                    [(False, i == len(nd) - 1, pl) for i, pl in enumerate(split_to(data, nd))]
            groups = [(g['k'], g['receiving']) for g in beh['groups']]
            meta = {'kind': 'tlc-behaviour', 'index': bi, 'class': cls_used.__name__, 'mode': mode, 'ts': str(ts),
                    'cmd_frags': nc, 'data_frags': nd, 'grouping': [g[0] for g in groups]}
            feed_and_check(v, frags, groups, cmd, data, rng.choice([1, 3, 255]), cls_used.__name__, mode, ts, meta)
            n_replayed += 1
            if len(samples) < 3 and len(groups) > 2:
                samples.append(meta)
    # ---- sessions: several messages of one association through the provider's real DT-2 action; the same storage
    # SOP class accepted on two contexts with different transfer syntaxes, a non-storage class in memory
    n_sessions = 0
    STORE_SOP, MEM_SOP = '1.2.840.10008.5.1.4.1.1.7', '1.2.840.10008.5.1.4.1.2.2.1'
    for si in range(120 if tier == 'quick' else 1500):
        tsa, tsb = rng.sample(TS, 2)
        ctxs = {1: Ctx(1, STORE_SOP, tsa), 3: Ctx(3, STORE_SOP, tsb), 5: Ctx(5, MEM_SOP, rng.choice(TS)), 7: Ctx(7, '1.2.840.10008.1.1', TS[0])}
        # which classes are received into files is decided by how the entity was configured: take it from a real one
        order = ('scp', 'scu-scp', 'scp-scu')[si % 3]
        node = D.applicationentity.AE('NODE', 0, bind_and_activate=False)
        try:
            node.server_close()
        except Exception:      # noqa
            pass
        if order == 'scu-scp':
            node.add_scu(D.sopclass.storage_scu, [STORE_SOP])
        node.add_scp(D.sopclass.storage_scp)
        if order == 'scp-scu':
            node.add_scu(D.sopclass.storage_scu, [STORE_SOP])
        sink = ProviderSink(ctxs, node.store_in_file)
        if si % 5 == 2:
            import tempfile as _tf
            sink.spool = _tf.TemporaryFile()
        n_sessions += 1
        for mi in range(rng.choice([2, 3, 4])):
            beh = behaviours[rng.randrange(len(behaviours))]
            frs = beh['frags']
            nc = [f['n'] for f in frs if f['cmd']]
            nd = [f['n'] for f in frs if not f['cmd']]
            kind = rng.choice(['store', 'store', 'find', 'echo']) if nd else 'echo'
            if kind == 'store':
                pcid = rng.choice([1, 3])
                msg = D.fill(D.dm.CStoreRQMessage(), rng)
                msg.sop_class_uid = STORE_SOP
                cls_name, mode = 'CStoreRQMessage', 'file'
            elif kind == 'find':
                pcid = 5
                msg = D.fill(D.dm.CFindRQMessage(), rng)
                msg.sop_class_uid = MEM_SOP
                cls_name, mode = 'CFindRQMessage', 'mem'
            else:
                pcid = 7
                msg = D.fill(D.dm.CEchoRQMessage(), rng)
                msg.sop_class_uid = '1.2.840.10008.1.1'
                cls_name, mode = 'CEchoRQMessage', 'mem'
                nd = []
            ts = ctxs[pcid].supported_ts
            data = D.dataset_bytes(rng, rng.choice([40, 90, 300]), ts)[0] if nd else b''
            if nd:
                msg.data_set = data
            msg.set_length()
            cmd = cmdset.encode_dataset(msg.command_set)
            if rng.random() < 0.5:
                cmd = without_optional(cmd, rng)
            frags = [(True, i == len(nc) - 1, pl) for i, pl in enumerate(split_to(cmd, nc))] + \
                    [(False, i == len(nd) - 1, pl) for i, pl in enumerate(split_to(data, nd))]
            if nd:
                groups = [(g['k'], g['receiving']) for g in beh['groups']]
            else:       # the behaviour's data fragments are not sent: regroup the command fragments one per PDU
                groups = [(1, i < len(nc) - 1) for i in range(len(nc))]
            meta = {'kind': 'session', 'session': si, 'message': mi, 'class': cls_name, 'mode': mode, 'ctx': pcid, 'ts': str(ts), 'entity_configured': order,
                    'contexts': {str(k): [c.sop_class, str(c.supported_ts)] for k, c in ctxs.items()},
                    'cmd_frags': nc, 'data_frags': nd, 'grouping': [g[0] for g in groups]}
            # the last message of some sessions arrives after the local release request (Sta7, AR-6)
            sink.releasing = (mi >= 1 and si % 4 == 3)
            meta['after_release_request'] = sink.releasing
            rel = 0 if (si % 4 == 1 and mi >= 1 and len(groups) >= 2 and not sink.releasing) else None
            meta['release_requested_after_pdu'] = rel
            if feed_and_check(v, frags, groups, cmd, data, pcid, cls_name, mode, ts, meta, sink=sink, release_after=rel) is None:
                break
            if rel is not None:
                break                      # the association is being released: nothing more is sent
            n_replayed += 1
    # ---- code -> spec: the library's own fragments, regrouped
    traces, metas = [], []
    n_rand = 600 if tier == 'quick' else 8000
    for i in range(n_rand):
        cls = D.dm.CStoreRQMessage if i % 5 == 0 else D.CLASSES[i % len(D.CLASSES)]
        ts = TS[i % 3]
        with_data = bool(i % 4)
        m = rng.choice([7, 8, 9, 12, 16, 20, 33, 64, 200])
        msg = D.fill(cls(), rng)
        data = D.dataset_bytes(rng, rng.choice([20, 70, 200]), ts)[0] if with_data else None
        pc_id = rng.choice([1, 3, 5, 255])
        tr, cmd, dat, problems = D.send_trace(msg, pc_id, m, data, False)
        if tr is None or problems:
            continue          # C06's business
        frags = [(e['cmd'], e['last'], None) for e in tr if e['ev'] == 'Frag']
        # payloads: recover from cmd/dat by lengths
        out, pc, pd = [], 0, 0
        for e in [e for e in tr if e['ev'] == 'Frag']:
            if e['cmd']:
                out.append((True, e['last'], cmd[pc:pc + e['n']]))
                pc += e['n']
            else:
                out.append((False, e['last'], dat[pd:pd + e['n']]))
                pd += e['n']
        # random composition
        groups, left = [], len(out)
        while left:
            k = rng.choice([1, 1, 2, 3, left, rng.randint(1, left)])
            k = min(k, left)
            groups.append((k, None))
            left -= k
        mode = 'file' if (with_data and (cls is D.dm.CStoreRQMessage or i % 2 == 0)) else 'mem'
        meta = {'kind': 'library-fragments', 'class': cls.__name__, 'max': m, 'mode': mode, 'ts': str(ts),
                'grouping': [g[0] for g in groups], 'seed_index': i}
        evs = feed_and_check(v, out, groups, cmd, dat or b'', pc_id, cls.__name__, mode, ts, meta)
        if evs is None:
            continue
        traces.append(tr + evs + [{'ev': 'End', 'done': True}])
        metas.append(meta)
    res, stats = tlc.validate_traces('Trace_Dimse', 'Trace_Dimse.cfg', traces, chunk=4000)
    for tr, r, meta in zip(traces, res, metas):
        if not r['ok']:
            nxt = tr[r['reached']] if r['reached'] < len(tr) else None
            v.report({'site': 'fsm.DIMSEDecoder', 'clause': 'reassembler-step', 'ev': nxt and nxt['ev']},
                     'decoder behaviour is not a behaviour of the Dimse reassembler at event %d %r (%r)' % (r['reached'], nxt, meta), replay=meta)
    ev = {'tier': tier, 'level': 'model_checking',
          'coverage': {'states': mc.distinct, 'transitions': mc.generated,
                       'traces_validated_against_impl': len(traces) + n_replayed,
                       'tlc_behaviours': len(behaviours), 'tlc_behaviours_replayed_into_decoder': n_replayed,
                       'library_fragment_traces_validated': len(traces), 'sessions_through_the_providers_dt2': n_sessions,
                       'samples': samples + [{'trace': traces[0][-6:], 'meta': metas[0]}] if traces else samples,
                       'exhaustive': False},
          'assumptions': ['abstract fragment sizes of a TLC behaviour are concretised as proportional cuts of real command / data bytes']}
    return v.finish(ev)


def replay(doc):
    print('replay of C07 cases is by re-running ./check C07 (cases are regenerated from the seed); case: %r' % doc.get('replay'))
    return main('quick')


if __name__ == '__main__':
    main_wrapper(lambda: main(sys.argv[1] if len(sys.argv) > 1 else 'quick'))
