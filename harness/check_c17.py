"""C17 - every SCP response correlates with its request (message id, UIDs, context).

Spec: specs/Services.tla Correlated / RspSimple / RspFind / RspMove / SubRsp / End (every request
answered, status = handler outcome or the documented failure status); specs/SendQueue.tla explores
every interleaving of the application thread with the provider thread that encodes lazily.
Binding: every provider callable of sopclass.py runs on a real Association (real send path) with a
scripted provider under three schedules of the lazy encoding (eager, lagging, only when the
application blocks); requests arrive in wire form through the real DIMSEDecoder; what is sent is read
from its wire form by the independent readers; TLC validates one trace per call.
"""
from __future__ import annotations

import random
import sys

from . import tlc, svccheck as K
from .common import Verdict, main_wrapper, Machinery, seed

POLICIES = ['eager', ('lag', 1), 'blocked', 'starved']


def main(tier='quick'):
    v = Verdict('C17', tier)
    rng = random.Random(seed())
    mcs = []
    for cfg, expect_ok in (('SendQueue_fresh.cfg', True),):
        r = tlc.run('SendQueue', cfg, workers=4)
        if r.ok != expect_ok:
            raise Machinery('SendQueue.tla (%s): unexpected TLC result %s' % (cfg, r.violated))
        mcs.append(r)
    traces, metas = [], []

    def add(tr_extra, meta):
        tr, extra = tr_extra if isinstance(tr_extra, tuple) else (tr_extra, {})
        traces.append(tr)
        metas.append(meta)
        for k, val in extra.items():
            v.report({'site': 'sopclass.' + meta['svc'], 'clause': k}, '%s (%r)' % (val, meta), replay=meta)

    mids = K.MIDS + [rng.randint(0, 65535) for _ in range(4 if tier == 'quick' else 60)]
    ctxs = [1, 3, 127, 255]
    for pol in POLICIES:
        for mid in mids:
            ctx = rng.choice(ctxs)
            for outcome in (0, 0xB000, 0xC000, 0x0110, 'EHE'):
                add(K.run_echo(rng, pol, mid, ctx, outcome), {'svc': 'verification_scp', 'mid': mid, 'ctx': ctx, 'outcome': outcome, 'policy': pol})
            for outcome in (0, 0xB006, 0xA700, 0xC123, 'EHE'):
                add(K.run_store(rng, pol, mid, ctx, outcome, rng.randint(1, 64)), {'svc': 'storage_scp', 'mid': mid, 'ctx': ctx, 'outcome': outcome, 'policy': pol})
            for outcome in (0, 'EHE'):
                for split in ('success', 'failure', 'mixed'):
                    add(K.run_naction(rng, pol, mid, ctx, outcome, 3, split), {'svc': 'n_action', 'mid': mid, 'ctx': ctx, 'outcome': outcome, 'split': split, 'policy': pol})
                for shape in ('success', 'failure', 'mixed'):
                    add(K.run_nevent(rng, pol, mid, ctx, outcome, 2, shape), {'svc': 'n_event_report', 'mid': mid, 'ctx': ctx, 'outcome': outcome, 'shape': shape, 'policy': pol})
            for nm in (0, 1, 3):
                ms = [(rng.choice([0xFF00, 0xFF01]), rng.choice([0, 30])) for _ in range(nm)]
                add(K.run_find_scp(rng, pol, mid, ctx, ms, worklist=bool(nm % 2)), {'svc': 'qr_find_scp', 'mid': mid, 'ctx': ctx, 'matches': ms, 'policy': pol})
            for n in (0, 1, 3):
                add(K.run_move_scp(rng, pol, mid, ctx, n, [rng.choice([0, 0xB000, 0xA700]) for _ in range(n)]), {'svc': 'qr_move_scp', 'mid': mid, 'ctx': ctx, 'n': n, 'policy': pol})
            add(K.run_move_scp(rng, pol, mid, ctx, 0, [], known=False), {'svc': 'qr_move_scp', 'mid': mid, 'ctx': ctx, 'n': 0, 'policy': pol, 'destination': 'unknown'})
            # every request is answered: the handler signals an error / the destination refuses the association or a class
            for fault in ('handler', 'rejected', ('refused', 0), ('refused', 1)):
                add(K.run_move_scp(rng, pol, mid, ctx, 3, [0, 0, 0], fault=fault), {'svc': 'qr_move_scp', 'mid': mid, 'ctx': ctx, 'n': 3, 'policy': pol, 'fault': fault})
            # the C-FIND handler fails before / while it yields; or supplies the final status itself (one final response)
            for fa in (0, 1, 2):
                ms = [(rng.choice([0xFF00, 0xFF01]), 20)] * 3
                add(K.run_find_scp(rng, pol, mid, ctx, ms, fail_after=fa), {'svc': 'qr_find_scp', 'mid': mid, 'ctx': ctx, 'matches': ms, 'policy': pol, 'handler_fails_after': fa})
            for fin in (0x0000, 0xC000, 0xFE00, 0xA700):
                ms = [(0xFF00, 20)] * rng.choice([0, 2]) + [(fin, rng.choice([0, 20]))]
                add(K.run_find_scp(rng, pol, mid, ctx, ms), {'svc': 'qr_find_scp', 'mid': mid, 'ctx': ctx, 'matches': ms, 'policy': pol, 'final_status_from_handler': fin})
            # N-ACTION about another instance than the well-known one: the response repeats the REQUEST's instance
            add(K.run_naction(rng, pol, mid, ctx, 0, 2, 'success', inst='1.2.3.4.%d' % rng.randint(1, 999)), {'svc': 'n_action', 'mid': mid, 'ctx': ctx, 'outcome': 0, 'policy': pol, 'instance': 'not the well-known one'})
        for mid in mids[:6]:
            plan = [('store', rng.choice([7, 9]), rng.choice(K.MIDS), 1) for _ in range(3)]
            add(K.run_get_scu(rng, mid, 1, plan, [0, 'EHE', 0xB000], pol), {'svc': 'qr_get_scu', 'mid': mid, 'plan': plan, 'policy': pol})
            # progress responses of the retrieve interleaved with the sub-operations (they arrive on the C-GET context)
            plan2 = [plan[0], ('pending',), plan[1], ('pending',), ('pending',), plan[2]]
            add(K.run_get_scu(rng, mid, rng.choice([1, 3, 5]), plan2, [0, 0xB000, 'EHE'], pol), {'svc': 'qr_get_scu', 'mid': mid, 'plan': plan2, 'policy': pol})
    # a request for one find class arriving on a context negotiated for another find class: the responses repeat the
    # REQUEST's class
    for mid in mids[:4]:
        for nm in (0, 2):
            ms = [(0xFF00, 10)] * nm
            add(K.run_find_scp(rng, 'eager', mid, 3, ms, ctx_sop='1.2.840.10008.5.1.4.1.2.2.1'),
                {'svc': 'qr_find_scp', 'mid': mid, 'ctx': 3, 'matches': ms, 'policy': 'eager', 'context_negotiated_for': 'study root'})
    # one service object, two associations, overlapping requests with different message ids
    for kind in ('naction', 'nevent'):
        for pair in ((0, 65535), (7, 300), (65535, 1)):
            trs, errs = K.run_commit_concurrent(rng, pair, kind)
            for e in errs:
                v.report({'site': 'sopclass.StorageCommitment', 'clause': 'raised'}, 'overlapping %s requests %r: %s' % (kind, pair, e), replay={'svc': kind, 'pair': list(pair)})
            for tr in trs:
                traces.append(tr)
                metas.append({'svc': 'commitment-' + kind, 'overlapping_message_ids': list(pair), 'policy': 'eager'})
    # one service object, ONE association and context, requests of different commands of the shared class in a row
    for kinds in (('naction', 'nevent'), ('nevent', 'naction'), ('naction', 'nevent', 'naction', 'nevent'), ('nevent', 'nevent', 'naction')):
        for ctx in (1, 255):
            ms = [rng.choice(mids) for _ in kinds]
            trs, extras = K.run_commit_sequence(rng, kinds, ms, ctx)
            for tr, extra, kind in zip(trs, extras, kinds):
                meta = {'svc': 'commitment-' + kind, 'one_association_sequence': list(kinds), 'mids': ms, 'ctx': ctx, 'policy': 'eager'}
                for k, val in extra.items():
                    v.report({'site': 'sopclass.StorageCommitment', 'clause': k}, val, replay=meta)
                traces.append(tr)
                metas.append(meta)
    # the handler loop itself: several requests of one association over contexts that share an SOP class
    n_loops = 0
    for li in range(40 if tier == 'quick' else 600):
        reqs = []
        for _ in range(rng.choice([2, 3, 4, 6])):
            kind = rng.choice(['echo', 'store'])
            reqs.append((kind, rng.choice([1, 3] if kind == 'echo' else [5, 7]), rng.choice(mids)))
        pair = rng.sample(['1.2.840.10008.1.2', '1.2.840.10008.1.2.1', '1.2.840.10008.1.2.2'], 2)
        trs, extra = K.run_handler_loop(rng, reqs, pair)
        n_loops += 1
        for k, val in extra.items():
            v.report({'site': 'asceprovider._loop', 'clause': k}, '%s (requests %r)' % (val, reqs), replay={'svc': 'handler_loop', 'requests': reqs, 'ts': pair})
        for tr in trs:
            traces.append(tr)
            metas.append({'svc': 'handler_loop', 'requests': reqs, 'ts': pair, 'policy': 'eager'})
    res, stats = tlc.validate_traces('Trace_Services', 'Trace_Services.cfg', traces, chunk=5000)
    for tr, r, meta in zip(traces, res, metas):
        if r['ok']:
            continue
        e = tr[r['reached']] if r['reached'] < len(tr) else None
        v.report({'site': 'sopclass.' + meta['svc'], 'clause': 'step-' + (e['ev'] if e else 'none'),
                  'lazy': 'eager' if meta.get('policy') == 'eager' else 'lazy'},
                 '%s: event %d %r is not allowed by Services.tla (request %r)' % (meta['svc'], r['reached'], e, tr[0]['req']), replay=meta)
    ev = {'tier': tier, 'level': 'model_checking',
          'coverage': {'states': sum(r.distinct for r in mcs), 'transitions': sum(r.generated for r in mcs),
                       'traces_validated_against_impl': len(traces), 'handler_loop_associations': n_loops, 'provider_callables': sorted({m['svc'] for m in metas}),
                       'schedules': [str(p) for p in POLICIES], 'samples': [traces[0], traces[len(traces) // 2]], 'exhaustive': False},
          'assumptions': ['documented failure statuses: echo/n-action/n-event 0110H, storage and C-GET store C000H',
                          'the sub-association of C-MOVE / N-EVENT-REPORT is a recording stub']}
    return v.finish(ev)


def replay(doc):
    return main('quick')


if __name__ == '__main__':
    main_wrapper(lambda: main(sys.argv[1] if len(sys.argv) > 1 else 'quick'))
