"""Bridges between the structures of specs/Wire.tla (dicts, texts as byte lists) and the library's
PDU classes: build library objects from a structure, project library objects back to a structure,
and deep comparison of library objects (recursive __dict__)."""
from __future__ import annotations

import random
import struct

from .common import import_repo, Machinery

import_repo()
from pynetdicom2 import pdu, userdataitems as ud  # noqa: E402
from pydicom import uid as pyuid  # noqa: E402


def B(x):
    return bytes(x) if not isinstance(x, bytes) else x


def txt(x):
    return B(x).decode('latin-1')


def norm(s):
    """JSON structure from TLC -> same structure with byte lists turned into bytes."""
    if isinstance(s, dict):
        return {k: norm(v) for k, v in s.items()}
    if isinstance(s, list):
        if all(isinstance(i, int) for i in s):
            return bytes(s)
        return [norm(v) for v in s]
    return s


BYTES_FIELDS = {'max', 'uid', 'name', 'info', 'prim', 'sec', 'rsp', 'data', 'called', 'calling', 'r3', 'val'}


def fix_empty(s, key=None):
    """TLC prints an empty sequence as [] whatever it 'is'; restore bytes for byte fields, lists for lists."""
    if isinstance(s, dict):
        out = {}
        for k, v in s.items():
            if v == [] or v == b'':
                out[k] = b'' if (k in BYTES_FIELDS or (k == 'r2' and s.get('t') in (5, 6))) else []
            else:
                out[k] = fix_empty(v, k)
        return out
    if isinstance(s, list):
        return [fix_empty(v) for v in s]
    return s


# ------------------------------------------------------------------ structure -> library objects

def sub_to_lib(x):
    t = x['t']
    r = x.get('r', 0)
    if t == 0x51:
        return ud.MaximumLengthSubItem(int.from_bytes(B(x['max']), 'big'), reserved=r)
    if t == 0x52:
        return ud.ImplementationClassUIDSubItem(pyuid.UID(txt(x['uid'])), reserved=r)
    if t == 0x55:
        return ud.ImplementationVersionNameSubItem(txt(x['name']), reserved=r)
    if t == 0x53:
        return ud.AsynchronousOperationsWindowSubItem(x['inv'], x['perf'], reserved=r)
    if t == 0x54:
        return ud.ScpScuRoleSelectionSubItem(pyuid.UID(txt(x['uid'])), x['scu'], x['scp'], reserved=r)
    if t == 0x56:
        return ud.SOPClassExtendedNegotiationSubItem(pyuid.UID(txt(x['uid'])), B(x['info']), reserved=r)
    if t == 0x58:
        return ud.UserIdentityNegotiationSubItem(B(x['prim']).decode('utf8', 'surrogateescape'), B(x['sec']).decode('utf8', 'surrogateescape'),
                                                 x['type'], x['resp'], r)
    if t == 0x59:
        return ud.UserIdentityNegotiationSubItemAc(B(x['rsp']).decode('utf8', 'surrogateescape'), r)
    return ud.GenericUserDataSubItem(t, B(x['data']), r)


def item_to_lib(x):
    t = x['t']
    if t == 0x10:
        return pdu.ApplicationContextItem(txt(x['name']), reserved=x.get('r', 0))
    if t == 0x20:
        subs = x['sub']
        if not subs or subs[0]['t'] != 0x30:
            raise ValueError('structure not expressible with the public classes (no abstract syntax first)')
        if any(s['t'] != 0x40 for s in subs[1:]):
            raise ValueError('structure not expressible with the public classes')
        return pdu.PresentationContextItemRQ(
            x['id'], pdu.AbstractSyntaxSubItem(pyuid.UID(txt(subs[0]['name'])), reserved=subs[0].get('r', 0)),
            [pdu.TransferSyntaxSubItem(txt(s['name']), reserved=s.get('r', 0)) for s in subs[1:]],
            reserved1=x.get('r1', 0), reserved2=x.get('r2', 0), reserved3=x.get('r3', 0), reserved4=x.get('r4', 0))
    if t == 0x21:
        subs = x['sub']
        if len(subs) != 1 or subs[0]['t'] != 0x40:
            raise ValueError('structure not expressible with the public classes')
        return pdu.PresentationContextItemAC(x['id'], x['res'],
                                             pdu.TransferSyntaxSubItem(txt(subs[0]['name']), reserved=subs[0].get('r', 0)),
                                             reserved1=x.get('r1', 0), reserved2=x.get('r2', 0), reserved3=x.get('r3', 0))
    if t == 0x50:
        return pdu.UserInformationItem([sub_to_lib(s) for s in x['sub']], reserved=x.get('r', 0))
    raise ValueError('item type %#x has no public class' % t)


def title(b):
    return B(b).rstrip(b' \0').decode('latin-1')


def to_lib(s):
    t = s['t']
    if t in (1, 2):
        cls = pdu.AAssociateRqPDU if t == 1 else pdu.AAssociateAcPDU
        return cls(called_ae_title=title(s['called']), calling_ae_title=title(s['calling']),
                   variable_items=[item_to_lib(i) for i in s['items']],
                   protocol_version=s.get('ver', 1), reserved1=s.get('r1', 0), reserved2=s.get('r2', 0),
                   reserved3=struct.unpack('>8I', B(s.get('r3', b'\0' * 32))))
    if t == 3:
        return pdu.AAssociateRjPDU(s['result'], s['source'], s['reason'], reserved1=s.get('r1', 0), reserved2=s.get('r2', 0))
    if t == 4:
        return pdu.PDataTfPDU([pdu.PresentationDataValueItem(v['ctx'], B(v['val'])) for v in s['pdvs']], reserved=s.get('r1', 0))
    if t in (5, 6):
        cls = pdu.AReleaseRqPDU if t == 5 else pdu.AReleaseRpPDU
        return cls(reserved1=s.get('r1', 0), reserved2=int.from_bytes(B(s.get('r2', b'\0\0\0\0')), 'big'))
    if t == 7:
        return pdu.AAbortPDU(s['source'], s['reason'], reserved1=s.get('r1', 0), reserved2=s.get('r2', 0), reserved3=s.get('r3', 0))
    raise ValueError('PDU type %r has no public class' % t)


def to_lib_incremental(s):
    """The same PDU built step by step through the public attributes: containers are created empty (or with a
    placeholder) and filled afterwards, text fields are first given another value and then the final one.  A PDU
    "that can be built from the public classes" can be built this way too."""
    t = s['t']
    if t in (1, 2):
        cls = pdu.AAssociateRqPDU if t == 1 else pdu.AAssociateAcPDU
        x = cls(called_ae_title='X', calling_ae_title='Y', variable_items=[],
                protocol_version=s.get('ver', 1), reserved1=s.get('r1', 0), reserved2=s.get('r2', 0),
                reserved3=struct.unpack('>8I', B(s.get('r3', b'\0' * 32))))
        x.called_ae_title = title(s['called'])
        x.calling_ae_title = title(s['calling'])
        for i in s['items']:
            if i['t'] == 0x50:
                it = pdu.UserInformationItem([], reserved=i.get('r', 0))
                x.variable_items.append(it)
                for sub in i['sub']:
                    it.user_data.append(sub_to_lib(sub))
            elif i['t'] == 0x20:
                full = item_to_lib(i)
                ts = full.ts_sub_items
                full.ts_sub_items = []
                x.variable_items.append(full)
                for k in ts:
                    full.ts_sub_items.append(k)
            elif i['t'] == 0x10:
                it = pdu.ApplicationContextItem('1.2', reserved=i.get('r', 0))
                x.variable_items.append(it)
                it.context_name = txt(i['name'])
            else:
                x.variable_items.append(item_to_lib(i))
        return x
    if t == 4:
        x = pdu.PDataTfPDU([], reserved=s.get('r1', 0))
        for v in s['pdvs']:
            pv = pdu.PresentationDataValueItem(v['ctx'], b'')
            x.data_value_items.append(pv)
            pv.data_value = B(v['val'])
        return x
    if t == 3:
        x = pdu.AAssociateRjPDU(0, 0, 0, reserved1=s.get('r1', 0), reserved2=s.get('r2', 0))
        x.result, x.source, x.reason_diag = s['result'], s['source'], s['reason']
        return x
    if t == 7:
        x = pdu.AAbortPDU(0, 0, reserved1=s.get('r1', 0), reserved2=s.get('r2', 0), reserved3=s.get('r3', 0))
        x.source, x.reason_diag = s['source'], s['reason']
        return x
    return to_lib(s)


def to_lib_extended(s, ref_encode):
    """A received PDU that is extended and sent on (what an acceptor does with the user information of a request):
    the structure without its last user-information sub-item (or last presentation context / last PDV) is encoded
    by the reference, decoded by the library, completed through the public attributes.  None if s has nothing to drop."""
    import copy
    t = s['t']
    short = copy.deepcopy(s)
    if t in (1, 2):
        ui = [i for i in short['items'] if i['t'] == 0x50 and i['sub']]
        if not ui or short['items'][-1]['t'] != 0x50:
            return None
        last = ui[-1]['sub'].pop()
        if any(x['t'] in (0x57,) or x['t'] not in (0x51, 0x52, 0x53, 0x54, 0x55, 0x56, 0x58, 0x59) for x in ui[-1]['sub']):
            pass
        y = LIB_CLASS[t].decode(ref_encode(short))
        items = [i for i in y.variable_items if isinstance(i, pdu.UserInformationItem)]
        if not items:
            return None
        items[-1].user_data.append(sub_to_lib(last))
        return y
    if t == 4 and len(s['pdvs']) > 1:
        last = short['pdvs'].pop()
        y = pdu.PDataTfPDU.decode(ref_encode(short))
        y.data_value_items.append(pdu.PresentationDataValueItem(last['ctx'], B(last['val'])))
        return y
    return None


LIB_CLASS = {1: pdu.AAssociateRqPDU, 2: pdu.AAssociateAcPDU, 3: pdu.AAssociateRjPDU, 4: pdu.PDataTfPDU,
             5: pdu.AReleaseRqPDU, 6: pdu.AReleaseRpPDU, 7: pdu.AAbortPDU}


# ------------------------------------------------------------------ library objects -> structure

def sub_from_lib(o):
    t = o.item_type
    r = o.reserved
    if isinstance(o, ud.MaximumLengthSubItem):
        return {'t': t, 'r': r, 'max': int(o.maximum_length_received).to_bytes(4, 'big')}
    if isinstance(o, ud.ImplementationClassUIDSubItem):
        return {'t': t, 'r': r, 'uid': str(o.implementation_class_uid).encode('latin-1')}
    if isinstance(o, ud.ImplementationVersionNameSubItem):
        return {'t': t, 'r': r, 'name': o.implementation_version_name.encode('latin-1')}
    if isinstance(o, ud.AsynchronousOperationsWindowSubItem):
        return {'t': t, 'r': r, 'inv': o.max_num_ops_invoked, 'perf': o.max_num_ops_performed}
    if isinstance(o, ud.ScpScuRoleSelectionSubItem):
        return {'t': t, 'r': r, 'uid': str(o.sop_class_uid).encode('latin-1'), 'scu': o.scu_role, 'scp': o.scp_role}
    if isinstance(o, ud.SOPClassExtendedNegotiationSubItem):
        return {'t': t, 'r': r, 'uid': str(o.sop_class_uid).encode('latin-1'), 'info': bytes(o.app_info)}
    if isinstance(o, ud.UserIdentityNegotiationSubItem):
        return {'t': t, 'r': r, 'type': o.user_identity_type, 'resp': o.positive_response_req,
                'prim': o.primary_field.encode('utf8', 'surrogateescape'), 'sec': o.secondary_field.encode('utf8', 'surrogateescape')}
    if isinstance(o, ud.UserIdentityNegotiationSubItemAc):
        return {'t': t, 'r': r, 'rsp': o.server_response.encode('utf8', 'surrogateescape')}
    if isinstance(o, ud.GenericUserDataSubItem):
        return {'t': t, 'r': r, 'data': bytes(o.user_data)}
    # an item of another level returned where a sub-item was expected (e.g. swallowed successor)
    return {'t': getattr(o, 'item_type', -1), 'unexpected': type(o).__name__}


def item_from_lib(o):
    if isinstance(o, pdu.ApplicationContextItem):
        return {'t': 0x10, 'r': o.reserved, 'name': str(o.context_name).encode('latin-1')}
    if isinstance(o, pdu.PresentationContextItemRQ):
        a = o.abs_sub_item
        return {'t': 0x20, 'r1': o.reserved1, 'id': o.context_id, 'r2': o.reserved2, 'r3': o.reserved3, 'r4': o.reserved4,
                'sub': [{'t': 0x30, 'r': a.reserved, 'name': str(a.name).encode('latin-1')}] +
                       [{'t': 0x40, 'r': x.reserved, 'name': str(x.name).encode('latin-1')} for x in o.ts_sub_items]}
    if isinstance(o, pdu.PresentationContextItemAC):
        x = o.ts_sub_item
        return {'t': 0x21, 'r1': o.reserved1, 'id': o.context_id, 'r2': o.reserved2, 'res': o.result_reason, 'r3': o.reserved3,
                'sub': [{'t': 0x40, 'r': x.reserved, 'name': str(x.name).encode('latin-1')}]}
    if isinstance(o, pdu.UserInformationItem):
        return {'t': 0x50, 'r': o.reserved, 'sub': [sub_from_lib(x) for x in o.user_data]}
    return {'t': getattr(o, 'item_type', -1), 'unexpected': type(o).__name__}


def from_lib(o):
    t = o.pdu_type
    if t in (1, 2):
        return {'t': t, 'r1': o.reserved1, 'ver': o.protocol_version, 'r2': o.reserved2,
                'called': o.called_ae_title.encode('latin-1'), 'calling': o.calling_ae_title.encode('latin-1'),
                'r3': struct.pack('>8I', *o.reserved3), 'items': [item_from_lib(i) for i in o.variable_items]}
    if t == 3:
        return {'t': 3, 'r1': o.reserved1, 'r2': o.reserved2, 'result': o.result, 'source': o.source, 'reason': o.reason_diag}
    if t == 4:
        return {'t': 4, 'r1': o.reserved, 'pdvs': [{'ctx': v.context_id, 'val': bytes(v.data_value)} for v in o.data_value_items]}
    if t in (5, 6):
        return {'t': t, 'r1': o.reserved1, 'r2': int(o.reserved2).to_bytes(4, 'big')}
    if t == 7:
        return {'t': 7, 'r1': o.reserved1, 'r2': o.reserved2, 'r3': o.reserved3, 'source': o.source, 'reason': o.reason_diag}
    raise Machinery('unknown library PDU %r' % o)


def strip_titles(s):
    s = dict(s)
    if s.get('t') in (1, 2):
        s['called'] = B(s['called']).rstrip(b' \0')
        s['calling'] = B(s['calling']).rstrip(b' \0')
    return s


def from_ref(d):
    """wire_ref structure -> Wire.tla structure shape (they differ only in the PDU reserved byte name)."""
    d = dict(d)
    if d.get('t') == 4:
        d['r1'] = d.pop('r', 0)
    return d


# ------------------------------------------------------------------ deep comparison of library objects

def deep_eq(a, b, path='pdu'):
    """Recursive __dict__ comparison; returns the first difference as a string, or None."""
    if type(a) is not type(b) and not (isinstance(a, str) and isinstance(b, str)) and \
            not (isinstance(a, (list, tuple)) and isinstance(b, (list, tuple))):
        return '%s: %s vs %s' % (path, type(a).__name__, type(b).__name__)
    if isinstance(a, (list, tuple)):
        if len(a) != len(b):
            return '%s: %d elements vs %d (%s vs %s)' % (path, len(a), len(b), [type(x).__name__ for x in a], [type(x).__name__ for x in b])
        for i, (x, y) in enumerate(zip(a, b)):
            d = deep_eq(x, y, '%s[%d]' % (path, i))
            if d:
                return d
        return None
    if hasattr(a, '__dict__') and not isinstance(a, (str, bytes, int)):
        da, db = vars(a), vars(b)
        if set(da) != set(db):
            return '%s: attributes %s vs %s' % (path, sorted(da), sorted(db))
        for k in sorted(da):
            d = deep_eq(da[k], db[k], '%s.%s' % (path, k))
            if d:
                return d
        return None
    if a != b:
        return '%s: %r vs %r' % (path, a, b)
    return None


# ------------------------------------------------------------------ seeded random structures

def rand_text(rng, lo, hi, alphabet=b'0123456789.'):
    n = rng.choice([lo, hi, rng.randint(lo, hi)])
    return bytes(rng.choice(alphabet) for _ in range(n))


def rand_utf8(rng, hi, ascii_alphabet):
    """User names / passwords / Kerberos tickets are byte strings on the wire; as text they may hold characters of 1..4
    UTF-8 bytes each."""
    if rng.random() < 0.6:
        return rand_text(rng, 0, hi, ascii_alphabet)
    chars = 'a0\u00e9\u00fc\u00df\u0416\u4e2d\U0001f600'
    n = rng.choice([1, 2, hi // 4])
    return ''.join(rng.choice(chars) for _ in range(n)).encode('utf8')


def rand_int(rng, bits):
    top = (1 << bits) - 1
    return rng.choice([0, 1, top, top // 2, top // 2 + 1, rng.randint(0, top)])


def rand_ident(rng, hi, ascii_alphabet):
    """Identity material: text (ASCII / multi-byte UTF-8) or, one time in four, binary (a kerberos ticket)."""
    if rng.random() < 0.25:
        return bytes(rng.randrange(256) for _ in range(rng.randint(0, hi)))
    return rand_utf8(rng, hi, ascii_alphabet)


def rand_sub(rng):
    t = rng.choice([0x51, 0x52, 0x53, 0x54, 0x55, 0x56, 0x58, 0x59, 0x57, 0x60, 0xA0, 0x00, 0x59])
    r = rng.choice([0, 0, 0, 1, 255])
    if t == 0x51:
        return {'t': t, 'r': r, 'max': rand_int(rng, 32).to_bytes(4, 'big')}
    if t == 0x52:
        return {'t': t, 'r': r, 'uid': rand_text(rng, 0, 64)}
    if t == 0x55:
        return {'t': t, 'r': r, 'name': rand_text(rng, 0, 16, b'ABCxyz_-0189')}
    if t == 0x53:
        return {'t': t, 'r': r, 'inv': rand_int(rng, 16), 'perf': rand_int(rng, 16)}
    if t == 0x54:
        return {'t': t, 'r': r, 'uid': rand_text(rng, 0, 64), 'scu': rng.choice([0, 1, 255]), 'scp': rng.choice([0, 1, 255])}
    if t == 0x56:
        return {'t': t, 'r': r, 'uid': rand_text(rng, 0, 64), 'info': bytes(rng.randrange(256) for _ in range(rng.choice([0, 1, 2, 3, 9, 40])))}
    if t == 0x58:
        return {'t': t, 'r': r, 'type': rng.choice([1, 2, 3, 4, 5]), 'resp': rng.choice([0, 1]),
                'prim': rand_ident(rng, 30, b'userNAME09'), 'sec': rand_ident(rng, 30, b'pass!word')}
    if t == 0x59:
        return {'t': t, 'r': r, 'rsp': rand_ident(rng, 40, b'tokenTOKEN01')}      # a SAML response is UTF-8 text, a kerberos ticket is binary
    return {'t': t, 'r': r, 'data': bytes(rng.randrange(256) for _ in range(rng.choice([0, 1, 4, 33])))}


def rand_pdu(rng, big=False):
    t = rng.choice([1, 1, 2, 2, 3, 4, 4, 5, 6, 7])
    if t in (1, 2):
        items = []
        if rng.random() < 0.9:
            items.append({'t': 0x10, 'r': rng.choice([0, 0, 7]), 'name': rand_text(rng, 0, 64)})
        for _ in range(rng.choice([0, 1, 2, 5])):
            if t == 1:
                items.append({'t': 0x20, 'r1': rng.choice([0, 3]), 'id': rand_int(rng, 8), 'r2': rng.choice([0, 9]), 'r3': 0, 'r4': rng.choice([0, 255]),
                              'sub': [{'t': 0x30, 'r': 0, 'name': rand_text(rng, 0, 64)}] +
                                     [{'t': 0x40, 'r': rng.choice([0, 1]), 'name': rand_text(rng, 0, 64)} for _ in range(rng.choice([0, 1, 2, 4]))]})
            else:
                items.append({'t': 0x21, 'r1': 0, 'id': rand_int(rng, 8), 'r2': rng.choice([0, 9]), 'res': rng.choice([0, 1, 2, 3, 4, 255]), 'r3': rng.choice([0, 5]),
                              'sub': [{'t': 0x40, 'r': 0, 'name': rand_text(rng, 0, 64)}]})
        ui = {'t': 0x50, 'r': rng.choice([0, 0, 4]), 'sub': [rand_sub(rng) for _ in range(rng.choice([0, 1, 2, 3, 6]))]}
        pos = rng.choice([len(items), len(items), len(items), 0, 1])
        if rng.random() < 0.9:
            items.insert(min(pos, len(items)), ui)
        ta = rand_text(rng, 0, 16, b'ABCDEFGHIJ_9')
        tb = rand_text(rng, 0, 16, b'abcdefghij-0')
        return {'t': t, 'r1': rng.choice([0, 0, 255]), 'ver': rand_int(rng, 16), 'r2': rng.choice([0, 65535]),
                'called': ta, 'calling': tb, 'r3': bytes(rng.choice([0, 0, 0, 255, 17]) for _ in range(32)), 'items': items}
    if t == 3:
        return {'t': 3, 'r1': rng.choice([0, 1]), 'r2': rng.choice([0, 2]), 'result': rand_int(rng, 8), 'source': rand_int(rng, 8), 'reason': rand_int(rng, 8)}
    if t == 4:
        sizes = [0, 1, 2, 5, 255, 256, 1024] + ([65535, 65536, 65537, 70000] if big else [])
        return {'t': 4, 'r1': rng.choice([0, 0, 8]),
                'pdvs': [{'ctx': rand_int(rng, 8), 'val': bytes(rng.getrandbits(8) for _ in range(rng.choice(sizes)))}
                         for _ in range(rng.choice([1, 1, 2, 3, 5]))]}
    if t in (5, 6):
        return {'t': t, 'r1': rng.choice([0, 9]), 'r2': rand_int(rng, 32).to_bytes(4, 'big')}
    return {'t': 7, 'r1': rng.choice([0, 9]), 'r2': rng.choice([0, 1]), 'r3': rng.choice([0, 1]), 'source': rand_int(rng, 8), 'reason': rand_int(rng, 8)}


def to_tla_json(s):
    """Structure with bytes -> JSON-able (byte lists) for Trace_Wire."""
    if isinstance(s, (bytes, bytearray)):
        return list(s)
    if isinstance(s, dict):
        return {k: to_tla_json(v) for k, v in s.items()}
    if isinstance(s, list):
        return [to_tla_json(v) for v in s]
    return s
