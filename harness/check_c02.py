"""C02 - see harness/wirecheck.py and specs/Wire.tla, specs/Trace_Wire.tla."""
from __future__ import annotations

import sys

from . import wirecheck, wirelib as L
from .common import Verdict, main_wrapper


def main(tier='quick'):
    v = Verdict('C02', tier)
    cov = wirecheck.run('C02', tier, v)
    ev = {'tier': tier, 'level': 'model_checking', 'coverage': cov,
          'assumptions': ['PS3.8 9.3 / PS3.7 Annex D layouts transcribed into specs/Wire.tla; RoundTrip, TotalLength, LengthsExact '
                          'checked by TLC on every enumerated structure', 'AE-title padding (NUL/SPACE) is not significant']}
    return v.finish(ev)


def replay(doc):
    s = L.fix_empty(L.norm(doc['replay']['structure']))
    case, notes = wirecheck.exercise(s)
    verdicts, _ = wirecheck.judge([case])
    print('TLC verdict: %r notes: %r' % (verdicts[0], notes))
    mine = wirecheck.C01_CLAUSES if 'C02' == 'C01' else wirecheck.C02_CLAUSES
    return 1 if set(verdicts[0]) & mine else 0


if __name__ == '__main__':
    main_wrapper(lambda: main(sys.argv[1] if len(sys.argv) > 1 else 'quick'))
