"""Shared plumbing for every check: import hygiene, evidence, known findings, verdict protocol.

Exit codes (DESIGN.md section 8): 0 = held on everything explored, 1 = VIOLATION line printed,
2 = machinery failure (never a verdict).
"""
from __future__ import annotations

import json
import os
import shutil
import warnings
import sys
import time
import traceback

warnings.filterwarnings('ignore')
VERIF = os.path.dirname(os.path.dirname(os.path.abspath(__file__)))
REPO = os.environ.get('VERIF_REPO', '/repo')
SPECS = os.path.join(VERIF, 'specs')
EVIDENCE = os.environ.get('VERIF_EVIDENCE_DIR', os.path.join(VERIF, 'evidence'))
REPLAYS = os.environ.get('VERIF_REPLAYS_DIR', os.path.join(VERIF, 'replays'))
GUARD = 'PYNETDICOM2_VERIF'


class Machinery(Exception):
    """The framework itself failed (seam broken, TLC crashed...). Exit 2."""


def import_repo():
    """Put the repository first on sys.path and make sure it is the one imported."""
    os.environ.setdefault(GUARD, '1')
    if REPO not in sys.path:
        sys.path.insert(0, REPO)
    for name in list(sys.modules):
        if name == 'pynetdicom2' or name.startswith('pynetdicom2.'):
            mod = sys.modules[name]
            f = getattr(mod, '__file__', '') or ''
            if not f.startswith(REPO + os.sep):
                del sys.modules[name]
    import pynetdicom2  # noqa
    f = os.path.realpath(pynetdicom2.__file__)
    if not f.startswith(os.path.realpath(REPO) + os.sep):
        raise Machinery('pynetdicom2 imported from %s, not from %s' % (f, REPO))
    return pynetdicom2


def seed():
    try:
        return int(os.environ.get('VERIF_SEED', '0'))
    except ValueError:
        return 0


# ----------------------------------------------------------------------------- known findings

def load_known(prop):
    """Entries of known_findings.json for a property.  Read-only at run time."""
    path = os.path.join(VERIF, 'known_findings.json')
    try:
        with open(path) as fh:
            data = json.load(fh)
    except FileNotFoundError:
        return []
    return [e for e in data.get('findings', []) if e.get('property') == prop]


class Verdict(object):
    """Collects violations, matches them against known findings, prints the protocol lines."""

    def __init__(self, prop, tier):
        self.prop = prop
        self.tier = tier
        self.known = load_known(prop)
        self.hit = {}          # known-finding id -> count
        self.violations = []   # dicts not explained by a known finding
        self.t0 = time.time()
        shutil.rmtree(os.path.join(REPLAYS, prop), ignore_errors=True)

    def report(self, key, what, replay=None):
        """key: dict of identifying facts (site, input class...).  A known finding matches when
        every item of its 'match' dict equals the corresponding item of key."""
        for k in self.known:
            if k.get('status', 'open') != 'open':
                continue        # fixed entries suppress nothing
            m = k.get('match', {})
            if m and all(key.get(a) == b for a, b in m.items()):
                self.hit.setdefault(k['id'], [k, 0])[1] += 1
                return False
        self.violations.append({'key': key, 'what': what, 'replay': replay})
        return True

    def finish(self, evidence):
        for kid, (k, n) in sorted(self.hit.items()):
            print('KNOWN-FINDING: property=%s %s [%s, observed %d time(s)]' % (self.prop, k['what'], kid, n))
        evidence.setdefault('violations', len(self.violations))
        evidence['wall_s'] = round(time.time() - self.t0, 2)
        write_evidence(self.prop, evidence)
        if not self.violations:
            print('OK property=%s tier=%s wall=%.1fs' % (self.prop, self.tier, time.time() - self.t0))
            return 0
        os.makedirs(os.path.join(REPLAYS, self.prop), exist_ok=True)
        seen = 0
        for i, v in enumerate(self.violations[:20]):
            path = os.path.join(REPLAYS, self.prop, '%03d.json' % i)
            with open(path, 'w') as fh:
                json.dump({'property': self.prop, 'key': v['key'], 'what': v['what'], 'replay': v['replay']},
                          fh, indent=1, default=repr)
            print('VIOLATION property=%s replay=%s' % (self.prop, path))
            print('  ' + str(v['what'])[:600])
            seen += 1
        if len(self.violations) > seen:
            print('  ... and %d more' % (len(self.violations) - seen))
        hist = {}
        for x in self.violations:
            k = ' '.join('%s=%s' % (a, x['key'][a]) for a in sorted(x['key']) if a != 'site')
            hist[k] = hist.get(k, 0) + 1
        for k, n in sorted(hist.items(), key=lambda kv: -kv[1])[:25]:
            print('  SUMMARY %5d x %s' % (n, k))
        return 1


# ----------------------------------------------------------------------------- evidence

def write_evidence(prop, ev):
    os.makedirs(EVIDENCE, exist_ok=True)
    ev = dict(ev)
    ev.setdefault('property_id', prop)
    ev.setdefault('seed', seed())
    cov = ev.setdefault('coverage', {})
    if isinstance(cov.get('samples'), list):
        cov['samples'] = cov['samples'][:8]
    path = os.path.join(EVIDENCE, prop + '.json')
    tmp = path + '.tmp'
    with open(tmp, 'w') as fh:
        json.dump(ev, fh, indent=1, default=repr, sort_keys=True)
    os.replace(tmp, path)
    return path


def _leave(rc):
    """Exit NOW: threads of the code under test that never end (a provider left running by a defect is not a daemon
    thread) must not keep the check from returning its verdict."""
    try:
        sys.stdout.flush()
        sys.stderr.flush()
    finally:
        os._exit(rc if isinstance(rc, int) else (0 if rc is None else 1))


def main_wrapper(fn):
    """Run a check's main(); anything that is not a verdict is machinery failure (exit 2)."""
    try:
        rc = fn()
    except Machinery as exc:
        print('MACHINERY-FAILURE: %s' % exc)
        _leave(2)
    except SystemExit as exc:
        _leave(exc.code)
    except BaseException:  # noqa
        traceback.print_exc()
        print('MACHINERY-FAILURE: unexpected exception in the harness')
        _leave(2)
    _leave(rc)
