"""Structure-aware mutation of valid PDUs (C12).  Every mutator maps the bytes of one well-formed
PDU to a byte string; reframe() then says how a length-driven reader frames that string (which is
what the specification needs to know: frames, their kinds, what is left over)."""
from __future__ import annotations

import random
import struct

from . import wire_ref as W


def _set_len(b, n):
    return b[:2] + struct.pack('>I', n & 0xFFFFFFFF) + b[6:]


def item_length_fields(b):
    """Offsets of the 2-byte length fields of items / sub-items in an A-ASSOCIATE-RQ/AC (any nesting)."""
    out = []
    if b[0] not in (1, 2) or len(b) < 74:
        return out

    def walk(pos, end, depth):
        while pos + 4 <= end:
            t = b[pos]
            n = struct.unpack('>H', b[pos + 2:pos + 4])[0]
            out.append((pos + 2, t, depth))
            body = pos + 4
            if t in (0x20, 0x21) and body + 4 <= end:
                walk(body + 4, min(end, body + n), depth + 1)
            elif t == 0x50:
                walk(body, min(end, body + n), depth + 1)
            pos = body + n
    walk(74, len(b), 0)
    return out


def _append_sub_item(b, sub):
    """Append a user-information sub-item to an A-ASSOCIATE-RQ/AC whose last item is the user information item."""
    pos = 74
    last = None
    while pos + 4 <= len(b):
        n = struct.unpack('>H', b[pos + 2:pos + 4])[0]
        last = pos
        pos += 4 + n
    if last is None or b[last] != 0x50 or pos != len(b):
        return None
    n = struct.unpack('>H', b[last + 2:last + 4])[0]
    if n + len(sub) > 0xFFFF:
        return None
    out = b[:last + 2] + struct.pack('>H', n + len(sub)) + b[last + 4:] + sub
    return _set_len(out, len(out) - 6)


def sub_item_variants():
    """(name, bytes) of user-information sub-items: well-formed ones of every kind and ones whose inner length fields
    disagree with their content."""
    uid = b'1.2.840.10008.1.1'
    H = lambda n: struct.pack('>H', n)      # noqa
    yield 'async-ok', b'\x53\x00' + H(4) + H(1) + H(1)
    yield 'async-len-ffff', b'\x53\x00' + H(0xFFFF) + H(1) + H(1)
    yield 'async-len-0', b'\x53\x00' + H(0) + H(1) + H(1)
    yield 'async-len-6', b'\x53\x00' + H(6) + H(1) + H(1) + b'\0\0'
    yield 'maxlen-second', b'\x51\x00' + H(4) + struct.pack('>I', 7)
    yield 'maxlen-len-ffff', b'\x51\x00' + H(0xFFFF) + struct.pack('>I', 4096)
    yield 'role-ok', b'\x54\x00' + H(2 + len(uid) + 2) + H(len(uid)) + uid + b'\x01\x01'
    yield 'role-uidlen-over', b'\x54\x00' + H(2 + len(uid) + 2) + H(len(uid) + 40) + uid + b'\x01\x01'
    yield 'role-uidlen-0', b'\x54\x00' + H(2 + len(uid) + 2) + H(0) + uid + b'\x01\x01'
    yield 'role-roles-7-9', b'\x54\x00' + H(2 + len(uid) + 2) + H(len(uid)) + uid + b'\x07\x09'
    yield 'extneg-ok', b'\x56\x00' + H(2 + len(uid) + 3) + H(len(uid)) + uid + b'\x01\x02\x03'
    yield 'extneg-uidlen-over', b'\x56\x00' + H(2 + len(uid) + 3) + H(len(uid) + 9) + uid + b'\x01\x02\x03'
    yield 'extneg-empty-info', b'\x56\x00' + H(2 + len(uid)) + H(len(uid)) + uid
    yield 'identity-userpass', b'\x58\x00' + H(2 + 2 + 4 + 2 + 2) + b'\x02\x01' + H(4) + b'user' + H(2) + b'pw'
    yield 'identity-user', b'\x58\x00' + H(2 + 2 + 4 + 2) + b'\x01\x00' + H(4) + b'user' + H(0)
    yield 'identity-primary-over', b'\x58\x00' + H(2 + 2 + 4 + 2) + b'\x01\x00' + H(400) + b'user' + H(0)
    yield 'identity-secondary-over', b'\x58\x00' + H(2 + 2 + 4 + 2 + 2) + b'\x02\x01' + H(4) + b'user' + H(900) + b'pw'
    yield 'identity-type-9', b'\x58\x00' + H(2 + 2 + 4 + 2) + b'\x09\x00' + H(4) + b'user' + H(0)
    yield 'identity-nonascii', b'\x58\x00' + H(2 + 2 + 4 + 2) + b'\x01\x00' + H(4) + b'\xff\xfe\xfd\xfc' + H(0)
    yield 'identity-ac-in-rq', b'\x59\x00' + H(2 + 3) + H(3) + b'abc'
    yield 'version-ok', b'\x55\x00' + H(6) + b'VER_10'
    yield 'version-nonascii', b'\x55\x00' + H(6) + b'VER\xe9_1'
    yield 'version-utf8', b'\x55\x00' + H(7) + 'VERé_1'.encode('utf8')           # well-formed UTF-8, not ASCII
    yield 'classuid-utf8', b'\x52\x00' + H(6) + '1.é.3'.encode('utf8')
    yield 'role-uid-utf8', b'\x54\x00' + H(2 + 6 + 2) + H(6) + '1.é.3'.encode('utf8') + b'\x01\x01'
    yield 'version-empty', b'\x55\x00' + H(0)
    yield 'classuid-second', b'\x52\x00' + H(5) + b'1.2.3'
    yield 'classuid-nonascii', b'\x52\x00' + H(5) + b'1.\xe9.3'
    yield 'unknown-5f', b'\x5f\x00' + H(3) + b'abc'
    yield 'unknown-5f-empty', b'\x5f\x00' + H(0)
    yield 'unknown-00', b'\x00\x00' + H(2) + b'zz'
    yield 'unknown-len-over', b'\x5f\x00' + H(300) + b'abc'


def mutators(b, rng):
    """Yield (name, mutated bytes) for one valid PDU b."""
    n = len(b) - 6
    t = b[0]
    # --- truncation
    for k in (1, 2, n // 2, n - 1, n):
        if 0 < k <= n:
            yield 'trunc-nofix-%d' % k, b[:len(b) - k]
            yield 'trunc-fix-%d' % k, _set_len(b[:len(b) - k], n - k)
    yield 'header-only-5', b[:5]
    # --- PDU length field
    for name, val in (('len0', 0), ('len-short1', max(n - 1, 0)), ('len-half', n // 2), ('len-plus1', n + 1),
                      ('len-plus100', n + 100), ('len-max', 0xFFFFFFFF), ('len-2^31', 0x80000000)):
        yield 'pdu-' + name, _set_len(b, val)
    # --- type bytes
    for tb in (0x00, 0x08, 0x2A, 0xFF):
        yield 'type-%02x' % tb, bytes([tb]) + b[1:]
    # another valid type with this body
    for tb in (1, 2, 3, 4, 5, 6, 7):
        if tb != t:
            yield 'retype-%d' % tb, bytes([tb]) + b[1:]
    # --- items of association PDUs
    if t in (1, 2):
        for off, it, depth in item_length_fields(b):
            cur = struct.unpack('>H', b[off:off + 2])[0]
            for name, val in (('0', 0), ('m1', max(cur - 1, 0)), ('p1', cur + 1), ('p2', cur + 2), ('ffff', 0xFFFF)):
                yield 'item%02x@%d-len-%s' % (it, off, name), b[:off] + struct.pack('>H', val) + b[off + 2:]
            for tb in (0x00, 0x11, 0x5A, 0xFF):
                yield 'item%02x@%d-type-%02x' % (it, off, tb), b[:off - 2] + bytes([tb]) + b[off - 1:]
        # further user-information sub-items, well-formed and not (the accepting user echoes what it was indicated)
        for sname, sub in sub_item_variants():
            m = _append_sub_item(b, sub)
            if m is not None:
                yield 'ui-add-' + sname, m
        # non-ASCII text
        yield 'called-nonascii', b[:10] + b'\xff\xfe' + b[12:]
        yield 'calling-nonascii', b[:26] + b'\xc3\x28' + b[28:]
        yield 'called-utf8', b[:10] + 'é'.encode('utf-8') + b[12:]
        yield 'called-latin1-16', b[:10] + b'\xe9' * 16 + b[26:]
        yield 'calling-latin1', b[:26] + b'M\xfcller' + b[32:]
        yield 'uid-nonascii', b[:80] + b'\x80\x81' + b[82:]
        yield 'appctx-utf8', b[:80] + 'é'.encode('utf8') + b[82:]                   # application context name: valid UTF-8, not ASCII
        yield 'protocol-version-0', b[:6] + b'\0\0' + b[8:]
        yield 'no-items', _set_len(b[:74], 68)
        yield 'short-fixed-part', _set_len(b[:40], 34)
    # --- P-DATA-TF: PDV level
    if t == 4 and len(b) >= 12:
        pl = struct.unpack('>I', b[6:10])[0]
        for name, val in (('0', 0), ('1', 1), ('m1', max(pl - 1, 0)), ('p1', pl + 1), ('over', pl + 1000), ('max', 0xFFFFFFFF)):
            yield 'pdv-len-' + name, b[:6] + struct.pack('>I', val) + b[10:]
        for h in (0x04, 0x07, 0x80, 0xFF):
            yield 'pdv-ctrl-%02x' % h, b[:11] + bytes([h]) + b[12:]
        for ctx in (0, 2, 255):
            yield 'pdv-ctx-%d' % ctx, b[:10] + bytes([ctx]) + b[11:]
        body = b[12:]
        yield 'cmd-garbage', _fix_pd(b[:11] + b'\x03' + bytes(rng.randrange(256) for _ in range(max(len(body), 8))))
        yield 'cmd-incomplete-flagged-last', _fix_pd(b[:11] + b'\x03' + body[:max(len(body) // 2, 1)])
        yield 'cmd-empty-last', _fix_pd(b[:11] + b'\x03')
        yield 'cmd-empty-notlast', _fix_pd(b[:11] + b'\x01')
        yield 'data-empty-last', _fix_pd(b[:11] + b'\x02')
        yield 'pdv-empty', _set_len(b[:6] + struct.pack('>I', 1) + b[10:11], 5)
        yield 'no-pdv', _set_len(b[:6], 0)
        # unknown command field / missing data-set-type: edit the element values in place
        i = body.find(b'\x00\x00\x00\x01\x02\x00\x00\x00')
        if i >= 0:
            yield 'cmd-unknown-command-field', b[:12 + i + 8] + b'\x77\x77' + b[12 + i + 10:]
        j = body.find(b'\x00\x00\x00\x08\x02\x00\x00\x00')
        if j >= 0:
            yield 'cmd-no-dataset-type', b[:12 + j] + b'\x00\x00\x01\x08' + b[12 + j + 4:]
            yield 'cmd-odd-length', b[:12 + j + 4] + b'\x03\x00\x00\x00' + b[12 + j + 8:]
    # --- short fixed PDUs
    if t in (3, 5, 6, 7):
        yield 'fixed-len-3', _set_len(b[:9], 3)
        yield 'fixed-len-5', _set_len(b + b'\0', 5)
        yield 'fixed-len-0', _set_len(b[:6], 0)
    # --- bit flips
    for i in range(12):
        pos = rng.randrange(len(b))
        bit = 1 << rng.randrange(8)
        yield 'bitflip@%d/%02x' % (pos, bit), b[:pos] + bytes([b[pos] ^ bit]) + b[pos + 1:]
    # --- random bytes
    for i in range(4):
        ln = rng.choice([0, 1, 5, 6, 7, 16, 80])
        yield 'random-%d' % i, bytes(rng.randrange(256) for _ in range(ln))
    body = bytes(rng.randrange(256) for _ in range(20))
    yield 'random-framed', struct.pack('>BBI', rng.choice([1, 2, 3, 4, 5, 6, 7]), 0, 20) + body


def _fix_pd(b):
    """Make PDV length and PDU length consistent with the bytes present."""
    val = b[10:]
    return b[:2] + struct.pack('>I', 4 + len(val)) + struct.pack('>I', len(val)) + val


def reframe(orig_rec, orig, mutated):
    """How a length-driven reader frames `mutated`: list of (abstract frame or None, bytes).
    Frames are grey (their content may or may not decode) unless the bytes are unchanged."""
    if mutated == orig:
        return [(orig_rec, orig)]
    pdus, rest = W.split_stream(mutated)
    out = []
    for one in pdus:
        k = W.kind_of(one)
        f = []
        if k == 'AB' and len(one) >= 10:
            f = [one[8], one[9]]
        elif k == 'RJ' and len(one) >= 10:
            f = [one[7], one[8], one[9]]
        out.append(({'k': k, 'f': f, 'pdvs': [], 'len': len(one), 'grey': k != 'UNK'}, one))
    if rest:
        out.append((None, rest))
    return out
