"""Reference codec for PS3.8 section 9.3 / PS3.7 Annex D, independent of pynetdicom2/pdu.py.

Strictly LENGTH-DRIVEN: every item is cut out of its parent by its own length field before its
content is looked at; unknown user-information sub-items are kept as opaque (type, data).
The layout is the one written in specs/Wire.tla; `check_against_tla` (used by the C01/C02 checks)
compares this interpreter with TLC's own Enc on every vector TLC enumerates, so this file is not an
independent point of trust.

Structures are plain dicts (JSON-able when bytes are hex-encoded with to_json).
"""
from __future__ import annotations

import struct


class WireError(Exception):
    pass


def _need(cond, msg):
    if not cond:
        raise WireError(msg)


# ------------------------------------------------------------------ encode

def enc_text(s):
    return s if isinstance(s, bytes) else s.encode('latin-1')


def enc_subitem(it):
    t = it['t']
    if t == 0x51:
        body = it['max'] if isinstance(it['max'], (bytes, bytearray)) else struct.pack('>I', it['max'])
    elif t == 0x52:
        body = enc_text(it['uid'])
    elif t == 0x55:
        body = enc_text(it['name'])
    elif t == 0x53:
        body = struct.pack('>HH', it['inv'], it['perf'])
    elif t == 0x54:
        u = enc_text(it['uid'])
        body = struct.pack('>H', len(u)) + u + struct.pack('BB', it['scu'], it['scp'])
    elif t == 0x56:
        u = enc_text(it['uid'])
        body = struct.pack('>H', len(u)) + u + it['info']
    elif t == 0x58:
        p, s = it['prim'], it['sec']
        body = struct.pack('>BBH', it['type'], it['resp'], len(p)) + p + struct.pack('>H', len(s)) + s
    elif t == 0x59:
        r = it['rsp']
        body = struct.pack('>H', len(r)) + r
    else:
        body = it['data']
    return struct.pack('>BBH', t, it.get('r', 0), len(body)) + body


def enc_item(it):
    t = it['t']
    if t == 0x10:
        body = enc_text(it['name'])
        r = it.get('r', 0)
    elif t == 0x20:
        body = struct.pack('BBBB', it['id'], it.get('r2', 0), it.get('r3', 0), it.get('r4', 0))
        body += b''.join(enc_item(s) for s in it['sub'])
        r = it.get('r1', 0)
    elif t == 0x21:
        body = struct.pack('BBBB', it['id'], it.get('r2', 0), it['res'], it.get('r3', 0))
        body += b''.join(enc_item(s) for s in it['sub'])
        r = it.get('r1', 0)
    elif t in (0x30, 0x40):
        body = enc_text(it['name'])
        r = it.get('r', 0)
    elif t == 0x50:
        body = b''.join(enc_subitem(s) for s in it['sub'])
        r = it.get('r', 0)
    else:
        body = it['data']
        r = it.get('r', 0)
    return struct.pack('>BBH', t, r, len(body)) + body


def pad16(s):
    b = enc_text(s)
    _need(len(b) <= 16, 'AE title too long')
    return b + b' ' * (16 - len(b))


def enc_pdu(p, title_pad=b' '):
    t = p['t']
    if t in (1, 2):
        called, calling = enc_text(p['called']), enc_text(p['calling'])
        body = struct.pack('>HH', p.get('ver', 1), p.get('r2', 0))
        body += called + title_pad * (16 - len(called)) + calling + title_pad * (16 - len(calling))
        body += p.get('r3', b'\0' * 32)
        body += b''.join(enc_item(i) for i in p['items'])
    elif t == 3:
        body = struct.pack('BBBB', p.get('r2', 0), p['result'], p['source'], p['reason'])
    elif t == 4:
        body = b''.join(struct.pack('>IB', len(v['val']) + 1, v['ctx']) + v['val'] for v in p['pdvs'])
    elif t in (5, 6):
        body = p.get('r2', b'\0\0\0\0')
    elif t == 7:
        body = struct.pack('BBBB', p.get('r2', 0), p.get('r3', 0), p['source'], p['reason'])
    else:
        body = p['data']
    return struct.pack('>BBI', t, p.get('r1', p.get('r', 0)), len(body)) + body


# ------------------------------------------------------------------ decode (length-driven)

def _cut(buf, pos, hdr, what):
    """Read a (type, reserved, length16) header at pos, return (type, reserved, body, newpos)."""
    _need(pos + 4 <= len(buf), '%s: truncated header' % what)
    t, r, n = struct.unpack('>BBH', buf[pos:pos + 4])
    _need(pos + 4 + n <= len(buf), '%s: length %d runs past its parent' % (what, n))
    return t, r, buf[pos + 4:pos + 4 + n], pos + 4 + n


def dec_subitem(t, r, body):
    if t == 0x51:
        _need(len(body) == 4, 'max-length sub-item length')
        return {'t': t, 'r': r, 'max': body}
    if t == 0x52:
        return {'t': t, 'r': r, 'uid': body}
    if t == 0x55:
        return {'t': t, 'r': r, 'name': body}
    if t == 0x53:
        _need(len(body) == 4, 'async sub-item length')
        a, b = struct.unpack('>HH', body)
        return {'t': t, 'r': r, 'inv': a, 'perf': b}
    if t == 0x54:
        _need(len(body) >= 4, 'role sub-item short')
        n = struct.unpack('>H', body[:2])[0]
        _need(len(body) == 2 + n + 2, 'role sub-item uid length')
        return {'t': t, 'r': r, 'uid': body[2:2 + n], 'scu': body[2 + n], 'scp': body[3 + n]}
    if t == 0x56:
        _need(len(body) >= 2, 'ext-neg sub-item short')
        n = struct.unpack('>H', body[:2])[0]
        _need(len(body) >= 2 + n, 'ext-neg uid length')
        return {'t': t, 'r': r, 'uid': body[2:2 + n], 'info': body[2 + n:]}
    if t == 0x58:
        _need(len(body) >= 6, 'user-identity short')
        ty, rs, n = struct.unpack('>BBH', body[:4])
        _need(len(body) >= 4 + n + 2, 'user-identity primary length')
        m = struct.unpack('>H', body[4 + n:6 + n])[0]
        _need(len(body) == 6 + n + m, 'user-identity secondary length')
        return {'t': t, 'r': r, 'type': ty, 'resp': rs, 'prim': body[4:4 + n], 'sec': body[6 + n:6 + n + m]}
    if t == 0x59:
        _need(len(body) >= 2, 'user-identity-ac short')
        n = struct.unpack('>H', body[:2])[0]
        _need(len(body) == 2 + n, 'user-identity-ac length')
        return {'t': t, 'r': r, 'rsp': body[2:]}
    return {'t': t, 'r': r, 'data': body}


def dec_items(buf, what, sub=False):
    out, pos = [], 0
    while pos < len(buf):
        t, r, body, pos = _cut(buf, pos, None, what)
        if sub:
            out.append(dec_subitem(t, r, body))
        elif t == 0x10:
            out.append({'t': t, 'r': r, 'name': body})
        elif t in (0x30, 0x40):
            out.append({'t': t, 'r': r, 'name': body})
        elif t == 0x20:
            _need(len(body) >= 4, 'pc-rq short')
            out.append({'t': t, 'r1': r, 'id': body[0], 'r2': body[1], 'r3': body[2], 'r4': body[3],
                        'sub': dec_items(body[4:], 'pc-rq sub-items')})
        elif t == 0x21:
            _need(len(body) >= 4, 'pc-ac short')
            out.append({'t': t, 'r1': r, 'id': body[0], 'r2': body[1], 'res': body[2], 'r3': body[3],
                        'sub': dec_items(body[4:], 'pc-ac sub-items')})
        elif t == 0x50:
            out.append({'t': t, 'r': r, 'sub': dec_items(body, 'user-info sub-items', sub=True)})
        else:
            out.append({'t': t, 'r': r, 'data': body})
    return out


def dec_pdu(buf):
    """Decode exactly one PDU occupying the whole of buf."""
    _need(len(buf) >= 6, 'PDU header truncated')
    t, r, n = struct.unpack('>BBI', buf[:6])
    _need(len(buf) == 6 + n, 'PDU length %d but %d bytes follow' % (n, len(buf) - 6))
    body = buf[6:]
    if t in (1, 2):
        _need(n >= 68, 'associate PDU too short')
        ver, r2 = struct.unpack('>HH', body[:4])
        return {'t': t, 'r1': r, 'ver': ver, 'r2': r2, 'called': body[4:20], 'calling': body[20:36],
                'r3': body[36:68], 'items': dec_items(body[68:], 'associate items')}
    if t == 3:
        _need(n == 4, 'RJ length')
        return {'t': t, 'r1': r, 'r2': body[0], 'result': body[1], 'source': body[2], 'reason': body[3]}
    if t == 4:
        pdvs, pos = [], 0
        while pos < len(body):
            _need(pos + 4 <= len(body), 'PDV header truncated')
            ln = struct.unpack('>I', body[pos:pos + 4])[0]
            _need(ln >= 1, 'PDV length 0 (no room for the context id)')
            _need(pos + 4 + ln <= len(body), 'PDV runs past the PDU')
            pdvs.append({'ctx': body[pos + 4], 'val': body[pos + 5:pos + 4 + ln]})
            pos += 4 + ln
        return {'t': t, 'r1': r, 'pdvs': pdvs}
    if t in (5, 6):
        _need(n == 4, 'release length')
        return {'t': t, 'r1': r, 'r2': body}
    if t == 7:
        _need(n == 4, 'abort length')
        return {'t': t, 'r1': r, 'r2': body[0], 'r3': body[1], 'source': body[2], 'reason': body[3]}
    return {'t': t, 'r1': r, 'data': body}


def split_stream(buf):
    """Frame a byte stream by the 6-byte headers.  Returns (list of whole PDUs as bytes, remainder)."""
    out, pos = [], 0
    while len(buf) - pos >= 6:
        n = struct.unpack('>I', buf[pos + 2:pos + 6])[0]
        if len(buf) - pos < 6 + n:
            break
        out.append(bytes(buf[pos:pos + 6 + n]))
        pos += 6 + n
    return out, bytes(buf[pos:])


KIND = {1: 'RQ', 2: 'AC', 3: 'RJ', 4: 'PD', 5: 'RLRQ', 6: 'RLRP', 7: 'AB'}


def kind_of(buf):
    return KIND.get(buf[0], 'UNK')


def to_json(x):
    if isinstance(x, (bytes, bytearray)):
        return {'hex': bytes(x).hex()}
    if isinstance(x, dict):
        return {k: to_json(v) for k, v in x.items()}
    if isinstance(x, (list, tuple)):
        return [to_json(v) for v in x]
    return x
