"""Running the real negotiation code (AssociationAcceptor.accept, AssociationRequester._request,
Association.send after negotiation) on recording stubs, and projecting what it did into the
vocabulary of specs/Negotiation.tla."""
from __future__ import annotations

import struct

from .common import import_repo, Machinery
from . import wire_ref as W, dimselib as D

import_repo()
from pynetdicom2 import asceprovider, applicationentity, pdu, exceptions, dimsemessages as dm  # noqa: E402

AS_UID = {'S1': '1.2.840.10008.1.1', 'S2': '1.2.840.10008.5.1.4.1.1.7', 'S3': '1.2.840.10008.5.1.4.1.2.1.1', 'U': '1.2.3.4.5.999'}
TS_UID = {'T1': '1.2.840.10008.1.2', 'T2': '1.2.840.10008.1.2.1', 'T3': '1.2.840.10008.1.2.2', 'T4': '1.2.840.10008.1.2.4.50'}
APP_CTX = '1.2.840.10008.3.1.1.1'


def limbs(n):
    return [(n >> 16) & 0xFFFF, n & 0xFFFF]


class Recorder(object):
    """A service callable that records how it was invoked."""

    def __init__(self, sop_classes):
        self.sop_classes = list(sop_classes)
        self.calls = []

    def __call__(self, asce, ctx, msg, *a):
        self.calls.append((ctx, msg))


_AE_CACHE = {}


def server_ae(served, supported, max_len=65536):
    key = (tuple(served), tuple(supported), max_len)
    if key in _AE_CACHE:
        ae, rec = _AE_CACHE[key]
        rec.calls = []
        return ae, rec
    ae = applicationentity.AE('SCP', 0, supported_ts=list(supported), max_pdu_length=max_len, bind_and_activate=False)
    try:
        ae.server_close()
    except Exception:      # noqa
        pass
    rec = Recorder(served)
    if served:
        ae.add_scp(rec)
    _AE_CACHE[key] = (ae, rec)
    return ae, rec


class History(object):
    """ONE application entity whose configuration grows between associations: every add() registers one more service;
    all of them record into .calls."""

    def __init__(self, supported, max_len=65536):
        self.ae = applicationentity.AE('SCP', 0, supported_ts=list(supported), max_pdu_length=max_len, bind_and_activate=False)
        try:
            self.ae.server_close()
        except Exception:      # noqa
            pass
        self.calls = []
        self.served = []

    def add(self, classes):
        hist = self

        class _Svc(object):
            sop_classes = list(classes)

            def __call__(self, asce, ctx, msg, *a):
                hist.calls.append((ctx, msg))
        self.ae.add_scp(_Svc())
        self.served.extend(classes)


def rq_bytes(called, calling, ctxs, max_len=16384, appctx=APP_CTX, user_first=None):
    items = [{'t': 0x10, 'name': appctx.encode()}]
    for c in ctxs:
        items.append({'t': 0x20, 'id': c['id'], 'sub': [{'t': 0x30, 'name': c['as'].encode()}] +
                                                        [{'t': 0x40, 'name': t.encode()} for t in c['ts']]})
    subs = [{'t': 0x51, 'max': max_len}, {'t': 0x52, 'uid': b'1.2.3.999'}]
    if user_first:
        subs = [subs[1], subs[0]]
    items.append({'t': 0x50, 'sub': subs})
    return W.enc_pdu({'t': 1, 'called': called.encode(), 'calling': calling.encode(), 'items': items})


def bare_acceptor(ae, max_len):
    a = asceprovider.AssociationAcceptor.__new__(asceprovider.AssociationAcceptor)
    a.ae = ae
    a.dul = D.RecordingDul()
    a.association_established = False
    a.max_pdu_length = max_len
    a.accepted_contexts = {}
    a.is_killed = False
    a.sop_classes_as_scp = {}
    a.remote_ae = b''
    return a


def project_ac(ac_pdu):
    """A-ASSOCIATE-AC handed to the provider -> (dict for the spec, max announced)."""
    b = ac_pdu.encode()
    d = W.dec_pdu(b)
    if d['t'] != 2:
        raise Machinery('accept() did not send an A-ASSOCIATE-AC')
    ctxs, appctx, ann = [], None, None
    for it in d['items']:
        if it['t'] == 0x10:
            appctx = it['name'].decode('latin-1')
        elif it['t'] == 0x21:
            ts = it['sub'][0]['name'].decode('latin-1') if it['sub'] else ''
            ctxs.append({'id': it['id'], 'res': it['res'], 'ts': ts})
        elif it['t'] == 0x50:
            for s in it['sub']:
                if s['t'] == 0x51:
                    ann = int.from_bytes(s['max'], 'big')
    return {'called': d['called'].rstrip(b' \0').decode('latin-1'), 'calling': d['calling'].rstrip(b' \0').decode('latin-1'),
            'appctx': appctx, 'ctxs': ctxs}, ann


class HandlerSocket(object):
    """What StreamRequestHandler.setup()/finish() need from the connection."""

    def makefile(self, *a, **k):
        import io
        return io.BytesIO()

    def settimeout(self, t):
        pass

    def setsockopt(self, *a):
        pass

    def sendall(self, b):
        pass

    def close(self):
        pass

    def shutdown(self, how):
        pass


class _DulFactory(object):
    """Stands for dulprovider.DULServiceProvider while a real AssociationAcceptor is constructed:
    the whole handler (setup, handle = _establish + _loop, finish) then runs synchronously."""
    current = None

    def __init__(self, replies):
        self.replies = replies
        self.made = []

    def __call__(self, store_in_file, get_file_cb, dul_socket=None, max_pdu_length=65536):
        d = ScriptedDul(self.replies)
        d.max_pdu_length = max_pdu_length
        d.store_in_file = store_in_file
        self.made.append(d)
        return d


def run_handler(ae, own_max, replies):
    """Construct a REAL AssociationAcceptor (its __init__ runs the whole handler).  Returns
    (acceptor or None, dul, exception or None)."""
    import types
    fac = _DulFactory(replies)
    saved = (asceprovider.dulprovider, asceprovider.time)
    captured = []
    orig_hook = ae.on_association_request

    def hook(asce, assoc):
        captured.append(asce)
        return orig_hook(asce, assoc)
    ae.on_association_request = hook
    asceprovider.dulprovider = types.SimpleNamespace(DULServiceProvider=fac)
    asceprovider.time = types.SimpleNamespace(sleep=lambda t: None, time=saved[1].time)
    exc = None
    acc = None
    try:
        acc = asceprovider.AssociationAcceptor(HandlerSocket(), ('peer', 1), ae, own_max)
    except Exception as e:         # noqa  (ClassNotSupportedError etc. propagate out of handle())
        exc = e
    finally:
        asceprovider.dulprovider, asceprovider.time = saved
        del ae.on_association_request
    if acc is None and captured:
        acc = captured[0]
    return acc, (fac.made[0] if fac.made else None), exc


def run_accept(cfg, rq, own_max=65536, peer_max=16384, user_first=False, probe=None, entity=None):
    """cfg/rq in spec vocabulary but with real UIDs.  One real association (constructor + handler) gives
    the answer and the tables; one more per probed context shows what _loop dispatches.
    Returns (ans dict, acceptor, announced max, notes)."""
    if entity is not None:
        ae, rec = entity.ae, entity          # an entity with a history (its current configuration is what cfg says)
    else:
        ae, rec = server_ae(cfg['served'], cfg['supported'], own_max)
    req_bytes = rq_bytes(rq['called'], rq['calling'], rq['ctxs'], peer_max, rq['appctx'], user_first)
    acc, dul, exc = run_handler(ae, own_max, [pdu.AAssociateRqPDU.decode(req_bytes)])
    if acc is None or not dul.sent:
        raise exc or Machinery('the handler did not answer the request')
    ac = dul.sent[0][0]
    ans, ann = project_ac(ac)
    ans['routing'] = [{'id': k, 'as': str(v[1]), 'ts': str(v[2])} for k, v in sorted(acc.sop_classes_as_scp.items())]
    notes = {}
    r2 = [{'id': k, 'as': str(v.sop_class), 'ts': str(v.supported_ts)} for k, v in sorted(acc.accepted_contexts.items())]
    if r2 != ans['routing']:
        notes['tables_disagree'] = (ans['routing'], r2)
    if dict(dul.accepted_contexts) != dict(acc.accepted_contexts):
        notes['provider_table_differs'] = True
    # dispatch: one message per probed context id through the real handler of a fresh association
    disp = []
    ctxs = rq['ctxs'] if probe is None else [rq['ctxs'][i] for i in probe]
    for c in ctxs:
        rec.calls = []
        msg = dm.CEchoRQMessage()
        msg.sop_class_uid = c['as']
        msg.message_id = 7
        acc2, dul2, exc2 = run_handler(ae, own_max, [pdu.AAssociateRqPDU.decode(req_bytes), (msg, c['id'])])
        served, ts, sop = False, '', ''
        if exc2 is not None and not isinstance(exc2, exceptions.ClassNotSupportedError):
            notes['dispatch_raised'] = '%s: %s' % (type(exc2).__name__, exc2)
        if rec.calls:
            served = True
            ctx = rec.calls[0][0]
            ts, sop = str(ctx.supported_ts), str(ctx.sop_class)
            if ctx.id != c['id']:
                notes['dispatch_ctx_id'] = (ctx.id, c['id'])
        disp.append({'id': c['id'], 'served': served, 'as': sop if served else c['as'], 'ts': ts})
    ans['dispatch'] = disp
    # the same probes as successive requests of ONE association: each must be dispatched on the context it arrived on
    served_ctxs = [c for c, dsp in zip(ctxs, disp) if dsp['served']]
    if len(served_ctxs) > 1:
        rec.calls = []
        script = [pdu.AAssociateRqPDU.decode(req_bytes)]
        for c in served_ctxs:
            msg = dm.CEchoRQMessage()
            msg.sop_class_uid = c['as']
            msg.message_id = 7
            script.append((msg, c['id']))
        run_handler(ae, own_max, script)
        got = [call[0].id for call in rec.calls]
        want = [c['id'] for c in served_ctxs]
        if got != want:
            notes['dispatch_in_sequence'] = (got, want)
        else:
            for call, c, dsp in zip(rec.calls, served_ctxs, [x for x in disp if x['served']]):
                if str(call[0].supported_ts) != dsp['ts'] or str(call[0].sop_class) != dsp['as']:
                    notes['dispatch_in_sequence'] = ((call[0].id, str(call[0].sop_class), str(call[0].supported_ts)), (c['id'], dsp['as'], dsp['ts']))
    return ans, acc, ann, notes


class ScriptedDul(D.RecordingDul):
    def __init__(self, replies):
        super(ScriptedDul, self).__init__()
        self.replies = list(replies)

    def receive(self, timeout=None):
        if not self.replies:
            raise exceptions.DCMTimeoutError()
        return self.replies.pop(0)

    def stop(self):
        return True

    def kill(self):
        self.killed = True


def bare_requester(ae, max_len, remote, replies):
    """A REAL AssociationRequester (its own constructor runs: per-association state is whatever the library sets up)
    whose provider is the scripted one."""
    import types
    fac = _DulFactory(replies)
    saved = asceprovider.dulprovider
    asceprovider.dulprovider = types.SimpleNamespace(DULServiceProvider=fac)
    try:
        r = asceprovider.AssociationRequester(ae, max_len, remote)
    finally:
        asceprovider.dulprovider = saved
    if not fac.made:
        raise Machinery('seam broken: AssociationRequester did not create its provider through dulprovider.DULServiceProvider')
    return r


def ac_bytes(called, calling, ctxs, max_len, appctx=APP_CTX):
    items = [{'t': 0x10, 'name': appctx.encode()}]
    for c in ctxs:
        items.append({'t': 0x21, 'id': c['id'], 'res': c['res'], 'sub': [{'t': 0x40, 'name': c['ts'].encode()}]})
    items.append({'t': 0x50, 'sub': [{'t': 0x51, 'max': max_len}, {'t': 0x52, 'uid': b'1.2.3.999'}]})
    return W.enc_pdu({'t': 2, 'called': called.encode(), 'calling': calling.encode(), 'items': items})


def project_rq(rq_pdu):
    """A-ASSOCIATE-RQ handed to the provider -> dict for the spec.  Falls back to the object's
    attributes when it cannot even be encoded (context ids beyond one byte)."""
    try:
        d = W.dec_pdu(rq_pdu.encode())
        ctxs, appctx, mx = [], None, None
        for it in d['items']:
            if it['t'] == 0x10:
                appctx = it['name'].decode('latin-1')
            elif it['t'] == 0x20:
                ctxs.append({'id': it['id'], 'as': it['sub'][0]['name'].decode('latin-1'),
                             'ts': [s['name'].decode('latin-1') for s in it['sub'][1:]]})
            elif it['t'] == 0x50:
                for s in it['sub']:
                    if s['t'] == 0x51:
                        mx = int.from_bytes(s['max'], 'big')
        return {'called': d['called'].rstrip(b' \0').decode('latin-1'), 'calling': d['calling'].rstrip(b' \0').decode('latin-1'),
                'appctx': appctx, 'max': limbs(mx if mx is not None else 0), 'ctxs': ctxs}, None
    except (struct.error, W.WireError, OverflowError) as exc:
        ctxs, appctx, mx = [], None, 0
        for it in rq_pdu.variable_items:
            if isinstance(it, pdu.ApplicationContextItem):
                appctx = str(it.context_name)
            elif isinstance(it, pdu.PresentationContextItemRQ):
                ctxs.append({'id': it.context_id, 'as': str(it.abs_sub_item.name), 'ts': [str(t.name) for t in it.ts_sub_items]})
            elif isinstance(it, pdu.UserInformationItem):
                mx = it.user_data[0].maximum_length_received
        return {'called': rq_pdu.called_ae_title, 'calling': rq_pdu.calling_ae_title, 'appctx': appctx, 'max': limbs(mx), 'ctxs': ctxs}, \
            'the request cannot be encoded: %s: %s' % (type(exc).__name__, exc)


def send_after_negotiation(assoc, sizes, rng, ctx=1):
    """Send messages with data sets of the given sizes; returns (pdu lengths as limbs, delivered?)."""
    lens, delivered = [], True
    seen = {}
    for ln in list(sizes) + [s for s in sizes if s]:       # every non-empty size twice: once as bytes, once as file
        msg = D.fill(dm.CStoreRQMessage(), rng, uid_len=20)
        data = bytes((i * 31 + ln) % 251 for i in range(ln)) if ln else None
        if data:
            # alternately as bytes and as a seekable file (the two fragmenters of dimsemessages.py)
            import io
            as_file = seen.get(ln, False)
            seen[ln] = True
            msg.data_set = io.BytesIO(data) if as_file else data
        n0 = len(assoc.dul.sent)
        try:
            assoc.send(msg, ctx)
        except Exception as exc:       # noqa
            return lens, False, 'send raised %s: %s' % (type(exc).__name__, exc)
        pdus = assoc.dul.sent[n0] if len(assoc.dul.sent) > n0 else []
        cmd, dat = b'', b''
        flags = {True: [], False: []}          # last-fragment flags of the command / data stream, in order
        for p in pdus:
            declared, pdvs, total = D.parse_pdata(p)
            lens.append(limbs(declared))
            for c, h, payload in pdvs:
                flags[bool(h & 1)].append(bool(h & 2))
                if h & 1:
                    cmd += payload
                else:
                    dat += payload
        # "able to send": the peer's reassembler must see the whole message and its end
        complete = flags[True][-1:] == [True] and not any(flags[True][:-1]) and \
            ((not data and not flags[False]) or (flags[False][-1:] == [True] and not any(flags[False][:-1])))
        if dat != (data or b'') or not cmd or not complete:
            delivered = False
    return lens, delivered, None
