"""Corpus of acceptor- and requestor-side conversations for the S1 substrate, and an executor that
plays one under a delivery schedule (how the peer's bytes are cut into segments), an optional
disconnection point and optional byte-level mutation of one peer PDU.

A script is a list of ops:
  ('P', [spec, ...])   the peer writes these PDUs back to back (spec = (kind, args...) see mk())
  ('U', kind, f)       the local user issues a primitive
  ('G', n)             the local user sends a message of n P-DATA fragments
  ('FIN',)             the peer closes
  ('TICK',)            time passes beyond the ARTIM limit
"""
from __future__ import annotations

from .ulrun import Run, frame, MsgPlan


def mk(spec, ids):
    """Turn a peer PDU spec into (abstract frame, bytes) list."""
    kind = spec[0]
    if kind == 'MSG':                 # ('MSG', nc, nd, grouping) grouping: list of PDV counts per PDU
        _, nc, nd, grouping = spec
        ids['m'] += 1
        m = MsgPlan(ids['m'], nc=nc, nd=nd)
        out, i = [], 0
        for g in grouping:
            part = m.pdvs[i:i + g]
            i += g
            out.append(frame('PD', pdvs=[(fl, m.m, v, 1) for fl, v in part]))
        assert i == len(m.pdvs), 'grouping does not cover the message'
        return out
    if kind == 'MSGA':                # ('MSGA', nc, nd, grouping, k): the first k PDUs of a message ...
        _, nc, nd, grouping, k = spec
        ids['m'] += 1
        m = MsgPlan(ids['m'], nc=nc, nd=nd)
        out, i = [], 0
        for g in grouping:
            part = m.pdvs[i:i + g]
            i += g
            out.append(frame('PD', pdvs=[(fl, m.m, v, 1) for fl, v in part]))
        ids['rest'] = out[k:]
        return out[:k]
    if kind == 'MSGB':                # ... ('MSGB',): the rest of it, later
        rest = ids.get('rest') or []
        ids['rest'] = []
        return rest
    if kind in ('RJ', 'AB'):
        return [frame(kind, spec[1])]
    return [frame(kind)]


# ops ('RESET',): the connection is reset (reads fail at once, writes fail)
# ops ('DEAF',): the peer stops receiving - the next write of the provider fails (EPIPE), reads are unaffected


ACCEPTOR = {
    'echo': [('P', [('RQ',)]), ('U', 'AC', ()), ('P', [('MSG', 1, 0, [1])]), ('G', 1), ('P', [('RLRQ',)]),
             ('U', 'RLRP', ()), ('FIN',)],
    'store': [('P', [('RQ',)]), ('U', 'AC', ()), ('P', [('MSG', 2, 3, [1, 1, 1, 1, 1])]), ('G', 2),
              ('P', [('MSG', 1, 2, [3])]), ('G', 1), ('P', [('RLRQ',)]), ('U', 'RLRP', ()), ('FIN',)],
    'local-release': [('P', [('RQ',)]), ('U', 'AC', ()), ('P', [('MSG', 1, 0, [1])]), ('G', 1), ('U', 'RLRQ', ()),
                      ('P', [('RLRP',)])],
    'peer-abort': [('P', [('RQ',)]), ('U', 'AC', ()), ('P', [('MSG', 1, 0, [1])]), ('P', [('AB', [0, 0])])],
    'local-abort': [('P', [('RQ',)]), ('U', 'AC', ()), ('U', 'AB', (2, 0)), ('FIN',)],
    'reject': [('P', [('RQ',)]), ('U', 'RJ', (1, 1, 7)), ('FIN',)],
    'collision': [('P', [('RQ',)]), ('U', 'AC', ()), ('U', 'RLRQ', ()), ('P', [('RLRQ',)]), ('P', [('RLRP',)]),
                  ('U', 'RLRP', ()), ('FIN',)],
    'pipelined': [('P', [('RQ',)]), ('U', 'AC', ()), ('P', [('MSG', 1, 0, [1]), ('MSG', 1, 1, [1, 1]), ('MSG', 1, 0, [1]), ('RLRQ',)]),
                  ('U', 'RLRP', ()), ('FIN',)],
    'early-abort': [('P', [('RQ',), ('AB', [0, 0])])],
    'garbage-first': [('P', [('UNK0',)]), ('FIN',)],
    'garbage-established': [('P', [('RQ',)]), ('U', 'AC', ()), ('P', [('MSG', 1, 0, [1])]), ('P', [('UNK0',)]), ('FIN',)],
    'early-data': [('P', [('RQ',), ('MSG', 1, 0, [1])]), ('FIN',)],
    'abort-close': [('P', [('RQ',)]), ('U', 'AC', ()), ('P', [('MSG', 1, 1, [1, 1]), ('AB', [2, 5])]), ('FIN',)],
    'release-data': [('P', [('RQ',)]), ('U', 'AC', ()), ('U', 'RLRQ', ()), ('P', [('MSG', 1, 1, [1, 1]), ('RLRP',)])],
    # a message of the peer begun while established is completed after the local user has asked for release (Sta7)
    # release collision, acceptor side: in Sta12 (peer's release response received, local response awaited) the peer
    # sends something it must not send any more
    'collision-then-data': [('P', [('RQ',)]), ('U', 'AC', ()), ('U', 'RLRQ', ()), ('P', [('RLRQ',)]), ('P', [('RLRP',)]),
                            ('P', [('MSG', 1, 0, [1])]), ('FIN',)],
    'collision-then-garbage': [('P', [('RQ',)]), ('U', 'AC', ()), ('U', 'RLRQ', ()), ('P', [('RLRQ',), ('RLRP',), ('UNK',)]), ('FIN',)],
    # the source of an outgoing message fails after one fragment / nothing of a message can be produced: provider abort
    'failing-generator': [('P', [('RQ',)]), ('U', 'AC', ()), ('P', [('MSG', 1, 0, [1])]), ('GF', 3, 1), ('FIN',)],
    'empty-generator': [('P', [('RQ',)]), ('U', 'AC', ()), ('P', [('MSG', 1, 0, [1])]), ('GF', 0, 0), ('P', [('MSG', 1, 0, [1])]), ('FIN',)],
    # the peer has asked for release; the local user still sends data before it answers (allowed in Sta8: AR-7)
    'data-before-release-response': [('P', [('RQ',)]), ('U', 'AC', ()), ('P', [('MSG', 1, 0, [1]), ('RLRQ',)]), ('G', 2), ('U', 'RLRP', ()), ('FIN',)],
    'many-pipelined': [('P', [('RQ',)]), ('U', 'AC', ()), ('P', [('MSG', 1, 0, [1])] * 24), ('P', [('UNK',)]), ('FIN',)],
    'release-mid-message': [('P', [('RQ',)]), ('U', 'AC', ()), ('P', [('MSGA', 1, 2, [1, 1, 1], 1)]), ('U', 'RLRQ', ()),
                            ('P', [('MSGB',), ('RLRP',)])],
    # the peer keeps talking after the PDU that ended the association for the provider (awaiting close, Sta13)
    'garbage-then-request': [('P', [('UNK',), ('RQ',)]), ('FIN',)],
    'request-garbage-tail': [('P', [('RQ',), ('UNK',), ('UNK0',)]), ('FIN',)],
    'local-abort-peer-talks': [('P', [('RQ',)]), ('U', 'AC', ()), ('U', 'AB', (2, 0)), ('P', [('MSG', 1, 0, [1]), ('AB', [0, 0])]), ('FIN',)],
    'reject-then-request': [('P', [('RQ',)]), ('U', 'RJ', (1, 1, 7)), ('P', [('RQ',), ('UNK0',)]), ('FIN',)],
}

REQUESTOR = {
    'echo': [('U', 'RQ', ()), ('P', [('AC',)]), ('G', 1), ('P', [('MSG', 1, 0, [1])]), ('U', 'RLRQ', ()), ('P', [('RLRP',)])],
    'store': [('U', 'RQ', ()), ('P', [('AC',)]), ('G', 3), ('P', [('MSG', 1, 0, [1])]), ('G', 2), ('P', [('MSG', 2, 0, [1, 1])]),
              ('U', 'RLRQ', ()), ('P', [('RLRP',)])],
    'peer-release': [('U', 'RQ', ()), ('P', [('AC',)]), ('G', 1), ('P', [('MSG', 1, 0, [1]), ('RLRQ',)]), ('U', 'RLRP', ()), ('FIN',)],
    'peer-abort': [('U', 'RQ', ()), ('P', [('AC',)]), ('G', 1), ('P', [('AB', [2, 0])])],
    'local-abort': [('U', 'RQ', ()), ('P', [('AC',)]), ('U', 'AB', (0, 0)), ('FIN',)],
    'rejected': [('U', 'RQ', ()), ('P', [('RJ', [1, 1, 3])])],
    'garbage-reply': [('U', 'RQ', ()), ('P', [('UNK0',)]), ('FIN',)],
    'collision': [('U', 'RQ', ()), ('P', [('AC',)]), ('U', 'RLRQ', ()), ('P', [('RLRQ',)]), ('U', 'RLRP', ()), ('P', [('RLRP',)])],
    'response-close': [('U', 'RQ', ()), ('P', [('AC',)]), ('G', 1), ('P', [('MSG', 1, 0, [1]), ('MSG', 1, 0, [1]), ('AB', [0, 0])]), ('FIN',)],
    'abort-then-peer-talks': [('U', 'RQ', ()), ('P', [('AC',)]), ('U', 'AB', (0, 0)), ('P', [('MSG', 1, 0, [1]), ('UNK0',), ('AB', [2, 0])]), ('FIN',)],
    'release-mid-message': [('U', 'RQ', ()), ('P', [('AC',)]), ('G', 1), ('P', [('MSGA', 2, 1, [1, 1, 1], 2)]), ('U', 'RLRQ', ()),
                            ('P', [('MSGB',), ('RLRP',)])],
    'failing-generator': [('U', 'RQ', ()), ('P', [('AC',)]), ('GF', 2, 0), ('P', [('MSG', 1, 0, [1])]), ('FIN',)],
    'data-before-release-response': [('U', 'RQ', ()), ('P', [('AC',)]), ('G', 1), ('P', [('MSG', 1, 0, [1]), ('RLRQ',)]), ('G', 1), ('U', 'RLRP', ()), ('FIN',)],
    'find': [('U', 'RQ', ()), ('P', [('AC',)]), ('G', 2), ('P', [('MSG', 1, 1, [1, 1]), ('MSG', 1, 1, [2]), ('MSG', 1, 0, [1])]),
             ('U', 'RLRQ', ()), ('P', [('RLRP',)])],
}


def pdu_boundaries(script):
    """Offsets in the peer's stream at which a PDU ends (excluding the end of the stream)."""
    from . import wire_ref
    total = peer_stream(script)
    pdus, _ = wire_ref.split_stream(total)
    out, pos = [], 0
    for b in pdus[:-1]:
        pos += len(b)
        out.append(pos)
    return tuple(out)


def peer_stream(script):
    """Concatenated bytes the peer writes over the whole script and the offsets where each write starts."""
    ids = {'m': 0}
    total = b''
    for op in script:
        if op[0] == 'P':
            for spec in op[1]:
                for _, b in mk(spec, ids):
                    total += b
    return total


class Played(object):
    pass


def play(script, req, cuts=(), dribble=False, waiting=False, fin_at=None, stop_silent=False, mutate=None, eager_fin=False, hard=False,
         tick_after_fin=True, max_iter=4000, local_max=65536, lazy_user=False):
    """Play a script.
    cuts: absolute offsets in the peer's byte stream at which a segment boundary falls (besides the
          natural one after each peer write); dribble: one byte per segment.
    waiting: the first peer write is already in the socket when the provider starts (acceptor) / as soon as the
             connection exists, before the request is written (requestor).
    fin_at: the peer disconnects after exactly this many bytes of its stream (and sends nothing more).
    hard: the disconnection of fin_at is a connection reset (reads and writes fail) instead of an orderly close.
    eager_fin: when a peer write is directly followed by the peer closing, the close is issued together
          with the write (it becomes visible as soon as the last byte has arrived).
    mutate: (index of peer PDU, fn(frame, bytes) -> [(frame or None, bytes)]) replaces that PDU.
    Returns a Played with .run (Run), .outcome."""
    run = Run(req, local_max)       # local_max: the provider's own maximum PDU length = the size of its reads
    run.p.lazy_user = lazy_user     # lazy_user: the local user does not take its indications while the script runs
    ids = {'m': 0}
    sent = 0
    written = 0
    pdu_index = 0
    cuts = sorted(set(cuts))
    out = Played()
    out.run = run
    out.outcome = 'ok'
    out.fin_done = False

    def settle():
        r = run.settle(200)
        if r in ('died', 'hang'):
            out.outcome = r
            return False
        if run.iterations > max_iter:
            out.outcome = 'busy'
            return False
        return True

    def deliver():
        """Deliver what is in transit according to the schedule; returns False to stop."""
        nonlocal sent
        while run.transit:
            s = run._cur_sock()
            if s is None or s.closed:
                run.transit = bytearray()
                return True
            n = len(run.transit)
            if dribble:
                n = 1
            else:
                for c in cuts:
                    if sent < c < sent + n:
                        n = c - sent
                        break
            run.arrive(n)
            sent += n
            if not settle():
                return False
        return True

    try:
        first = True
        if not waiting or req:
            if not settle():
                return out
        for opi, op in enumerate(script):
            if out.fin_done:
                break
            if op[0] == 'P':
                frames = []
                for spec in op[1]:
                    for rec, b in mk(spec, ids):
                        if mutate is not None and mutate[0] == pdu_index:
                            frames.extend(mutate[1](rec, b))       # list of (frame or None, bytes)
                        elif mutate is not None and pdu_index > mutate[0]:
                            pass            # the mutated PDU is the last thing the peer writes
                        else:
                            frames.append((rec, b))
                        pdu_index += 1
                s = run._cur_sock()
                if s is None or s.closed or run.p.dul_socket is None:
                    continue          # nothing can be sent to a closed connection
                if fin_at is not None and fin_at <= written:
                    (run.peer_reset if hard else run.peer_fin)()
                    out.fin_done = True
                    settle()
                    break
                blob_len = sum(len(b) for _, b in frames)
                if fin_at is not None and written + blob_len >= fin_at:
                    # the peer dies after fin_at bytes of its stream: the rest is never written
                    written += run.peer_send(frames, limit=fin_at - written)
                    if hard:
                        deliver()            # what was written arrives, then the connection is reset
                        if out.outcome == 'ok':
                            run.peer_reset()
                    else:
                        run.peer_fin()
                    out.fin_done = True
                    deliver()
                    settle()
                    break
                written += run.peer_send(frames)
                if eager_fin and opi + 1 < len(script) and script[opi + 1][0] == 'FIN':
                    run.peer_fin()
                    out.fin_done = True
                    deliver()
                    settle()
                    break
                if first and waiting and not req:
                    first = False
                if not deliver():
                    break
            elif op[0] == 'U':
                run.user_put(op[1], op[2])
                if waiting and req and first and op[1] == 'RQ' and opi + 1 < len(script) and script[opi + 1][0] == 'P':
                    # requestor: the peer's first segment is readable as soon as the connection exists - before the
                    # request has even been written (one iteration = AE-1 only; the next op delivers the segment)
                    first = False
                    run.iterate()
                    continue
                if not settle():
                    break
            elif op[0] in ('UECHO', 'UACCEPT'):
                # the local user accepts the association it was indicated the way the library's acceptor does.  UECHO:
                # the titles of the indicated request are echoed in the response; UACCEPT: the response IS the one the
                # library's own AssociationAcceptor.accept() builds from the indicated request (titles, application
                # context and the whole user information item echoed, maximum length replaced)
                from .ulrun import user_pdu
                ind = [i for i in run.indications if type(i).__name__ == 'AAssociateRqPDU']
                if ind:
                    ac = None
                    if op[0] == 'UECHO':
                        ac = user_pdu('AC')
                        ac.called_ae_title, ac.calling_ae_title = ind[-1].called_ae_title, ind[-1].calling_ae_title
                    else:
                        from . import neglib
                        ae, _ = neglib.server_ae(['1.2.840.10008.1.1'], ['1.2.840.10008.1.2'], 16384)
                        acc = neglib.bare_acceptor(ae, 16384)
                        try:
                            acc.accept(ind[-1])
                            ac = acc.dul.sent[0][0]
                        except Exception as exc:      # noqa - the acceptor's own thread fails, not the provider: outside C12
                            out.accept_raised = '%s: %s' % (type(exc).__name__, exc)
                    if ac is not None:
                        run.user_put('AC', (), obj=ac)
                        out.echoed = True
                        if not settle():
                            break
            elif op[0] in ('G', 'GF'):
                ids.setdefault('f', 0)
                fids = list(range(ids['f'] + 1, ids['f'] + 1 + op[1]))
                ids['f'] += op[1]
                run.user_gen(fids, fail_at=op[2] if op[0] == 'GF' else None)
                if not settle():
                    break
            elif op[0] == 'FIN':
                s = run._cur_sock()
                if s is not None and not s.closed and not run.fin_pending:
                    run.peer_fin()
                    out.fin_done = True
                if not settle():
                    break
            elif op[0] == 'RESET':
                s = run._cur_sock()
                if s is not None and not s.closed and not run.fin_pending:
                    run.peer_reset()
                    out.fin_done = True
                if not settle():
                    break
            elif op[0] == 'DEAF':
                s = run._cur_sock()
                if s is not None and not s.closed and not s.write_dead and not s.peer_reset:
                    run.peer_deaf()
            elif op[0] == 'TICK':
                run.tick(True)
                if not settle():
                    break
        if out.outcome == 'ok' and fin_at is not None and not out.fin_done:
            s = run._cur_sock()
            if s is not None and not s.closed:
                (run.peer_reset if hard else run.peer_fin)()
                settle()
    finally:
        run.close()
    return out
