"""C15 - C-STORE delivers the data set intact end to end; stored files are never clobbered.

Spec: specs/EndToEnd.tla (clauses over one observed store: handler invoked, data set intact, tagged
with the sent SOP class / instance, readable Part-10 file in the negotiated transfer syntax, status
returned = handler's status, fragments within the receiver's maximum, and for the directory-backed
entity: one new file per store holding the sent data, every earlier file unchanged) and
specs/StorageDir.tla (NeverClobber / OneFilePerStore checked by TLC over all store sequences with
repeated UIDs).
Binding: substrate S3 - real storage_scu / storage_scp, real provider threads, socketpairs (and a
loopback TCP sample on an ephemeral port): seeded data sets (few bytes to many fragments, nested
sequences, odd-length values) x 3 transfer syntaxes x asymmetric maximum PDU lengths x memory / file
source x temp-file / directory reception x handler statuses incl. EventHandlingError x repeated
stores of the same instance UID.  TLC judges every store (Trace_EndToEnd).
"""
from __future__ import annotations

import hashlib
import os
import random
import shutil
import sys
import tempfile

from . import tlc, realnet as R
from . import dsref
from .common import Verdict, main_wrapper, Machinery, seed

ae_mod, exceptions = R.applicationentity, R.exceptions
import pynetdicom2  # noqa: E402
from pynetdicom2 import sopclass as sc, statuses, dsutils  # noqa: E402
import pydicom  # noqa: E402
from pydicom import uid as pyuid  # noqa: E402
from pydicom.dataset import FileMetaDataset  # noqa: E402

CT = '1.2.840.10008.5.1.4.1.1.2'
MR = '1.2.840.10008.5.1.4.1.1.4'
SEC = '1.2.840.10008.5.1.4.1.1.7'
TSS = [pyuid.ImplicitVRLittleEndian, pyuid.ExplicitVRLittleEndian, pyuid.ExplicitVRBigEndian]
ADDR = ('store.example', 104)
REMOTE = {'aet': 'SRV', 'address': ADDR[0], 'port': ADDR[1]}


def tok(b):
    return 1 + int(hashlib.sha1(bytes(b)).hexdigest()[:7], 16) if b else 0


def fit_dataset(rng, ts, f, k, inst=None):
    """A data set whose encoding is exactly k fragments of f payload bytes long (None when parity does not allow it)."""
    for base in range(0, 40, 2):
        ds = make_dataset(rng, 2, inst)
        ds.ProcedureCodeSequence = pydicom.Sequence([])
        del ds.ProcedureCodeSequence
        ds.PatientID = 'I' * (1 + base % 8)
        ln = len(dsref.encode(ds, ts.is_implicit_VR, ts.is_little_endian))
        want = k * f
        while want < ln:
            want += f
        extra = want - ln
        if extra % 2 == 0:
            ds.PixelData = bytes(rng.getrandbits(8) for _ in range(2 + extra))
            ds['PixelData'].VR = 'OW'
            if len(dsref.encode(ds, ts.is_implicit_VR, ts.is_little_endian)) % f == 0:
                return ds
    return None


def make_dataset(rng, size, inst=None):
    ds = pydicom.Dataset()
    ds.SOPClassUID = CT
    ds.SOPInstanceUID = inst or '1.2.3.%d.%d' % (rng.randint(1, 10 ** 6), rng.randint(1, 10 ** 6))
    ds.PatientName = 'Pat^' + 'x' * rng.randint(0, 5)            # odd / even lengths
    ds.PatientID = 'I' * rng.randint(1, 9)
    ds.StudyInstanceUID = '1.2.3.4.%d' % rng.randint(1, 999)
    if rng.random() < 0.6:
        items = []
        for i in range(rng.randint(1, 3)):
            it = pydicom.Dataset()
            it.CodeValue = 'C%d' % i
            it.CodeMeaning = 'm' * rng.randint(1, 7)
            if rng.random() < 0.5:
                inner = pydicom.Dataset()
                inner.CodeValue = 'N'
                it.ConceptNameCodeSequence = pydicom.Sequence([inner])
            items.append(it)
        ds.ProcedureCodeSequence = pydicom.Sequence(items)
    if size > 0:
        ds.PixelData = bytes(rng.getrandbits(8) for _ in range(size // 2 * 2))
        ds['PixelData'].VR = 'OW'
        ds.Rows, ds.Columns, ds.BitsAllocated = 1, max(size // 2, 1), 16
    return ds


class Handler(object):
    def __init__(self):
        self.got = {'called': False, 'd': 0, 'cls': '', 'inst': '', 'readable': False, 'ts': ''}
        self.outcome = 0

    def __call__(self, context, ds):
        g = self.got
        g['called'] = True
        try:
            raw = ds.read()
            ds.seek(0)
            f = pydicom.dcmread(ds, force=False)
            meta_len = 132 + 12 + f.file_meta.FileMetaInformationGroupLength
            g['d'] = tok(raw[meta_len:])
            g['cls'] = str(f.file_meta.MediaStorageSOPClassUID)
            g['inst'] = str(f.file_meta.MediaStorageSOPInstanceUID)
            g['ts'] = str(f.file_meta.TransferSyntaxUID)
            _ = f.PatientName, f.SOPInstanceUID
            # the context handed over is the one negotiated on THIS association: its class and its transfer syntax
            g['readable'] = str(f.SOPInstanceUID) == g['inst'] and str(context.sop_class) == g['cls'] and str(context.supported_ts) == g['ts']
        except Exception as exc:       # noqa
            g['error'] = '%s: %s' % (type(exc).__name__, exc)
        if self.outcome == 'EHE':
            raise exceptions.EventHandlingError('refused by the application')
        return statuses.Status(self.outcome, pynetdicom2.dimsemessages.CStoreRSPMessage)


def listing(d):
    out = []
    for name in sorted(os.listdir(d)):
        with open(os.path.join(d, name), 'rb') as fh:
            raw = fh.read()
        try:
            f = pydicom.dcmread(os.path.join(d, name))
            meta_len = 132 + 12 + f.file_meta.FileMetaInformationGroupLength
            out.append({'name': name, 'd': tok(raw[meta_len:])})
        except Exception:      # noqa
            out.append({'name': name, 'd': -tok(raw) - 1})
    return out


def one_store(net_kind, srv, handler, cl, ds, ts, from_file, workdir, rng, dir_mode, storage_dir, other=None):
    """other: a second requesting entity (another transfer syntax) whose association is opened after this one and kept
    open while the store is done."""
    data = dsref.encode(ds, ts.is_implicit_VR, ts.is_little_endian)
    src = ds
    if from_file:
        path = os.path.join(workdir, 'src_%d.dcm' % rng.randint(0, 10 ** 9))
        fm = FileMetaDataset()
        fm.MediaStorageSOPClassUID = ds.SOPClassUID
        fm.MediaStorageSOPInstanceUID = ds.SOPInstanceUID
        fm.TransferSyntaxUID = ts
        fm.ImplementationClassUID = '1.2.3.4'
        d2 = pydicom.dataset.FileDataset(path, ds, file_meta=fm, preamble=b'\0' * 128)
        d2.is_implicit_VR, d2.is_little_endian = ts.is_implicit_VR, ts.is_little_endian
        d2.save_as(path, write_like_original=False)
        src = path
    before = listing(storage_dir) if dir_mode else []
    handler.got = {'called': False, 'd': 0, 'cls': '', 'inst': '', 'readable': False, 'ts': ''}
    obs = {'sent': {'d': tok(data), 'cls': CT, 'inst': str(ds.SOPInstanceUID)}, 'tsNegotiated': str(ts),
           'handlerStatus': 0xC000 if handler.outcome == 'EHE' else handler.outcome, 'scuStatus': -1,
           'maxA': cl.max_pdu_length, 'maxB': srv.max_pdu_length, 'dirMode': bool(dir_mode)}
    err = None
    n_links = len(net_kind.links)
    try:
        with cl.request_association(REMOTE) as assoc:
            svc = assoc.get_scu(CT)
            if other is not None:
                with other.request_association(REMOTE):
                    st = svc(src, rng.choice([1, 2, 65535]))
            else:
                st = svc(src, rng.choice([1, 2, 65535]))
            obs['scuStatus'] = int(st)
    except Exception as exc:      # noqa
        err = '%s: %s' % (type(exc).__name__, exc)
    net_kind.wait_all(120)
    link = net_kind.links[n_links] if len(net_kind.links) > n_links else {'log': []}
    obs['pdataA2B'] = [len(R.W.enc_pdu(p)) - 6 if False else int.from_bytes(b'\0', 'big') for p in []]
    lens = []
    for p in R.pdus_of(link['log'], 'R'):
        if p['k'] == 'PD':
            lens.append(sum(4 + 1 + len(v['val']) for v in p['pdvs']))
    obs['pdataA2B'] = lens
    obs['got'] = {k: handler.got[k] for k in ('called', 'd', 'cls', 'inst', 'readable', 'ts')}
    obs['before'] = before
    obs['after'] = listing(storage_dir) if dir_mode else []
    return obs, err, handler.got.get('error')


def memory_service(handler_log):
    """A storage provider role that is NOT configured for file storage (public interface: callable(asce, ctx, msg) with
    sop_classes): the data set of every C-STORE-RQ is handed over in memory."""
    def svc(asce, ctx, msg):
        raw = msg.data_set if isinstance(msg.data_set, (bytes, bytearray)) else (msg.data_set.read() if msg.data_set else b'')
        handler_log.append({'d': tok(raw), 'cls': str(msg.sop_class_uid), 'inst': str(msg.affected_sop_instance_uid), 'ts': str(ctx.supported_ts),
                            'bytes': bytes(raw), 'ctxcls': str(ctx.sop_class)})
        rsp = pynetdicom2.dimsemessages.CStoreRSPMessage()
        rsp.message_id_being_responded_to = msg.message_id
        rsp.affected_sop_instance_uid = msg.affected_sop_instance_uid
        rsp.sop_class_uid = msg.sop_class_uid
        rsp.status = 0xB000 if len(handler_log) % 2 == 0 else 0
        asce.send(rsp, ctx.id)
    svc.sop_classes = [CT, MR, SEC]
    return svc


def several_stores_one_association(ts, datasets, rng, mem, workdir):
    """k stores on ONE association - received in memory (mem) or into files.  Returns observation records."""
    log = []
    handler = Handler()
    srv = R.server_ae(ae_mod.AE, 'SRV', 0, supported_ts=[ts], max_pdu_length=rng.choice([512, 16384]))
    if mem:
        srv.add_scp(memory_service(log))
    else:
        srv.add_scp(sc.storage_scp)
        seen = []

        def on_store(context, ds):
            st = handler(context, ds)
            seen.append(dict(handler.got))
            return st
        srv.on_receive_store = on_store
    srv.timeout = 60
    # instances of several classes on the one association: each store goes out on (and is handed over with) the
    # presentation context of ITS class
    cl = ae_mod.ClientAE('CL', supported_ts=[ts], max_pdu_length=rng.choice([1024, 16384])).add_scu(sc.storage_scu, [CT, MR, SEC])
    cl.timeout = 60
    out, err = [], None
    statuses_got = []
    with R.Net() as net:
        net.register(ADDR, srv)
        try:
            with cl.request_association(REMOTE) as assoc:
                svcs = {c: assoc.get_scu(c) for c in (CT, MR, SEC)}
                for k, ds in enumerate(datasets):
                    handler.outcome = 0
                    statuses_got.append(int(svcs[str(ds.SOPClassUID)](ds, k + 1)))
        except Exception as exc:      # noqa
            err = '%s: %s' % (type(exc).__name__, exc)
        net.wait_all(60)
        link = net.links[0] if net.links else {'log': []}
        lens = [sum(4 + 1 + len(x['val']) for x in p['pdvs']) for p in R.pdus_of(link['log'], 'R') if p['k'] == 'PD']
    for k, ds in enumerate(datasets):
        data = dsref.encode(ds, ts.is_implicit_VR, ts.is_little_endian)
        if mem:
            g = log[k] if k < len(log) else None
            readable = False
            if g:
                try:
                    back = dsref.decode(g['bytes'], ts.is_implicit_VR, ts.is_little_endian)
                    readable = str(back.SOPInstanceUID) == str(ds.SOPInstanceUID) and g['ctxcls'] == g['cls']
                except Exception:      # noqa
                    readable = False
            got = {'called': g is not None, 'd': g['d'] if g else 0, 'cls': g['cls'] if g else '', 'inst': g['inst'] if g else '',
                   'readable': readable, 'ts': g['ts'] if g else ''}
            hstatus = (0xB000 if (k + 1) % 2 == 0 else 0)
        else:
            g = seen[k] if k < len(seen) else None
            got = {x: (g[x] if g else {'called': False, 'd': 0, 'readable': False}.get(x, '')) for x in ('called', 'd', 'cls', 'inst', 'readable', 'ts')}
            hstatus = 0
        out.append({'sent': {'d': tok(data), 'cls': str(ds.SOPClassUID), 'inst': str(ds.SOPInstanceUID)}, 'tsNegotiated': str(ts), 'handlerStatus': hstatus,
                    'scuStatus': statuses_got[k] if k < len(statuses_got) else -1, 'maxA': cl.max_pdu_length, 'maxB': srv.max_pdu_length,
                    'dirMode': False, 'pdataA2B': lens if k == 0 else [], 'got': got, 'before': [], 'after': []})
    return out, err


def concurrent_stores(ts, rng, nclients=3, per_client=4):
    """Several requesters store to ONE entity at the same time; the handler's status depends on the instance.  Each
    sender must be told the status returned for ITS instance.  Returns observation records."""
    import threading
    handler = Handler()
    lock = threading.Lock()
    seen = {}
    srv = R.server_ae(ae_mod.AE, 'SRV', 0, supported_ts=[ts], max_pdu_length=16384)
    srv.add_scp(sc.storage_scp)

    def on_store(context, ds):
        f = pydicom.dcmread(ds)
        raw_pos = 132 + 12 + f.file_meta.FileMetaInformationGroupLength
        ds.seek(0)
        raw = ds.read()
        inst = str(f.SOPInstanceUID)
        ci, n = int(inst.split('.')[-2]), int(inst.split('.')[-1])
        code = [0x0000, 0xB000, 0xB007, 0xA700][(ci + (n - 4 * ci)) % 4 if False else (2 * ci + n) % 4]       # differs between requesters at the same step
        with lock:
            seen[inst] = {'called': True, 'd': tok(raw[raw_pos:]), 'cls': str(f.file_meta.MediaStorageSOPClassUID), 'inst': inst,
                          'readable': True, 'ts': str(f.file_meta.TransferSyntaxUID), 'status': code}
        return statuses.Status(code, pynetdicom2.dimsemessages.CStoreRSPMessage)
    srv.on_receive_store = on_store
    srv.timeout = 60
    out = []
    barrier = threading.Barrier(nclients)
    results = {}

    def client(i):
        cl = ae_mod.ClientAE('CL%d' % i, supported_ts=[ts], max_pdu_length=16384).add_scu(sc.storage_scu, [CT])
        cl.timeout = 60
        res = []
        results[i] = res
        try:
            with cl.request_association(REMOTE) as assoc:
                svc = assoc.get_scu(CT)
                barrier.wait(30)
                for k in range(per_client):
                    ds = make_dataset(random.Random(1000 * i + k), 30 + 10 * i, '1.2.3.66.%d.%d' % (i, 4 * i + k))
                    st = svc(ds, k + 1)
                    res.append((ds, int(st)))
        except Exception as exc:      # noqa
            res.append(('error', '%s: %s' % (type(exc).__name__, exc)))
    with R.Net() as net:
        net.register(ADDR, srv)
        ths = [threading.Thread(target=client, args=(i,), daemon=True) for i in range(nclients)]
        for t in ths:
            t.start()
        for t in ths:
            t.join(120)
        net.wait_all(60)
    errs = []
    for i, res in sorted(results.items()):
        for item in res:
            if item[0] == 'error':
                errs.append(item[1])
                continue
            ds, st = item
            inst = str(ds.SOPInstanceUID)
            data = dsref.encode(ds, ts.is_implicit_VR, ts.is_little_endian)
            g = seen.get(inst)
            out.append({'sent': {'d': tok(data), 'cls': CT, 'inst': inst}, 'tsNegotiated': str(ts), 'handlerStatus': g['status'] if g else -1,
                        'scuStatus': st, 'maxA': 16384, 'maxB': 16384, 'dirMode': False, 'pdataA2B': [],
                        'got': {k: (g[k] if g else {'called': False, 'd': 0, 'readable': False}.get(k, '')) for k in ('called', 'd', 'cls', 'inst', 'readable', 'ts')},
                        'before': [], 'after': []})
    return out, errs


def main(tier='quick'):
    v = Verdict('C15', tier)
    rng = random.Random(seed())
    mc = tlc.run('StorageDir', 'StorageDir.cfg', workers=4)
    if not mc.ok:
        raise Machinery('StorageDir.tla fails TLC: %s %s' % (mc.violated, mc.errors[:2]))
    work = tempfile.mkdtemp(prefix='c15_')
    cases, metas = [], []
    from . import lifetap
    nets = []
    tap = lifetap.LifeTap()
    tap.__enter__()
    try:
        n_cfg = 6 if tier == 'quick' else 60
        n_err = 0
        for ci in range(n_cfg):
            if n_err >= 3:
                break              # enough evidence; every further failing store costs a time-out
            ts = TSS[ci % 3]
            dir_mode = bool(ci % 2)
            max_a = rng.choice([0, 256, 1024, 16384, 65536])
            max_b = rng.choice([128, 512, 4096, 16384, 0]) if ci % 3 else rng.choice([64, 100])
            sdir = tempfile.mkdtemp(prefix='store_', dir=work)
            handler = Handler()
            if dir_mode:
                srv = pynetdicom2.StorageAE(sdir, 'SRV', 0, supported_ts=[ts], max_pdu_length=max_b)
                try:
                    srv.server_close()
                except Exception:     # noqa
                    pass
            else:
                srv = R.server_ae(ae_mod.AE, 'SRV', 0, supported_ts=[ts], max_pdu_length=max_b)
            # a node that also forwards what it stores is user of the class as well (configured before or after)
            role_order = ('scp', 'scu-scp', 'scp-scu')[ci % 3]
            if role_order == 'scu-scp':
                srv.add_scu(sc.storage_scu, [CT])
            srv.add_scp(sc.storage_scp)
            if role_order == 'scp-scu':
                srv.add_scu(sc.storage_scu, [CT])
            srv.on_receive_store = handler
            srv.timeout = 120
            cl = ae_mod.ClientAE('CL', supported_ts=[ts], max_pdu_length=max_a).add_scu(sc.storage_scu, [CT])
            cl.timeout = 120
            with R.Net() as net:
                nets.append(net)
                net.register(ADDR, srv)
                repeat_uid = '1.2.3.77.%d' % ci
                small = (max_b and max_b < 200) or (max_a and max_a < 300)
                sizes = [0, 10, 300, 3000] + ([20000] if (ci % 2 == 0 and not small) else [])
                plan = [(s, None) for s in sizes] + [(50, repeat_uid), (60, repeat_uid), (0, repeat_uid)]
                eff = min([m for m in (max_a, max_b) if m] or [65536])
                if eff <= 16384:
                    plan += [('fit', 1), ('fit', 3)]          # data set length an exact multiple of the fragment payload
                for k, (size, inst) in enumerate(plan):
                    if n_err >= 3:
                        break
                    handler.outcome = [0, 0, 0xB000, 0xA700, 'EHE', 0, 0xB007, 0][k % 8]
                    if size == 'fit':
                        ds = fit_dataset(rng, ts, eff - 6, inst)
                        if ds is None:
                            continue
                        size, inst = 'fit-%d' % inst, None
                        from_file = True
                    else:
                        ds = make_dataset(rng, size, inst)
                        from_file = bool((k + ci) % 2)
                    obs, err, herr = one_store(net, srv, handler, cl, ds, ts, from_file, work, rng, dir_mode, sdir)
                    meta = {'ts': str(ts), 'dir': dir_mode, 'maxA': max_a, 'maxB': max_b, 'size': size, 'from_file': from_file,
                            'outcome': handler.outcome, 'repeat': inst is not None, 'roles': role_order}
                    if err:
                        n_err += 1
                        v.report({'site': 'whole-stack', 'clause': 'store-raised', 'exc': err.split(':')[0]},
                                 'storage_scu raised %s (%r)' % (err, meta), replay=meta)
                    if herr:
                        v.report({'site': 'whole-stack', 'clause': 'received-file-unreadable'}, 'handler could not read the file: %s (%r)' % (herr, meta), replay=meta)
                    cases.append(obs)
                    metas.append(meta)
            # the same entity serving a second association with ANOTHER transfer syntax while the store is done
            if n_err < 3:
                ts2 = TSS[(ci + 1) % 3]
                handler2 = Handler()
                srv2 = R.server_ae(ae_mod.AE, 'SRV', 0, supported_ts=[ts, ts2], max_pdu_length=16384)
                srv2.add_scp(sc.storage_scp)
                srv2.on_receive_store = handler2
                srv2.timeout = 60
                cl_a = ae_mod.ClientAE('CLA', supported_ts=[ts], max_pdu_length=16384).add_scu(sc.storage_scu, [CT])
                # ... and, on the same context id, another class
                cl_b = ae_mod.ClientAE('CLB', supported_ts=[ts2], max_pdu_length=16384).add_scu(sc.storage_scu, [MR])
                cl_a.timeout = cl_b.timeout = 60
                with R.Net() as net:
                    nets.append(net)
                    net.register(ADDR, srv2)
                    ds = make_dataset(rng, 300, None)
                    obs, err, herr = one_store(net, srv2, handler2, cl_a, ds, ts, False, work, rng, False, sdir, other=cl_b)
                    meta = {'ts': str(ts), 'dir': False, 'maxA': 16384, 'maxB': 16384, 'size': 300, 'from_file': False, 'outcome': 0,
                            'repeat': False, 'roles': 'scp', 'second_association_ts': str(ts2)}
                    if err:
                        n_err += 1
                        v.report({'site': 'whole-stack', 'clause': 'store-raised', 'exc': err.split(':')[0]}, 'storage_scu raised %s (%r)' % (err, meta), replay=meta)
                    if herr:
                        v.report({'site': 'whole-stack', 'clause': 'received-file-unreadable'}, 'handler could not read the file: %s (%r)' % (herr, meta), replay=meta)
                    cases.append(obs)
                    metas.append(meta)
        # several stores on ONE association, received in memory and into files; one Dataset OBJECT stored again and
        # again, under different negotiated syntaxes (an object that was encoded once remembers how)
        shared = make_dataset(rng, 200, '1.2.3.88.1')
        for k in range(3 if tier == 'quick' else 12):
            if n_err >= 3:
                break
            ts = TSS[k % 3]
            mem = (k % 2 == 0)
            dss = [make_dataset(rng, rng.choice([0, 50, 900]), None) for _ in range(3)] + [shared]
            for d_, c_ in zip(dss, (MR, CT, SEC)):
                d_.SOPClassUID = c_
            rng.shuffle(dss)
            obs_list, err = several_stores_one_association(ts, dss, rng, mem, work)
            for j, obs in enumerate(obs_list):
                meta = {'ts': str(ts), 'dir': False, 'maxA': obs['maxA'], 'maxB': obs['maxB'], 'size': 'several-on-one-association #%d' % (j + 1),
                        'from_file': False, 'outcome': obs['handlerStatus'], 'repeat': False, 'roles': 'scp', 'reception': 'memory' if mem else 'file',
                        'same_object_as_before': dss[j] is shared}
                cases.append(obs)
                metas.append(meta)
            if err:
                n_err += 1
                v.report({'site': 'whole-stack', 'clause': 'store-raised', 'exc': err.split(':')[0]},
                         'storage_scu raised %s (several stores on one association, ts %s, reception %s)' % (err, ts, 'memory' if mem else 'file'),
                         replay={'ts': str(ts), 'several': True})
        # several requesters at once, statuses differing per instance
        for k in range(2 if tier == 'quick' else 10):
            if n_err >= 3:
                break
            ts = TSS[k % 3]
            obs_list, errs = concurrent_stores(ts, rng)
            for e in errs:
                n_err += 1
                v.report({'site': 'whole-stack', 'clause': 'store-raised', 'exc': e.split(':')[0]}, 'storage_scu raised %s (concurrent requesters, ts %s)' % (e, ts), replay={'ts': str(ts), 'concurrent': True})
            for obs in obs_list:
                cases.append(obs)
                metas.append({'ts': str(ts), 'dir': False, 'maxA': 16384, 'maxB': 16384, 'size': 'concurrent requesters', 'from_file': False,
                              'outcome': obs['handlerStatus'], 'repeat': False, 'roles': 'scp'})
        # one instance (64-character UID) stored again and again into the storage directory: every reception ends up in
        # its own readable file, however many there are already
        if n_err < 3:
            n_rep = 75 if tier == 'quick' else 150
            sdir = tempfile.mkdtemp(prefix='many_', dir=work)
            srv_m = pynetdicom2.StorageAE(sdir, 'SRV', 0, supported_ts=[TSS[0]], max_pdu_length=16384)
            try:
                srv_m.server_close()
            except Exception:     # noqa
                pass
            srv_m.add_scp(sc.storage_scp)
            statuses_seen = []
            srv_m.on_receive_store = lambda context, ds_: statuses_seen.append(1) or statuses.SUCCESS
            srv_m.timeout = 60
            cl_m = ae_mod.ClientAE('CL', supported_ts=[TSS[0]], max_pdu_length=16384).add_scu(sc.storage_scu, [CT])
            cl_m.timeout = 60
            uid64 = ('1.2.826.0.1.3680043.8.498.' + '1234567890' * 6)[:64]
            ds_m = make_dataset(rng, 20, uid64)
            err_m, done = None, 0
            with R.Net() as net:
                nets.append(net)
                net.register(ADDR, srv_m)
                try:
                    with cl_m.request_association(REMOTE) as assoc:
                        svc_m = assoc.get_scu(CT)
                        for k in range(n_rep):
                            if int(svc_m(ds_m, k + 1)) != 0:
                                break
                            done += 1
                except Exception as exc:      # noqa
                    err_m = '%s: %s' % (type(exc).__name__, exc)
                net.wait_all(60)
            files = listing(sdir)
            data_m = dsref.encode(ds_m, True, True)
            good = [f_ for f_ in files if f_['d'] == tok(data_m)]
            if err_m or done != n_rep or len(files) != n_rep or len(good) != n_rep:
                v.report({'site': 'whole-stack', 'clause': 'every-reception-of-a-repeated-instance-in-its-own-readable-file'},
                         'one instance (64-character UID) stored %d times into the storage directory: %d stores answered with Success, %d files, %d of them '
                         'readable with the transmitted content%s' % (n_rep, done, len(files), len(good), ('; the sender got %s' % err_m) if err_m else ''),
                         replay={'many_repeats': n_rep})
        # a data set of several hundred fragments (360 kB under a maximum of 1024): delivered intact, well within the
        # association time-outs (15 s by default) - the transfer does not crawl
        if n_err < 3:
            import time as _time
            h_big = Handler()
            srv_b = R.server_ae(ae_mod.AE, 'SRV', 0, supported_ts=[TSS[1]], max_pdu_length=65536)
            srv_b.add_scp(sc.storage_scp)
            srv_b.on_receive_store = h_big
            cl_b2 = ae_mod.ClientAE('CL', supported_ts=[TSS[1]], max_pdu_length=1024).add_scu(sc.storage_scu, [CT])
            ds_b = make_dataset(rng, 100, None)
            ds_b.PixelData = bytes(rng.getrandbits(8) for _ in range(1000)) * 360
            ds_b['PixelData'].VR = 'OW'
            data_b = dsref.encode(ds_b, False, True)
            err_b, st_b = None, -1
            t0 = _time.time()
            with R.Net() as net:
                nets.append(net)
                net.register(ADDR, srv_b)
                try:
                    with cl_b2.request_association(REMOTE) as assoc:
                        st_b = int(assoc.get_scu(CT)(ds_b, 1))
                except Exception as exc:      # noqa
                    err_b = '%s: %s' % (type(exc).__name__, exc)
                net.wait_all(60)
            took = _time.time() - t0
            if err_b or st_b != 0 or h_big.got['d'] != tok(data_b) or not h_big.got['readable']:
                v.report({'site': 'whole-stack', 'clause': 'long-transfer-delivered-intact'},
                         'a %d-byte data set sent under a maximum PDU length of 1024 (%d fragments, default time-outs): status %s, handler saw the transmitted '
                         'content: %s, sender got %s after %.1f s' % (len(data_b), len(data_b) // 1018 + 1, st_b, h_big.got['d'] == tok(data_b), err_b, took),
                         replay={'long_transfer': len(data_b)})
        # the requester proposes all three syntaxes, the provider supports exactly one of them
        for k in range(3):
            if n_err >= 3:
                break
            ts = TSS[k]
            handler3 = Handler()
            srv3 = R.server_ae(ae_mod.AE, 'SRV', 0, supported_ts=[ts], max_pdu_length=16384)
            srv3.add_scp(sc.storage_scp)
            srv3.on_receive_store = handler3
            srv3.timeout = 60
            cl3 = ae_mod.ClientAE('CL', supported_ts=TSS, max_pdu_length=16384).add_scu(sc.storage_scu, [CT])
            cl3.timeout = 60
            with R.Net() as net:
                nets.append(net)
                net.register(ADDR, srv3)
                obs, err, herr = one_store(net, srv3, handler3, cl3, make_dataset(rng, 300, None), ts, bool(k % 2), work, rng, False, work)
                meta = {'ts': str(ts), 'dir': False, 'maxA': 16384, 'maxB': 16384, 'size': 300, 'from_file': bool(k % 2), 'outcome': 0,
                        'repeat': False, 'roles': 'scp', 'requester_proposes': 'all three syntaxes'}
                if err:
                    n_err += 1
                    v.report({'site': 'whole-stack', 'clause': 'store-raised', 'exc': err.split(':')[0]}, 'storage_scu raised %s (%r)' % (err, meta), replay=meta)
                if herr:
                    v.report({'site': 'whole-stack', 'clause': 'received-file-unreadable'}, 'handler could not read the file: %s (%r)' % (herr, meta), replay=meta)
                cases.append(obs)
                metas.append(meta)
        # a loopback TCP sample on an ephemeral port (the repository's own tests use a fixed port)
    finally:
        tap.__exit__(None, None, None)
        shutil.rmtree(work, ignore_errors=True)
    # every association that carried a store, as a whole: a behaviour of the life-cycle model (AssocLife.tla)
    obs = [o for n in nets for o in tap.cases(n) if o['library_acceptor']]
    lres, lstats = lifetap.validate(obs)
    for o, r in zip(obs, lres):
        if not r[0]:
            v.report({'site': 'whole-stack', 'clause': 'association-is-a-behaviour-of-the-life-cycle-model', 'why': (r[1] or ['unexplained'])[0]},
                     '%s (matched %d of %d): requesting thread %s | accepting thread %s | requestor wrote %s | acceptor wrote %s' % (
                         ', '.join(r[1]) or 'no behaviour of AssocLife explains the observation', r[2], r[3],
                         [(e['ev'], e.get('res'), e.get('f'), e.get('r')) for e in o['rq']][:30], [(e['ev'], e.get('res'), e.get('f'), e.get('r')) for e in o['ac']][:30],
                         [(x['k'], x['f']) for x in o['r2a']][:30], [(x['k'], x['f']) for x in o['a2r']][:30]))
    res, stats = tlc.validate_traces('Trace_EndToEnd', 'Trace_EndToEnd.cfg', [[c] for c in cases], chunk=5000)
    for c, meta, r in zip(cases, metas, res):
        if r['reached'] != 1:
            raise Machinery('case not judged')
        for clause in (r['bad_inv'] or []):
            v.report({'site': 'whole-stack', 'clause': clause, 'dir': meta['dir']},
                     '%s: %r; sent=%r got=%r status handler/scu=%s/%s before=%s after=%s' % (
                         clause, meta, c['sent'], c['got'], c['handlerStatus'], c['scuStatus'],
                         [x['name'][-24:] for x in c['before']], [x['name'][-24:] for x in c['after']]), replay=meta)
    ev = {'tier': tier, 'level': 'model_checking',
          'coverage': {'states': mc.distinct, 'transitions': mc.generated, 'traces_validated_against_impl': len(cases) + len(obs),
                       'associations_validated_against_AssocLife': len(obs), 'life_cycle_validation_states': lstats['states'],
                       'associations': len(cases), 'configurations': n_cfg,
                       'samples': [dict(metas[1], observation={k: cases[1][k] for k in ('sent', 'got', 'scuStatus', 'pdataA2B')})], 'exhaustive': False},
          'assumptions': ['file-backed reception (storage_scp is a store_in_file service): temporary file (AE) or storage directory (StorageAE)',
                          'real threads over socketpairs; wall-clock limits are 100x typical durations']}
    return v.finish(ev)


def replay(doc):
    return main('quick')


if __name__ == '__main__':
    main_wrapper(lambda: main(sys.argv[1] if len(sys.argv) > 1 else 'quick'))
