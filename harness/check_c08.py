"""C08 - transmitted command sets are well-formed (group length, type, data-set flag).

Spec: specs/MsgObject.tla - Send is enabled only for a well-formed command group (group length =
bytes that follow, ascending tags, PS3.7 command field of the class, 'no data set' flag exactly
when no data fragments follow, a data set follows iff one is attached, fields are the current ones).
MC_MsgObject enumerates every operation sequence (set field A / field B to lengths {1,2,63,64},
attach none / empty / non-empty data set, send) of bounded depth for all 23 classes.
Binding: spec -> code: each TLC sequence is replayed on a real message object; every Send goes through
the real Association.send; the command fragments are concatenated and read by the independent
element reader (harness/cmdset.py); code -> spec: the measurements form a trace that TLC validates.
Seeded random sequences with UIDs of every length 1..64 and 16-bit ids are added.
"""
from __future__ import annotations

import random
import sys

from . import tlc, dimselib as D, cmdset
from .common import Verdict, main_wrapper, Machinery, seed

VAR_FIELDS = ['AffectedSOPClassUID', 'RequestedSOPClassUID', 'AffectedSOPInstanceUID', 'RequestedSOPInstanceUID',
              'MoveDestination', 'MoveOriginatorApplicationEntityTitle']
TAG = {'AffectedSOPClassUID': 0x00000002, 'RequestedSOPClassUID': 0x00000003, 'AffectedSOPInstanceUID': 0x00001000,
       'RequestedSOPInstanceUID': 0x00001001, 'MoveDestination': 0x00000600, 'MoveOriginatorApplicationEntityTitle': 0x00001030}
CODE = [1, 32769, 16, 32784, 32, 32800, 33, 32801, 48, 32816, 256, 33024, 272, 33040, 288, 33056, 304, 33072, 320, 33088, 336, 33104, 4095]


def text_of(name, n, salt):
    if 'UID' in name:
        return D.make_uid(n, salt)
    return ('AE' + 'X' * 62)[:min(n, 16)]


def measure(pdus, fa, fb, ev='SEND'):
    """One transmission (list of P-DATA-TF PDUs) -> (event for Trace_MsgObject, problem or None)."""
    cmd, ndata = b'', 0
    for p in pdus:
        _, pdvs, _ = D.parse_pdata(p)
        for c, h, payload in pdvs:
            if h & 1:
                cmd += payload
            else:
                ndata += 1
    try:
        elems = cmdset.read(cmd)
    except cmdset.CmdError as exc:
        return None, 'command set unreadable: %s' % exc
    tags = [t for t, _ in elems]
    d = dict(elems)
    pos, after = 0, -1
    for t, val in elems:
        pos += 8 + len(val)
        if t == 0:
            after = len(cmd) - pos
    e = {'ev': ev, 'glen': cmdset.as_int(d[0]) if 0 in d and len(d[0]) == 4 else -1, 'after': after,
         'asc': all(a < b for a, b in zip(tags, tags[1:])) and tags[:1] == [0],
         'code': cmdset.as_int(d[cmdset.TAG_COMMAND_FIELD]) if cmdset.TAG_COMMAND_FIELD in d else -1,
         'flag': cmdset.as_int(d[cmdset.TAG_DS_TYPE]) if cmdset.TAG_DS_TYPE in d else -1, 'ndata': ndata}
    if ev == 'SEND':
        e['lenA'] = len(d.get(TAG[fa], b'')) if fa else 0
        e['lenB'] = len(d.get(TAG[fb], b'')) if fb else 0
    return e, None


class QueueDul(object):
    """Provider stub that, like the real one, only QUEUES what send() hands over; the P-DATA generators are run
    later (drain), after the application has gone on changing the message object."""

    def __init__(self):
        self.queue = []
        self.max_pdu_length = 1 << 20

    def send(self, item):
        self.queue.append(item)

    def drain(self):
        out = []
        for item in self.queue:
            out.append([item] if hasattr(item, 'pdu_type') else list(item))
        self.queue = []
        return out


def run_sequence(cls_index, ops, rng, max_len, unset=0.0, lazy=False):
    """Returns (trace, problems).  unset: probability with which an optional / conditional numeric field is left
    without a value (as the services do for Move Originator Message ID, Priority, the sub-operation counters...)."""
    cls = D.dm.MESSAGE_TYPE[CODE[cls_index - 1]]
    msg = cls()
    var = [f for f in cls.command_fields if f in VAR_FIELDS]
    fa = var[0] if var else None
    fb = var[1] if len(var) > 1 else None
    # the services always fill the numeric fields; do the same with arbitrary 16-bit values
    for name in cls.command_fields:
        if name in ('MessageID', 'MessageIDBeingRespondedTo', 'Status', 'Priority', 'EventTypeID', 'ActionTypeID',
                    'NumberOfRemainingSuboperations', 'NumberOfCompletedSuboperations', 'NumberOfFailedSuboperations',
                    'NumberOfWarningSuboperations', 'MoveOriginatorMessageID'):
            if unset and rng.random() < unset:
                continue
            setattr(msg.command_set, name, rng.choice([0, 1, 0xFFFF, rng.randint(0, 0xFFFF)]))
    tr = [{'ev': 'New', 'cls': cls_index}]
    problems = []
    lazy_assoc = None
    if lazy:
        lazy_assoc = D.bare_association(max_len)
        lazy_assoc.dul = QueueDul()
    for o in ops:
        if o['op'] == 'A':
            if fa is None:
                continue
            n = min(o['n'], 16) if 'UID' not in fa else o['n']
            setattr(msg.command_set, fa, text_of(fa, n, 1))
            tr.append({'ev': 'A', 'n': n})
        elif o['op'] == 'B':
            if fb is None:
                continue
            n = min(o['n'], 16) if 'UID' not in fb else o['n']
            setattr(msg.command_set, fb, text_of(fb, n, 2))
            tr.append({'ev': 'B', 'n': n})
        elif o['op'] == 'DS':
            msg.data_set = {'none': None, 'empty': b'', 'bytes': b'\x08\x00\x05\x00\x04\x00\x00\x00ISO '}[o['v']]
            tr.append({'ev': 'DS', 'v': o['v']})
        elif lazy:
            try:
                lazy_assoc.send(msg, 1)            # queued; encoded when the queue is drained
            except Exception as exc:      # noqa
                problems.append('Association.send raised %s: %s' % (type(exc).__name__, exc))
                break
        else:
            assoc = D.bare_association(max_len)
            try:
                assoc.send(msg, 1)
                pdus = assoc.dul.sent[0]
            except Exception as exc:      # noqa
                problems.append('Association.send raised %s: %s' % (type(exc).__name__, exc))
                break
            e, pr = measure(pdus, fa, fb)
            if pr:
                problems.append(pr)
                break
            tr.append(e)
    if lazy and not problems:
        try:
            sent = lazy_assoc.dul.drain()
        except Exception as exc:      # noqa
            problems.append('encoding the queued messages raised %s: %s' % (type(exc).__name__, exc))
            sent = []
        for pdus in sent:
            e, pr = measure(pdus, fa, fb, ev='LSEND')
            if pr:
                problems.append(pr)
                break
            tr.append(e)
    return tr, problems


def resend_race(rng, n=400):
    """ONE message object sent again and again by the application thread while the provider thread is still encoding
    the previous transmission (send() only queues; encoding is lazy): every transmission must be well-formed."""
    import sys as _sys
    import threading
    import collections
    out, problems = [], []
    for cls_index in (2, 6, 8):            # C-STORE-RSP, C-FIND-RSP, C-MOVE-RSP: what providers re-use
        cls = D.dm.MESSAGE_TYPE[CODE[cls_index - 1]]
        msg = D.fill(cls(), rng)
        q = collections.deque()
        done = threading.Event()

        class Dul(object):
            max_pdu_length = 1 << 20

            def send(self, item):
                q.append(item)
        assoc = D.bare_association(16384)
        assoc.dul = Dul()

        def producer():
            for k in range(n):
                msg.status = 0xFF00 if k % 2 else 0x0000
                assoc.send(msg, 1)
            done.set()

        def consumer():
            while not (done.is_set() and not q):
                try:
                    item = q.popleft()
                except IndexError:
                    continue
                try:
                    e, pr = measure(list(item), None, None, ev='LSEND')
                except Exception as exc:      # noqa
                    e, pr = None, 'encoding a queued transmission raised %s: %s' % (type(exc).__name__, exc)
                if pr:
                    problems.append((cls_index, pr))
                else:
                    out.append([{'ev': 'New', 'cls': cls_index}, e])
        old = _sys.getswitchinterval()
        _sys.setswitchinterval(1e-6)
        try:
            tp, tc = threading.Thread(target=producer), threading.Thread(target=consumer)
            tc.start()
            tp.start()
            tp.join()
            tc.join(30)
        finally:
            _sys.setswitchinterval(old)
    return out, problems


def concurrent_sends(rng, nthreads=6, per_thread=120):
    """Several threads (as many associations) send at the same time; every transmission must still be one well-formed
    command group.  Returns (traces, problems)."""
    import sys as _sys
    import threading
    old = _sys.getswitchinterval()
    out, problems = [], []

    def worker(k):
        r = random.Random(1000 + k)
        for j in range(per_thread):
            c = r.randint(1, 23)
            cls = D.dm.MESSAGE_TYPE[CODE[c - 1]]
            msg = D.fill(cls(), r)
            if j % 3 == 0:
                msg.data_set = b'\x08\x00\x05\x00\x04\x00\x00\x00ISO '
            assoc = D.bare_association(r.choice([16384, 64]))
            try:
                assoc.send(msg, 1)
                e, pr = measure(assoc.dul.sent[0], None, None, ev='LSEND')
            except Exception as exc:      # noqa
                e, pr = None, 'Association.send raised %s: %s' % (type(exc).__name__, exc)
            if pr:
                problems.append((c, pr))
            else:
                out.append([{'ev': 'New', 'cls': c}, e])
    _sys.setswitchinterval(1e-6)
    try:
        ths = [threading.Thread(target=worker, args=(k,)) for k in range(nthreads)]
        for t in ths:
            t.start()
        for t in ths:
            t.join()
    finally:
        _sys.setswitchinterval(old)
    return out, problems


def main(tier='quick'):
    v = Verdict('C08', tier)
    rng = random.Random(seed())
    mc = tlc.run('MC_MsgObject', 'MC_MsgObject.cfg' if tier == 'quick' else 'MC_MsgObject_thorough.cfg', workers=1, timeout=3000)
    if not mc.ok:
        raise Machinery('MsgObject.tla fails TLC: %s %s' % (mc.violated, mc.errors[:2]))
    behs = tlc.printed_values(mc.out)
    traces, metas = [], []
    for b in behs:
        tr, problems = run_sequence(b['cls'], b['ops'], rng, rng.choice([16384, 64, 30]))
        metas.append({'cls': b['cls'], 'ops': b['ops'], 'src': 'tlc'})
        traces.append(tr)
        for pr in problems:
            v.report({'site': 'dimsemessages', 'clause': 'send', 'cls': b['cls']}, '%s (class %d, ops %r)' % (pr, b['cls'], b['ops']), replay=metas[-1])
    # seeded random sequences: every UID length, longer histories
    for i in range(1500 if tier == 'quick' else 20000):
        c = rng.randint(1, 23)
        ops = []
        for _ in range(rng.randint(2, 8)):
            k = rng.choice(['A', 'B', 'DS', 'SEND', 'SEND'])
            if k in 'AB':
                ops.append({'op': k, 'n': rng.randint(1, 64)})
            elif k == 'DS':
                ops.append({'op': 'DS', 'v': rng.choice(['none', 'empty', 'bytes'])})
            else:
                ops.append({'op': 'SEND'})
        ops.append({'op': 'SEND'})
        lazy = (i % 5 == 4)
        tr, problems = run_sequence(c, ops, rng, rng.choice([16384, 128, 20]), unset=(0.35 if i % 2 else 0.0), lazy=lazy)
        metas.append({'cls': c, 'ops': ops, 'src': 'random-lazy' if lazy else 'random', 'unset': (0.35 if i % 2 else 0.0), 'lazy': lazy})
        traces.append(tr)
        for pr in problems:
            v.report({'site': 'dimsemessages', 'clause': 'send', 'cls': c}, '%s (class %d, ops %r)' % (pr, c, ops), replay=metas[-1])
    rtr, rpr = resend_race(rng, 400 if tier == 'quick' else 4000)
    for c, pr in rpr[:5]:
        v.report({'site': 'dimsemessages', 'clause': 'send-while-encoding', 'cls': c}, '%s (class %d re-sent while its previous transmission was being encoded)' % (pr, c), replay={'cls': c, 'ops': [], 'src': 'concurrent'})
    for tr in rtr:
        traces.append(tr)
        metas.append({'cls': tr[0]['cls'], 'ops': [], 'src': 'concurrent'})
    ctr, cpr = concurrent_sends(rng, 6, 120 if tier == 'quick' else 1500)
    for c, pr in cpr:
        v.report({'site': 'dimsemessages', 'clause': 'send-concurrent', 'cls': c}, '%s (class %d, %d threads sending at once)' % (pr, c, 6), replay={'cls': c, 'ops': [], 'src': 'concurrent'})
    for tr in ctr:
        traces.append(tr)
        metas.append({'cls': tr[0]['cls'], 'ops': [], 'src': 'concurrent'})
    res, stats = tlc.validate_traces('Trace_MsgObject', 'Trace_MsgObject.cfg', traces, chunk=6000)
    for tr, r, meta in zip(traces, res, metas):
        if r['ok']:
            continue
        e = tr[r['reached']] if r['reached'] < len(tr) else {}
        clause = 'send-' + ('group-length' if e.get('glen') != e.get('after') else
                            'tag-order' if not e.get('asc') else
                            'command-field' if e.get('code') != CODE[meta['cls'] - 1] else
                            'dataset-flag' if (e.get('flag') == 257) != (e.get('ndata') == 0) else 'dataset-or-fields')
        nsend = sum(1 for x in tr[:r['reached'] + 1] if x['ev'] == 'SEND')
        v.report({'site': 'dimsemessages', 'clause': clause, 'nth_send': min(nsend, 2)},
                 'Send #%d of a %s is not well-formed (%s): %r after ops %r' % (
                     nsend, D.dm.MESSAGE_TYPE[CODE[meta['cls'] - 1]].__name__, clause, e, [x for x in tr[1:r['reached']]]), replay=meta)
    ev = {'tier': tier, 'level': 'model_checking',
          'coverage': {'states': mc.distinct, 'transitions': mc.generated, 'traces_validated_against_impl': len(traces),
                       'tlc_sequences_replayed': len(behs), 'random_sequences': len(traces) - len(behs),
                       'sends_measured': sum(1 for t in traces for e in t if e['ev'] == 'SEND'),
                       'samples': [traces[7], traces[len(behs) + 3]], 'exhaustive': False},
          'assumptions': ['the two variable fields exercised per class are its first two UID / AE-title fields; the other fields keep '
                          'arbitrary in-range values', 'independent implicit-VR-LE element reader (harness/cmdset.py)']}
    return v.finish(ev)


def replay(doc):
    meta = doc['replay']
    if meta.get('src') == 'concurrent':
        return main('quick')
    runs = [run_sequence(meta['cls'], meta['ops'], random.Random(k), 16384, unset=meta.get('unset', 0.0), lazy=meta.get('lazy', False)) for k in range(12 if meta.get('unset') else 1)]
    res, _ = tlc.validate_traces('Trace_MsgObject', 'Trace_MsgObject.cfg', [tr for tr, _ in runs])
    for (tr, problems), r in zip(runs, res):
        if problems or not r['ok']:
            print('REPRODUCED: %r %r' % (problems, tr[r['reached']] if r['reached'] < len(tr) else None))
            return 1
    return 0


if __name__ == '__main__':
    main_wrapper(lambda: main(sys.argv[1] if len(sys.argv) > 1 else 'quick'))
