"""Independent reader / writer for DIMSE command sets (PS3.7 section 6.3: group 0000, implicit VR
little endian, PS3.5 section 7.1.3).  ~40 lines, no pydicom."""
from __future__ import annotations

import struct


class CmdError(Exception):
    pass


def read(buf):
    """-> list of (tag:int (gggg<<16|eeee), value:bytes) in stream order.  Strict: lengths must tile buf."""
    out, pos = [], 0
    while pos < len(buf):
        if pos + 8 > len(buf):
            raise CmdError('truncated element header at %d' % pos)
        g, e, n = struct.unpack('<HHI', buf[pos:pos + 8])
        if n == 0xFFFFFFFF:
            raise CmdError('undefined length in a command set')
        if pos + 8 + n > len(buf):
            raise CmdError('element (%04x,%04x) length %d runs past the end' % (g, e, n))
        if n % 2:
            raise CmdError('element (%04x,%04x) has odd length %d' % (g, e, n))
        out.append(((g << 16) | e, bytes(buf[pos + 8:pos + 8 + n])))
        pos += 8 + n
    return out


def us(v):
    return struct.pack('<H', v)


def ul(v):
    return struct.pack('<I', v)


def ui(s):
    b = s.encode('ascii') if isinstance(s, str) else s
    return b + (b'\0' if len(b) % 2 else b'')


def write(elems, with_group_length=True):
    """elems: list of (tag, value bytes) WITHOUT (0000,0000); sorted here; group length prepended."""
    elems = sorted(elems)
    body = b''.join(struct.pack('<HHI', t >> 16, t & 0xFFFF, len(v)) + v for t, v in elems)
    if not with_group_length:
        return body
    return struct.pack('<HHI', 0, 0, 4) + ul(len(body)) + body


def encode_dataset(ds):
    """Implicit VR little endian encoding of a pydicom Dataset holding a command set, written here from PS3.5
    (not with pydicom's writer nor the library's dsutils): elements in ascending tag order, value fields
    US / UL little endian, UI padded with NUL, other text padded with space, an absent value has length 0."""
    out = b''
    for elem in sorted(ds, key=lambda e: int(e.tag)):
        vr, val = elem.VR, elem.value
        if val is None or (isinstance(val, (str, bytes)) and len(val) == 0):
            body = b''
        elif vr in ('US', 'UL', 'AT'):
            vals = list(val) if isinstance(val, (list, tuple)) or type(val).__name__ == 'MultiValue' else [val]
            if vr == 'AT':
                body = b''.join(struct.pack('<HH', int(x) >> 16, int(x) & 0xFFFF) for x in vals)
            else:
                body = b''.join(struct.pack('<H' if vr == 'US' else '<I', int(x)) for x in vals)
        elif vr == 'UI':
            vals = list(val) if type(val).__name__ == 'MultiValue' else [val]
            b = '\\'.join(str(x) for x in vals).encode('ascii')
            body = b + (b'\0' if len(b) % 2 else b'')
        elif vr in ('AE', 'LO', 'SH', 'CS', 'LT', 'ST', 'PN', 'DS', 'IS'):
            vals = list(val) if type(val).__name__ == 'MultiValue' else [val]
            b = '\\'.join(str(x) for x in vals).encode('ascii')
            body = b + (b' ' if len(b) % 2 else b'')
        else:
            raise CmdError('VR %s not expected in a command set' % vr)
        out += struct.pack('<HHI', elem.tag.group, elem.tag.element, len(body)) + body
    return out


def as_int(v):
    """Value of a US / UL element; -2 when the value field has any other length (empty, odd...)."""
    if len(v) == 2:
        return struct.unpack('<H', v)[0]
    if len(v) == 4:
        return struct.unpack('<I', v)[0]
    return -2


def text(v):
    return v.rstrip(b'\0 ').decode('ascii', 'replace')


TAG_GROUP_LENGTH = 0x00000000
TAG_AFF_SOP_CLASS = 0x00000002
TAG_REQ_SOP_CLASS = 0x00000003
TAG_COMMAND_FIELD = 0x00000100
TAG_MSG_ID = 0x00000110
TAG_MSG_ID_RSP = 0x00000120
TAG_MOVE_DEST = 0x00000600
TAG_PRIORITY = 0x00000700
TAG_DS_TYPE = 0x00000800
TAG_STATUS = 0x00000900
TAG_AFF_SOP_INST = 0x00001000
TAG_REQ_SOP_INST = 0x00001001
TAG_EVENT_TYPE = 0x00001002
TAG_ACTION_TYPE = 0x00001008
TAG_REMAINING = 0x00001020
TAG_COMPLETED = 0x00001021
TAG_FAILED = 0x00001022
TAG_WARNING = 0x00001023


def echo_rq(msg_id, sop='1.2.840.10008.1.1'):
    return write([(TAG_AFF_SOP_CLASS, ui(sop)), (TAG_COMMAND_FIELD, us(0x0030)), (TAG_MSG_ID, us(msg_id)),
                  (TAG_DS_TYPE, us(0x0101))])


def store_rq(msg_id, sop='1.2.840.10008.5.1.4.1.1.7', inst='1.2.3.4'):
    return write([(TAG_AFF_SOP_CLASS, ui(sop)), (TAG_COMMAND_FIELD, us(0x0001)), (TAG_MSG_ID, us(msg_id)),
                  (TAG_PRIORITY, us(0)), (TAG_DS_TYPE, us(0x0001)), (TAG_AFF_SOP_INST, ui(inst))])
