"""Scenario builders for C16 / C17 / C19: run one service operation of the library on the scripted
association (harness/svc.py) and turn what happened into a trace for specs/Trace_Services.tla."""
from __future__ import annotations

import random

from . import svc as S, cmdset, dimselib as D
from . import dsref
from .common import Machinery

pydicom = D.pydicom
dm, sopclass, exceptions, statuses = S.dm, S.sopclass, S.exceptions, S.statuses
applicationentity, pdu = D.applicationentity, D.pdu

VERIF = '1.2.840.10008.1.1'
CT = '1.2.840.10008.5.1.4.1.1.2'
SR = '1.2.840.10008.5.1.4.1.1.88.11'
FIND = '1.2.840.10008.5.1.4.1.2.1.1'
MOVE = '1.2.840.10008.5.1.4.1.2.1.2'
GET = '1.2.840.10008.5.1.4.1.2.1.3'
MWL = '1.2.840.10008.5.1.4.31'
COMMIT = '1.2.840.10008.1.20.1'
COMMIT_INST = '1.2.840.10008.1.20.1.1'

MIDS = [0, 1, 2, 255, 256, 32767, 32768, 65534, 65535]
DOCUMENTED_FAILURE = {'echo': 0x0110, 'store': 0xC000, 'naction': 0x0110, 'nevent': 0x0110, 'get-scu': 0xC000, 'find': 0xC000, 'move': 0xC000}


def ident(rng, n=0):
    ds = pydicom.Dataset()
    if n < 0:
        return ds                  # a match without any attribute: its encoding is empty
    ds.PatientName = 'Q^%d' % rng.randint(0, 9999)
    ds.PatientID = 'P' * rng.randint(1, 7)
    if n:
        ds.StudyDescription = 'x' * n
    return ds


def enc(ds):
    return dsref.encode(ds, True, True)


def instance(rng, i, sop=CT):
    ds = pydicom.Dataset()
    ds.SOPClassUID = sop
    ds.SOPInstanceUID = '1.2.3.%d.%d' % (rng.randint(1, 99999), i)
    ds.PatientName = 'Inst^%d' % i
    return ds


def finish(tr, a):
    a.dul.drain()
    tr.append({'ev': 'End', 'sent': a.dul.sent_count, 'drained': len([w for w in a.dul.wire if isinstance(w, S.WireMsg)])})
    return tr


def rsp_events(a, total=0):
    return [{'ev': 'Rsp', 'r': w.record(), 'total': total} for w in a.dul.wire if isinstance(w, S.WireMsg)]


# ------------------------------------------------------------------ the handler loop (dispatch)

def run_handler_loop(rng, requests, ts_pairs=None):
    """One REAL AssociationAcceptor (constructor = setup + handle = _establish + _loop) serving the library's own
    verification and storage providers.  Verification is accepted on contexts 1 and 3, CT storage on 5 and 7 (each
    pair with different transfer syntaxes), requests = [('echo'|'store', context id, message id)...] arrive in ONE
    association, then the peer releases.  Returns one trace per request (Req, Handler, Rsp, End) + extra findings."""
    from . import neglib as N
    IMPL, EXPL, BIG = '1.2.840.10008.1.2', '1.2.840.10008.1.2.1', '1.2.840.10008.1.2.2'
    ae = applicationentity.AE('SCP', 0, supported_ts=[IMPL, EXPL, BIG], max_pdu_length=16384, bind_and_activate=False)
    try:
        ae.server_close()
    except Exception:      # noqa
        pass
    ae.add_scp(sopclass.verification_scp)
    ae.add_scp(sopclass.storage_scp)
    stored = []
    ae.on_receive_echo = lambda context: statuses.SUCCESS
    ae.on_receive_store = lambda context, ds: (stored.append(context.id), statuses.SUCCESS)[1]
    a, b = (ts_pairs or (IMPL, EXPL))
    ctxs = [{'id': 1, 'as': VERIF, 'ts': [a]}, {'id': 3, 'as': VERIF, 'ts': [b]},
            {'id': 5, 'as': CT, 'ts': [a]}, {'id': 7, 'as': CT, 'ts': [b]}]
    rq = pdu.AAssociateRqPDU.decode(N.rq_bytes('SCP', 'SCU', ctxs))
    script = [rq]
    reqs = []
    for kind, ctx, mid in requests:
        if kind == 'echo':
            msg = S.decode_message(S.request_bytes(0x0030, mid, VERIF, has_data=False), b'', ctx)
            reqs.append({'type': 0x0030, 'ctx': ctx, 'mid': mid, 'cls': VERIF, 'inst': '', 'svc': 'echo'})
        else:
            inst = D.make_uid(20, rng.randint(0, 9))
            data = enc(instance(rng, 1))
            msg = S.decode_message(S.request_bytes(0x0001, mid, CT, inst), data, ctx)
            import io
            msg.data_set = io.BytesIO(data)          # file-backed reception hands the service a file object
            reqs.append({'type': 0x0001, 'ctx': ctx, 'mid': mid, 'cls': CT, 'inst': inst, 'svc': 'store'})
        script.append((msg, ctx))
    script.append(pdu.AReleaseRqPDU())
    acc, dul, exc = N.run_handler(ae, 16384, script)
    extra = {}
    if exc is not None:
        extra['raised'] = 'the handler raised %s: %s' % (type(exc).__name__, exc)
    sent = dul.sent if dul is not None else []
    msgs = []
    for group in sent[1:]:
        if len(group) == 1 and getattr(group[0], 'pdu_type', None) != 0x04:
            continue                       # A-RELEASE-RP
        cmd, data, ctx, ndata = b'', b'', None, 0
        for p in group:
            _, pdvs, _ = D.parse_pdata(p)
            for c, h, payload in pdvs:
                ctx = c if ctx is None else ctx
                if c != ctx:
                    extra['mixed'] = 'one response spread over contexts %r and %r' % (ctx, c)
                if h & 1:
                    cmd += payload
                else:
                    data += payload
                    ndata += 1
        msgs.append(S.WireMsg(ctx, cmd, data, ndata))
    if len(msgs) != len(reqs):
        extra['answered'] = '%d requests reached the handler, %d responses were sent' % (len(reqs), len(msgs))
    traces = []
    for q, w in zip(reqs, msgs):
        svc = q.pop('svc')
        traces.append([{'ev': 'Req', 'svc': svc, 'req': q}, {'ev': 'Handler', 'status': 0},
                       {'ev': 'Rsp', 'r': w.record(), 'total': 0}, {'ev': 'End', 'sent': 1, 'drained': 1}])
    return traces, extra


# ------------------------------------------------------------------ simple providers

def run_echo(rng, policy, mid, ctx, outcome):
    ae = S.ScriptAE()
    ae.script['echo'] = exceptions.EventHandlingError('x') if outcome == 'EHE' else statuses.Status(outcome, dm.CEchoRSPMessage)
    a = S.make_association(ae, policy)
    msg = S.decode_message(S.request_bytes(0x0030, mid, VERIF, has_data=False), b'', ctx)
    tr = [{'ev': 'Req', 'svc': 'echo', 'req': {'type': 0x0030, 'ctx': ctx, 'mid': mid, 'cls': VERIF, 'inst': ''}},
          {'ev': 'Handler', 'status': DOCUMENTED_FAILURE['echo'] if outcome == 'EHE' else outcome}]
    sopclass.verification_scp(a, S.ctx_def(ctx, VERIF), msg)
    a.dul.drain()
    return finish(tr + rsp_events(a), a)


def run_store(rng, policy, mid, ctx, outcome, uid_len=20):
    ae = S.ScriptAE()
    ae.script['store'] = exceptions.EventHandlingError('x') if outcome == 'EHE' else statuses.Status(outcome, dm.CStoreRSPMessage)
    a = S.make_association(ae, policy)
    inst = D.make_uid(uid_len, rng.randint(0, 9))
    data = enc(instance(rng, 1))
    msg = S.decode_message(S.request_bytes(0x0001, mid, CT, inst), data, ctx)
    # storage_scp closes msg.data_set: hand it a file-like object as file-backed reception does
    import io
    msg.data_set = io.BytesIO(data)
    tr = [{'ev': 'Req', 'svc': 'store', 'req': {'type': 0x0001, 'ctx': ctx, 'mid': mid, 'cls': CT, 'inst': inst}},
          {'ev': 'Handler', 'status': DOCUMENTED_FAILURE['store'] if outcome == 'EHE' else outcome}]
    sopclass.storage_scp(a, S.ctx_def(ctx, CT), msg)
    a.dul.drain()
    return finish(tr + rsp_events(a), a)


def commit_dataset(rng, n):
    ds = pydicom.Dataset()
    ds.TransactionUID = '1.2.3.777.%d' % rng.randint(1, 9999)
    seq = []
    for i in range(n):
        r = pydicom.Dataset()
        r.ReferencedSOPClassUID = SR
        r.ReferencedSOPInstanceUID = '1.2.3.9.%d' % i
        seq.append(r)
    ds.ReferencedSOPSequence = pydicom.Sequence(seq)
    return ds


def run_naction(rng, policy, mid, ctx, outcome, n=3, split='mixed', inst=None):
    inst = inst or COMMIT_INST
    ae = S.ScriptAE()
    ds = commit_dataset(rng, n)
    uids = [(SR, '1.2.3.9.%d' % i) for i in range(n)]
    if split == 'success':
        ok, bad = uids, None
    elif split == 'failure':
        ok, bad = None, [(c, i, 0x0112) for c, i in uids]
    else:
        ok, bad = uids[:n // 2] or None, [(c, i, 0x0110) for c, i in uids[n // 2:]] or None
    ae.script['commit_rq'] = exceptions.EventHandlingError('x') if outcome == 'EHE' else ({'aet': 'REMOTE', 'address': 'h', 'port': 1}, ok, bad)
    # the peer's NEXT request is already waiting on this association: it belongs to the handler loop, not to the service
    nxt = S.decode_message(S.request_bytes(0x0030, (mid + 1) % 65536, VERIF, has_data=False), b'', ctx)
    a = S.make_association(ae, policy, [(nxt, ctx)])
    msg = S.decode_message(S.request_bytes(0x0130, mid, COMMIT, inst, extra=[(cmdset.TAG_ACTION_TYPE, cmdset.us(1))]), enc(ds), ctx)
    tr = [{'ev': 'Req', 'svc': 'naction', 'req': {'type': 0x0130, 'ctx': ctx, 'mid': mid, 'cls': COMMIT, 'inst': inst}},
          {'ev': 'Handler', 'status': DOCUMENTED_FAILURE['naction'] if outcome == 'EHE' else 0}]
    sub = S.SubAssociation(ae, None)
    extra = {}
    try:
        S.sopclass.StorageCommitment()(a, S.ctx_def(ctx, COMMIT), msg)          # the way the handler loop calls it
    except Exception as exc:      # noqa
        extra['raised'] = 'n_action raised %s: %s' % (type(exc).__name__, exc)
    a.dul.drain()
    if len(a.dul.replies) != 1:
        extra['foreign-receive'] = 'the service took a message off the REQUESTING association while it was dealing with the report association'

    if outcome != 'EHE':
        subs = ae.sub_associations
        if len(subs) != 1 or len(subs[0].sent) != 1:
            extra['report'] = 'N-EVENT-REPORT not sent exactly once on a sub-association (%d)' % len(subs)
        else:
            w = subs[0].sent[0]
            rep = pydicom.dataset.Dataset()
            rd = dsref.decode(w.data, False, True)           # the report association negotiated explicit VR little endian
            if w.ctx != S.SUB_CTX:
                extra['report_context'] = 'N-EVENT-REPORT sent on context %d; the association it is sent over negotiated %d for the class' % (w.ctx, S.SUB_CTX)
            got_ok = [(str(i.ReferencedSOPClassUID), str(i.ReferencedSOPInstanceUID)) for i in getattr(rd, 'ReferencedSOPSequence', [])]
            got_bad = [(str(i.ReferencedSOPClassUID), str(i.ReferencedSOPInstanceUID)) for i in getattr(rd, 'FailedSOPSequence', [])]
            if got_ok != [(c, i) for c, i in (ok or [])] or got_bad != [(c, i) for c, i, _ in (bad or [])]:
                extra['report'] = 'N-EVENT-REPORT lists differ from what the handler returned'
            if str(rd.TransactionUID) != str(ds.TransactionUID):
                extra['report'] = 'transaction UID not preserved'
            if w.type != 0x0100 or w.u16(cmdset.TAG_EVENT_TYPE) != (2 if bad else 1):
                extra['report'] = 'N-EVENT-REPORT type / event type id wrong (%#x, %d)' % (w.type, w.u16(cmdset.TAG_EVENT_TYPE))
    return finish(tr + rsp_events(a), a), extra


def run_commit_concurrent(rng, mids, kind='naction'):
    """ONE StorageCommitment service object (as registered on an entity) serves two associations whose requests overlap:
    the first request's application handler is still running when the second request is dispatched.  Returns one trace
    per request."""
    import threading
    service = S.sopclass.StorageCommitment()
    entered, go = threading.Event(), threading.Event()
    assocs, traces, errs = [], [], []
    for k, mid in enumerate(mids):
        ae = S.ScriptAE()
        first = (k == 0)

        def on_rq(remote_ae, uids, first=first):
            if first:
                entered.set()
                go.wait(10)
            else:
                go.set()
            return {'aet': 'REMOTE', 'address': 'h', 'port': 1}, list(uids), None

        def on_rsp(transaction_uid, success, failure, first=first):
            list(success), list(failure)
            if first:
                entered.set()
                go.wait(10)
            else:
                go.set()
        ae.on_commitment_request = on_rq
        ae.on_commitment_response = on_rsp
        a = S.make_association(ae, 'eager')
        ctx = [1, 3][k]
        if kind == 'naction':
            ds = commit_dataset(rng, 2)
            msg = S.decode_message(S.request_bytes(0x0130, mid, COMMIT, COMMIT_INST, extra=[(cmdset.TAG_ACTION_TYPE, cmdset.us(1))]), enc(ds), ctx)
            req = {'type': 0x0130, 'ctx': ctx, 'mid': mid, 'cls': COMMIT, 'inst': COMMIT_INST}
            svc = 'naction'
        else:
            ds = pydicom.Dataset()
            ds.TransactionUID = '1.2.3.777.%d' % k
            item = pydicom.Dataset()
            item.ReferencedSOPClassUID, item.ReferencedSOPInstanceUID = SR, '1.2.3.9.%d' % k
            ds.ReferencedSOPSequence = pydicom.Sequence([item])
            msg = S.decode_message(S.request_bytes(0x0100, mid, COMMIT, COMMIT_INST, extra=[(cmdset.TAG_EVENT_TYPE, cmdset.us(1))]), enc(ds), ctx)
            req = {'type': 0x0100, 'ctx': ctx, 'mid': mid, 'cls': COMMIT, 'inst': COMMIT_INST}
            svc = 'nevent'
        assocs.append((a, ctx, msg, req, svc))

    def worker(k):
        a, ctx, msg, req, svc = assocs[k]
        try:
            service(a, S.ctx_def(ctx, COMMIT), msg)
        except Exception as exc:      # noqa
            errs.append('%s: %s' % (type(exc).__name__, exc))
    t1 = threading.Thread(target=worker, args=(0,))
    t1.start()
    entered.wait(10)
    t2 = threading.Thread(target=worker, args=(1,))
    t2.start()
    t1.join(20)
    t2.join(20)
    go.set()
    for a, ctx, msg, req, svc in assocs:
        a.dul.drain()
        tr = [{'ev': 'Req', 'svc': svc, 'req': req}, {'ev': 'Handler', 'status': 0}]
        traces.append(finish(tr + rsp_events(a), a))
    return traces, errs


def run_commit_sequence(rng, kinds, mids, ctx):
    """ONE StorageCommitment service object serves several requests of ONE association on ONE context, of different
    commands (N-ACTION and N-EVENT-REPORT share the class): each must be answered as what it is.  One trace per request."""
    service = S.sopclass.StorageCommitment()
    ae = S.ScriptAE()
    ae.script['commit_rsp'] = None
    a = S.make_association(ae, 'eager')
    traces, extras = [], []
    for k, (kind, mid) in enumerate(zip(kinds, mids)):
        before = len([w for w in a.dul.wire if isinstance(w, S.WireMsg)])
        sent_before = a.dul.sent_count
        calls_before = len(ae.calls)
        if kind == 'naction':
            ds = commit_dataset(rng, 2)
            ae.script['commit_rq'] = ({'aet': 'REMOTE', 'address': 'h', 'port': 1}, [(SR, '1.2.3.9.0'), (SR, '1.2.3.9.1')], None)
            msg = S.decode_message(S.request_bytes(0x0130, mid, COMMIT, COMMIT_INST, extra=[(cmdset.TAG_ACTION_TYPE, cmdset.us(1))]), enc(ds), ctx)
            req = {'type': 0x0130, 'ctx': ctx, 'mid': mid, 'cls': COMMIT, 'inst': COMMIT_INST}
        else:
            ds = pydicom.Dataset()
            ds.TransactionUID = '1.2.3.777.%d' % k
            item = pydicom.Dataset()
            item.ReferencedSOPClassUID, item.ReferencedSOPInstanceUID = SR, '1.2.3.9.%d' % k
            ds.ReferencedSOPSequence = pydicom.Sequence([item])
            msg = S.decode_message(S.request_bytes(0x0100, mid, COMMIT, COMMIT_INST, extra=[(cmdset.TAG_EVENT_TYPE, cmdset.us(1))]), enc(ds), ctx)
            req = {'type': 0x0100, 'ctx': ctx, 'mid': mid, 'cls': COMMIT, 'inst': COMMIT_INST}
        extra = {}
        try:
            service(a, S.ctx_def(ctx, COMMIT), msg)
        except Exception as exc:      # noqa
            extra['raised'] = '%s #%d of %s on one association raised %s: %s' % (kind, k + 1, kinds, type(exc).__name__, exc)
        a.dul.drain()
        new = [w for w in a.dul.wire if isinstance(w, S.WireMsg)][before:]
        handler = 'commit_rq' if kind == 'naction' else 'commit_rsp'
        if not extra and len([c for c in ae.calls[calls_before:] if c[0] == handler]) != 1:
            extra['handler'] = '%s #%d of %s on one association: the application handler %s was not called exactly once (calls: %s)' % (
                kind, k + 1, kinds, handler, [c[0] for c in ae.calls[calls_before:]])
        tr = [{'ev': 'Req', 'svc': kind if kind == 'naction' else 'nevent', 'req': req}, {'ev': 'Handler', 'status': 0}]
        tr += [{'ev': 'Rsp', 'r': w.record(), 'total': 0} for w in new]
        tr.append({'ev': 'End', 'sent': a.dul.sent_count - sent_before, 'drained': len(new)})
        traces.append(tr)
        extras.append(extra)
    return traces, extras


def run_nevent(rng, policy, mid, ctx, outcome, n=2, shape='success'):
    """shape: which lists the report carries: 'success' (Referenced SOP Sequence only), 'failure' (Failed SOP Sequence
    only), 'mixed'."""
    ae = S.ScriptAE()
    ae.script['commit_rsp'] = exceptions.EventHandlingError('x') if outcome == 'EHE' else None
    a = S.make_association(ae, policy)
    ds = pydicom.Dataset()
    ds.TransactionUID = '1.2.3.777.%d' % rng.randint(1, 9999)

    def refs(k, failed):
        seq = []
        for i in range(k):
            r = pydicom.Dataset()
            r.ReferencedSOPClassUID = SR
            r.ReferencedSOPInstanceUID = '1.2.3.9.%d' % i
            if failed:
                r.FailureReason = 0x0112
            seq.append(r)
        return pydicom.Sequence(seq)
    if shape in ('success', 'mixed'):
        ds.ReferencedSOPSequence = refs(n, False)
    if shape in ('failure', 'mixed'):
        ds.FailedSOPSequence = refs(n, True)
    msg = S.decode_message(S.request_bytes(0x0100, mid, COMMIT, COMMIT_INST, extra=[(cmdset.TAG_EVENT_TYPE, cmdset.us(2 if shape != 'success' else 1))]), enc(ds), ctx)
    tr = [{'ev': 'Req', 'svc': 'nevent', 'req': {'type': 0x0100, 'ctx': ctx, 'mid': mid, 'cls': COMMIT, 'inst': COMMIT_INST}},
          {'ev': 'Handler', 'status': DOCUMENTED_FAILURE['nevent'] if outcome == 'EHE' else 0}]
    extra = {}
    try:
        S.sopclass.StorageCommitment()(a, S.ctx_def(ctx, COMMIT), msg)
    except Exception as exc:      # noqa
        extra['raised'] = 'n_event_report raised %s: %s (report shape %s)' % (type(exc).__name__, exc, shape)
    a.dul.drain()
    if outcome != 'EHE' and not extra:
        got = [c for c in ae.calls if c[0] == 'commit_rsp']
        if len(got) != 1 or len(got[0][1][1]) != (n if shape != 'failure' else 0) or len(got[0][1][2]) != (n if shape != 'success' else 0):
            extra['handler_args'] = 'on_commitment_response did not get the lists of the report'
    return finish(tr + rsp_events(a), a), extra


# ------------------------------------------------------------------ C-FIND / worklist

def run_find_scp(rng, policy, mid, ctx, matches, worklist=False, max_len=16384, ctx_sop=None, fail_after=None):
    """matches: list of (pending status code, size hint).  max_len 'fit' / 'fit2': the maximum is chosen so that the
    first identifier fills exactly one / two fragments."""
    sop = MWL if worklist else FIND
    # size hint None: the application yields None as the identifier (the natural companion of a final status of its own)
    results = [(None if n is None else ident(rng, n), statuses.Status(s, dm.CFindRSPMessage)) for s, n in matches]
    if max_len in ('fit', 'fit2'):
        ln = len(enc(results[0][0])) if results else 40
        max_len = (ln + 6) if max_len == 'fit' or ln % 2 else (ln // 2 + 6)
    ae = S.ScriptAE(max_len)
    query = ident(rng)
    seen = {}

    def handler(context, ds):
        seen['query'] = enc(ds)
        if fail_after is None:
            return iter(results)
        if fail_after == 0:
            raise exceptions.EventHandlingError('the application cannot answer')     # before anything is yielded

        def gen():
            for k, item in enumerate(results):
                if k == fail_after:
                    raise exceptions.EventHandlingError('the application fails while matching')
                yield item
        return gen()
    ae.script['find'] = handler
    a = S.make_association(ae, policy, max_len=max_len)
    msg = S.decode_message(S.request_bytes(0x0020, mid, sop), enc(query), ctx)
    tr = [{'ev': 'Req', 'svc': 'mwl' if worklist else 'find', 'req': {'type': 0x0020, 'ctx': ctx, 'mid': mid, 'cls': sop, 'inst': ''}}]
    for ds, st in (results if fail_after is None else results[:fail_after]):
        tr.append({'ev': 'Match', 'd': 0 if ds is None else S.token(enc(ds)), 's': int(st)})
    if fail_after is not None:
        tr.append({'ev': 'Handler', 'status': DOCUMENTED_FAILURE['find']})
    # ctx_sop: the request names one find class, the context it arrives on was negotiated for another one
    extra = {}
    try:
        (sopclass.modality_work_list_scp if worklist else sopclass.qr_find_scp)(a, S.ctx_def(ctx, ctx_sop or sop), msg)
    except Exception as exc:      # noqa
        extra['raised'] = 'the C-FIND provider raised %s: %s (handler %s)' % (type(exc).__name__, exc, 'fails after %r items' % fail_after if fail_after is not None else 'ok')
    a.dul.drain()
    if seen.get('query') != enc(query):
        extra['query'] = 'the query data set reaching the handler differs from the one sent'
    return finish(tr + rsp_events(a), a), extra


def run_find_scu(rng, mid, ctx, responses, final, worklist=False, wrapper=False):
    """responses: list of (pending code, size hint); final: status code.  The peer's responses arrive in wire form."""
    ae = S.ScriptAE()
    sop = MWL if worklist else FIND
    replies, wire = [], []
    for s, n in responses:
        ds = ident(rng, n)
        replies.append((S.decode_message(S.response_bytes(0x8020, mid, sop, s, has_data=True), enc(ds), ctx), ctx))
        wire.append({'d': S.token(enc(ds)), 's': s})
    replies.append((S.decode_message(S.response_bytes(0x8020, mid, sop, final), b'', ctx), ctx))
    wire.append({'d': 0, 's': final})
    # anything the peer would send afterwards must not be consumed
    replies.append((S.decode_message(S.response_bytes(0x8020, mid, sop, 0xFF00, has_data=True), enc(ident(rng)), ctx), ctx))
    a = S.make_association(ae, 'eager', replies)
    query = ident(rng)
    tr = [{'ev': 'Req', 'svc': 'mwl-scu' if worklist else 'find-scu', 'req': {'type': 0x0020, 'ctx': ctx, 'mid': mid, 'cls': sop, 'inst': ''}}]
    gen = (sopclass.modality_work_list_scu if worklist else sopclass.qr_find_scu)(a, S.ctx_def(ctx, sop), query, mid)
    extra = {}
    try:
        for ds, st in gen:
            tr.append({'ev': 'Got', 'd': S.token(enc(ds)) if ds is not None else 0, 's': int(st), 'wire': wire})
    except Exception as exc:      # noqa - e.g. the user kept receiving after the final response until nothing was left
        extra['raised'] = 'iterating the responses raised %s: %s' % (type(exc).__name__, exc)
    a.dul.drain()
    sent = [w for w in a.dul.wire if isinstance(w, S.WireMsg)]
    if len(sent) != 1 or sent[0].data != enc(query) or sent[0].type != 0x0020 or sent[0].u16(cmdset.TAG_MSG_ID) != mid or sent[0].ctx != ctx:
        extra['request'] = 'C-FIND-RQ on the wire is not the query given (ctx/mid/identifier)'
    if len(a.dul.replies) != 1:
        extra['overrun'] = 'the user consumed %d responses after the final one' % (1 - len(a.dul.replies))
    tr.append({'ev': 'End', 'sent': 1, 'drained': len(sent)})
    return tr, extra


# ------------------------------------------------------------------ C-GET user

def run_get_scu(rng, mid, ctx, plan, handler_outcomes, policy='eager', final=0x0000):
    """plan: list of ('store', pc_id, mid, size) / ('pending',) items, followed by the final C-GET-RSP."""
    ae = S.ScriptAE()
    ae.add_scu(sopclass.qr_get_scu)                      # context ids 1, 3, 5
    ae.add_scu(sopclass.storage_scu, [CT, SR])           # 7, 9
    pcs = {7: CT, 9: SR}
    outcomes = list(handler_outcomes)

    def on_store(context, ds):
        o = outcomes.pop(0) if outcomes else 0
        if o == 'EHE':
            raise exceptions.EventHandlingError('x')
        return statuses.Status(o, dm.CStoreRSPMessage)
    ae.script['store'] = on_store
    replies = []
    tr = [{'ev': 'Req', 'svc': 'get-scu', 'req': {'type': 0x0010, 'ctx': ctx, 'mid': mid, 'cls': GET, 'inst': ''}}]
    items = []
    k = 0
    nstores = len([it for it in plan if it[0] != 'pending'])
    for it in plan:
        if it[0] == 'pending':
            # progress as a provider reports it: remaining goes down to 0 - possibly before the final response
            replies.append((S.decode_message(S.response_bytes(0x8010, mid, GET, 0xFF00, extra=[
                (cmdset.TAG_REMAINING, cmdset.us(max(nstores - k, 0))), (cmdset.TAG_COMPLETED, cmdset.us(k))]), b'', ctx), ctx))
        else:
            _, pc, smid, size = it
            inst = '1.2.3.4.%d' % k
            ds = instance(rng, k, pcs[pc])
            data = enc(ds)
            replies.append((S.decode_message(S.request_bytes(0x0001, smid, pcs[pc], inst), data, pc), pc))
            oc_k = handler_outcomes[k] if k < len(handler_outcomes) else 0
            items.append({'d': S.token(data), 'ctx': pc, 'mid': smid, 'cls': pcs[pc], 'inst': inst, 'dest': 0, 'ehe': oc_k == 'EHE'})
            k += 1
    replies.append((S.decode_message(S.response_bytes(0x8010, mid, GET, final), b'', ctx), ctx))
    # what the peer sends afterwards belongs to the next operation and must not be consumed
    replies.append((S.decode_message(S.response_bytes(0x8030, mid, '1.2.840.10008.1.1', 0), b'', ctx), ctx))
    a = S.make_association(ae, policy, replies)
    # events in causal order: a C-STORE-RQ "arrives" when receive() hands it over
    arrived = {'n': 0}
    orig_receive = a.dul.receive

    def receive(timeout=None):
        r = orig_receive(timeout)
        if isinstance(r, tuple) and r[0].command_field == 0x0001:
            q = items[arrived['n']]
            arrived['n'] += 1
            tr.append(dict(q, ev='Inst'))
            oc = handler_outcomes[arrived['n'] - 1] if arrived['n'] - 1 < len(handler_outcomes) else 0
            tr.append({'ev': 'Handler', 'status': DOCUMENTED_FAILURE['get-scu'] if oc == 'EHE' else oc})
        return r
    a.dul.receive = receive
    seen = 0

    def on_wire(w):
        tr.append({'ev': 'SubRsp', 'r': w.record()}) if w.type == 0x8001 else None
    a.dul.on_wire = on_wire
    gen = sopclass.qr_get_scu(a, S.ctx_def(ctx, GET), ident(rng), mid)
    extra = {}
    try:
        for c, ds in gen:
            tr.append({'ev': 'Got', 'd': S.token(enc(ds)) if not hasattr(ds, 'read') else -1, 's': 0, 'wire': []})
    except Exception as exc:      # noqa
        extra['raised'] = '%s: %s' % (type(exc).__name__, exc)
    a.dul.drain()
    if len(a.dul.replies) != 1:
        extra['overrun'] = 'the C-GET user consumed %d message(s) after the final C-GET response (status %#x)' % (1 - len(a.dul.replies), final)
    sent = [w for w in a.dul.wire if isinstance(w, S.WireMsg)]
    tr.append({'ev': 'End', 'sent': a.dul.sent_count, 'drained': len(sent)})
    return tr, extra


# ------------------------------------------------------------------ C-MOVE provider

def run_move_scp(rng, policy, mid, ctx, n, outcomes, known=True, supplied=None, fault=None):
    """fault: None | 'handler' (the application's on_receive_move signals an event-handling error) | 'rejected' (the
    destination refuses the association) | ('refused', k) (the destination did not accept the class of instance k)."""
    ae = S.ScriptAE()
    insts = [instance(rng, i) for i in range(n)]
    dest = {'aet': 'DEST', 'address': 'dest.example', 'port': 11112}
    # supplied: the application announces n sub-operations but its iterator yields fewer (nothing, in the extreme)
    if supplied is not None:
        insts = insts[:supplied]
    ae.script['move'] = (dest if known else None, n, iter(insts))
    if fault == 'handler':
        ae.script['move'] = exceptions.EventHandlingError('the application cannot perform the move')
    a = S.make_association(ae, policy)
    query = ident(rng)
    msg = S.decode_message(S.request_bytes(0x0021, mid, MOVE, extra=[(cmdset.TAG_MOVE_DEST, b'DEST')]), enc(query), ctx)
    tr = [{'ev': 'Req', 'svc': 'move', 'req': {'type': 0x0021, 'ctx': ctx, 'mid': mid, 'cls': MOVE, 'inst': ''}}]
    orig = S.SubAssociation.get_scu
    codes = list(outcomes)
    extra = {}

    def tok(ds):
        return 1 + (hash(str(ds.SOPInstanceUID)) % 100000)
    for ds in insts:
        tr.append({'ev': 'Inst', 'd': tok(ds), 'ctx': 0, 'mid': 0, 'cls': '', 'inst': '', 'dest': 1, 'ehe': False})
    if fault is not None:
        tr.append({'ev': 'Handler', 'status': DOCUMENTED_FAILURE['move']})
    # interleave SubStore and Rsp in the order they really happened
    order = []
    ra = ae.request_association

    import contextlib

    @contextlib.contextmanager
    def request_association(remote_ae):
        if remote_ae is None:
            # what the real entity does with no destination: AssociationRequester.request() fails on remote_ae.get(...)
            raise AttributeError("'NoneType' object has no attribute 'get'")
        if fault == 'rejected':
            raise exceptions.AssociationRejectedError(1, 1, 7)
        sub = S.SubAssociation(ae, remote_ae)
        sub.store_status = list(codes)
        ae.sub_associations.append(sub)
        real_get = sub.get_scu
        asked = [0]

        def get_scu(sop_class):
            if isinstance(fault, tuple) and fault[0] == 'refused' and asked[0] == fault[1]:
                raise exceptions.ClassNotSupportedError('SOP Class %s not supported as SCU' % sop_class)
            asked[0] += 1
            svc_ = real_get(sop_class)

            def service(dataset, msg_id):
                a.dul.drain() if policy == 'eager' else None
                order.append(('store', tok(dataset), 1 if remote_ae is dest else 2))
                return svc_(dataset, msg_id)
            return service
        sub.get_scu = get_scu
        yield sub
    ae.request_association = request_association
    a.dul.on_wire = lambda w: order.append(('rsp', w.record()))
    try:
        sopclass.qr_move_scp(a, S.ctx_def(ctx, MOVE), msg)
    except Exception as exc:      # noqa
        extra['raised'] = '%s: %s' % (type(exc).__name__, exc)
    a.dul.drain()
    for sub in ae.sub_associations:
        if sub.sent:
            extra['foreign'] = 'the provider sent %s on the association to the move destination (only C-STORE requests belong there)' % \
                [hex(w.type) for w in sub.sent]
    for o in order:
        if o[0] == 'store':
            tr.append({'ev': 'SubStore', 'd': o[1], 'dest': o[2]})
        else:
            tr.append({'ev': 'Rsp', 'r': o[1], 'total': n})
    return finish(tr, a), extra
