"""C03 - PDU framing is independent of how TCP segments the byte stream.

Spec: specs/Framing.tla (byte-level: Conservation, PrefixOfSent, Aligned, AllRecognised over EVERY
delivery schedule, exhaustively by TLC) and ULProvider (PairedSlot; frames are cut off the front
of the buffer exactly when complete; the buffer is drained before the socket is read again).
Binding (substrate S1, real run() loop): every conversation of the corpus is replayed under
every single cut offset of the peer's stream, every pair of cut offsets (thorough) / seeded pairs
(quick), one-byte dribble, seeded k-cuts, with and without the first segment already waiting.
Each recorded execution is (a) validated by TLC against Trace_ULProvider and (b) compared with the
one-PDU-per-segment baseline: same indications to the user, same PDUs on the wire, same end state.
"""
from __future__ import annotations

import itertools
import random
import sys

from . import tlc, ulcorpus, ulcheck
from .common import Verdict, main_wrapper, Machinery, seed


def observable(played):
    r = played.run
    inds = []
    wire = []
    for e in r.trace:
        if e['ev'] == 'Iter':
            inds.extend((i['k'], tuple(i['f'])) for i in e['ind'])
            wire.extend((w['k'], tuple(w['f'])) for w in e['wire'])
        if e['ev'] in ('Died', 'Hang'):
            inds.append(('!' + e['ev'],))
    return {'ind': inds, 'wire': wire, 'state': r.state(), 'sock': r.trace[-1].get('sock') if r.trace[-1]['ev'] == 'Iter' else None,
            'outcome': played.outcome}


def schedules(total, tier, rng, bounds):
    """Yield (label, kwargs) delivery schedules for a peer stream of `total` bytes."""
    yield 'baseline', {'cuts': bounds}           # exactly one PDU per segment
    yield 'at-once', {}                           # everything the peer writes in one go arrives as one segment
    yield 'dribble', {'dribble': True}
    # the peer closes right behind its last write: the close is readable as soon as the last byte is
    yield 'baseline+close', {'cuts': bounds, 'eager_fin': True}
    yield 'at-once+close', {'eager_fin': True}
    yield 'dribble+close', {'dribble': True, 'eager_fin': True}
    wide = 1 if (tier == 'thorough' or total <= 600) else total // 300       # long streams: every offset only in thorough
    for c in range(1, total, 7 * wide):
        yield 'cut@%d+close' % c, {'cuts': (c,), 'eager_fin': True}
    for c in range(1, total, wide):
        yield 'cut@%d' % c, {'cuts': (c,)}
    if tier == 'thorough' and total <= 700:
        step = 1 if total <= 200 else (2 if total <= 320 else 4)
        for a in range(1, total, step):
            for b in range(a + 1, total, step):
                yield 'cuts@%d,%d' % (a, b), {'cuts': (a, b)}
    elif tier == 'thorough':
        for _ in range(12000):
            a, b = sorted(rng.sample(range(1, total), 2))
            yield 'cuts@%d,%d' % (a, b), {'cuts': (a, b)}
    else:
        for _ in range(40):
            a, b = sorted(rng.sample(range(1, total), 2))
            yield 'cuts@%d,%d' % (a, b), {'cuts': (a, b)}
        # pairs straddling the PDU headers (offsets 1..7 after each other)
        for a in range(1, min(total, 12)):
            for b in range(a + 1, min(total, 14)):
                yield 'cuts@%d,%d' % (a, b), {'cuts': (a, b)}
    for _ in range(20 if tier == 'quick' else 200):
        k = rng.randint(3, 8)
        cs = tuple(sorted(rng.sample(range(1, total), min(k, total - 1))))
        yield 'kcuts@%s' % (cs,), {'cuts': cs}
    # a provider whose own maximum (= the size of its reads) is smaller than some of the peer's PDUs: reads that return
    # exactly a full buffer, PDUs that need several reads
    for lm in (128, 64):
        yield 'lm%d-baseline' % lm, {'cuts': bounds, 'local_max': lm}
        yield 'lm%d-at-once' % lm, {'local_max': lm}
        for c in sorted({lm, 2 * lm, lm + 6, lm + 7, lm + 20} | {rng.randint(1, total - 1) for _ in range(6)}):
            if 0 < c < total:
                yield 'lm%d-cut@%d' % (lm, c), {'cuts': (c,), 'local_max': lm}


class _Collector(object):
    """Stands for a Verdict inside a worker process: collects report() calls."""

    def __init__(self):
        self.items = []

    def report(self, key, what, replay=None):
        self.items.append((key, what, {'recipe': (replay or {}).get('recipe')} if replay else None))


def _work(args):
    """One conversation under every schedule: play, compare with the baseline, validate with TLC.  Runs in a worker
    process; returns (reports, stats, samples, stream length)."""
    tier, sd, req, name = args
    rng = random.Random('%s-%s-%s' % (sd, req, name))
    corp = ulcorpus.REQUESTOR if req else ulcorpus.ACCEPTOR
    sc = corp[name]
    col = _Collector()
    total = len(ulcorpus.peer_stream(sc))
    base = None
    runs, recipes, samples = [], [], []
    n_diff = 0
    tot = {'traces': 0, 'events': 0, 'states': 0, 'rejected': 0}

    def flush():
        if not runs:
            return
        st = ulcheck.validate(col, runs, recipes, chunk=3000)
        for k in tot:
            tot[k] += st[k]
        del runs[:]
        del recipes[:]
    for waiting in (False, True):
        for label, kw in schedules(total, tier, rng, ulcorpus.pdu_boundaries(sc)):
            if tier == 'quick' and waiting and label.startswith('cut@') and '+' not in label and int(label[4:]) % 3:
                continue
            p = ulcorpus.play(sc, req, waiting=waiting, **kw)
            obs = observable(p)
            if base is None:
                base = obs
                if obs['outcome'] != 'ok':
                    col.report({'site': 'dulprovider.run', 'clause': 'baseline', 'conv': name},
                               'baseline run of %s/%s ends with %s' % ('req' if req else 'acc', name, obs['outcome']))
            rec = {'req': req, 'conv': name, 'waiting': waiting, 'schedule': label,
                   'kw': {k: list(x) if isinstance(x, tuple) else x for k, x in kw.items()}}
            runs.append(p.run)
            recipes.append(rec)
            if obs != base:
                n_diff += 1
                what = []
                for k in ('ind', 'wire', 'state', 'sock', 'outcome'):
                    if obs[k] != base[k]:
                        what.append('%s: %r instead of %r' % (k, obs[k], base[k]))
                col.report({'site': 'dulprovider.run', 'clause': 'segmentation-dependence', 'conv': name,
                            'diff': sorted(k for k in obs if obs[k] != base[k])[0]},
                           '%s conversation %r under schedule %s (first segment waiting=%s) differs from one-PDU-per-segment: %s'
                           % ('requestor' if req else 'acceptor', name, label, waiting, '; '.join(what)[:400]),
                           replay={'recipe': rec})
            if len(samples) < 1 and label.startswith('cuts@'):
                samples.append({'recipe': rec, 'observed': {'ind': obs['ind'], 'wire': obs['wire'], 'state': obs['state']}})
            if len(runs) >= 3000:
                flush()
    flush()
    tot['diff'] = n_diff
    return col.items, tot, samples, (('req-' if req else 'acc-') + name, total)


def main(tier='quick'):
    import multiprocessing
    v = Verdict('C03', tier)
    fr = tlc.run('Framing', 'Framing.cfg' if tier == 'quick' else 'Framing_thorough.cfg', workers=4)
    if not fr.ok:
        raise Machinery('Framing.tla fails TLC: %s %s' % (fr.violated, fr.errors[:2]))
    tasks = [(tier, seed(), req, name) for req, corp in ((False, ulcorpus.ACCEPTOR), (True, ulcorpus.REQUESTOR)) for name in sorted(corp)]
    with multiprocessing.Pool(processes=min(14, len(tasks))) as pool:
        results = pool.map(_work, tasks, chunksize=1)
    samples, per_conv = [], {}
    stats = {'traces': 0, 'events': 0, 'states': 0, 'rejected': 0, 'diff': 0}
    for items, tot, smp, (cname, total) in results:
        for key, what, rp in items:
            v.report(key, what, replay=rp)
        for k in stats:
            stats[k] += tot[k]
        samples.extend(smp)
        per_conv[cname] = total
    n_diff = stats['diff']
    ev = {
        'tier': tier, 'level': 'model_checking',
        'coverage': {
            'states': fr.distinct, 'transitions': fr.generated,
            'traces_validated_against_impl': stats['traces'],
            'trace_events_validated': stats['events'], 'trace_validation_states': stats['states'],
            'runs_differing_from_baseline': n_diff, 'rejected_traces': stats['rejected'],
            'peer_stream_bytes_per_conversation': per_conv,
            'samples': samples[:4],
            'exhaustive': False,
            'explanation': 'Framing.tla: all delivery schedules of the modelled stream (exhaustive). Implementation: every '
                           'single cut offset of every corpus conversation, dribble, %s pairs of cuts, seeded k-cuts, the peer '
                           'closing right behind its last write, x first segment waiting' % ('all' if tier == 'thorough' else 'seeded and header-straddling'),
        },
        'assumptions': ['the peer writes whole PDUs; segmentation is applied by the simulated network',
                        'recv returns everything that has arrived (up to the requested size)'],
    }
    return v.finish(ev)


def replay(doc):
    rec = doc['replay']['recipe']
    corp = ulcorpus.REQUESTOR if rec['req'] else ulcorpus.ACCEPTOR
    sc = corp[rec['conv']]
    kw = {k: (tuple(x) if isinstance(x, list) else x) for k, x in rec['kw'].items()}
    base = observable(ulcorpus.play(sc, rec['req'], cuts=ulcorpus.pdu_boundaries(sc)))
    p = ulcorpus.play(sc, rec['req'], waiting=rec['waiting'], **kw)
    obs = observable(p)
    v = Verdict('C03', 'quick')
    ulcheck.validate(v, [p.run], [rec])
    if obs != base or v.violations:
        print('REPRODUCED: schedule %s: %r vs baseline %r' % (rec['schedule'], obs, base))
        return 1
    return 0


if __name__ == '__main__':
    main_wrapper(lambda: main(sys.argv[1] if len(sys.argv) > 1 else 'quick'))
