"""C14 - rejection, abort and release are reported faithfully to both sides.

Spec: specs/AssocLifecycle.tla (clauses over one observed scenario: RJ carries exactly the triple the
application gave and it surfaces unchanged; no service on a refused association; abort source and
reason preserved to the other side's error; release surfaces; normal exit releases, exceptional exit
aborts).
Binding: substrate S3 - real application, handler and provider threads over socketpairs.  Refusal
triples (standard values exhaustively, other bytes sampled), abort by either side before / between /
during DIMSE exchanges (from inside a service handler, right behind a multi-fragment send), release
by the acceptor, normal and exceptional exit of the requesting context manager.  Both wires are
recorded and re-read by the reference parser; errors and their attributes are captured on both
sides; TLC judges each scenario (Trace_AssocLifecycle).
"""
from __future__ import annotations

import random
import sys
import threading

from . import tlc, realnet as R
from .common import Verdict, main_wrapper, Machinery, seed

ae_mod, exceptions = R.applicationentity, R.exceptions
from pynetdicom2 import sopclass as sc, statuses, dimsemessages as dm  # noqa: E402
import pydicom  # noqa: E402

ADDR = ('srv.example', 104)
REMOTE = {'aet': 'SRV', 'address': ADDR[0], 'port': ADDR[1]}
CT = '1.2.840.10008.5.1.4.1.1.2'


class UserError(Exception):
    pass


class UserInterrupt(BaseException):
    """What KeyboardInterrupt / SystemExit are: a way out of the block that is not an Exception."""


class Server(ae_mod.AE):
    """Accepting entity whose behaviour is set per scenario."""

    def __init__(self):
        super(Server, self).__init__('SRV', 0, max_pdu_length=4096, bind_and_activate=False)
        self.refuse = None
        self.services_ran = []
        self.acc_err = {'type': 'none', 'f': []}
        self.in_echo = None          # callable(asce) run inside the echo handler
        self.timeout = 5

    def on_association_request(self, asce, assoc):
        if self.refuse:
            raise exceptions.AssociationRejectedError(*self.refuse)

    def on_receive_echo(self, context):
        self.services_ran.append('echo')
        return statuses.SUCCESS

    def on_receive_store(self, context, ds):
        self.services_ran.append('store')
        return statuses.SUCCESS


def probe_service(server):
    """A custom SCP role (public interface: callable(asce, ctx, msg) with sop_classes): answers a C-ECHO and then
    does what the scenario asks while the association is alive."""
    def svc(asce, ctx, msg):
        server.services_ran.append('probe')
        rsp = dm.CEchoRSPMessage()
        rsp.message_id_being_responded_to = msg.message_id
        rsp.sop_class_uid = msg.sop_class_uid
        rsp.status = 0
        act = server.in_echo
        if act and act[0] == 'abort-before-response':
            asce.abort(act[1])
            return
        if act and act[0] == 'release-before-response':
            asce.release()
            return
        asce.send(rsp, ctx.id)
        if act and act[0] == 'wait':
            try:
                asce.receive()
            except exceptions.AssociationAbortedError as e:
                server.acc_err = {'type': 'AssociationAbortedError', 'f': [e.source, e.reason_diag]}
                raise
            except exceptions.AssociationReleasedError:
                server.acc_err = {'type': 'AssociationReleasedError', 'f': []}
                raise
        if act and act[0] == 'abort-after-response':
            asce.abort(act[1])
    svc.sop_classes = [sc.VERIFICATION_SOP_CLASS]
    return svc


def wire(link, side):
    out = []
    for d in R.pdus_of(link['log'], side):
        k = d['k']
        f = []
        if k == 'RJ':
            f = [d['result'], d['source'], d['reason']]
        elif k == 'AB':
            f = [d['source'], d['reason']]
        out.append({'k': k, 'f': f})
    return out


def scenario(scn, given, placement, rng):
    srv = Server()
    srv.add_scp(probe_service(srv))
    cl = ae_mod.ClientAE('CL', max_pdu_length=rng.choice([256, 4096])).add_scu(sc.verification_scu)
    cl.timeout = 5
    obs = {'scn': scn, 'given': list(given), 'reqErr': {'type': 'none', 'f': []}, 'entered': False}
    # observe what the public Association.receive() raises on the accepting side (handle() swallows it)
    real_receive = R.asceprovider.Association.receive

    def receive(self):
        try:
            return real_receive(self)
        except exceptions.AssociationAbortedError as e:
            if isinstance(self, R.asceprovider.AssociationAcceptor):
                srv.acc_err = {'type': 'AssociationAbortedError', 'f': [e.source, e.reason_diag]}
            raise
        except exceptions.AssociationReleasedError:
            if isinstance(self, R.asceprovider.AssociationAcceptor):
                srv.acc_err = {'type': 'AssociationReleasedError', 'f': []}
            raise
    R.asceprovider.Association.receive = receive
    try:
        return _scenario(scn, given, placement, rng, srv, cl, obs)
    finally:
        R.asceprovider.Association.receive = real_receive


def _scenario(scn, given, placement, rng, srv, cl, obs):
    with R.Net() as net:
        net.register(ADDR, srv)
        if scn == 'refuse':
            srv.refuse = tuple(given)
        if scn == 'req-abort':
            srv.in_echo = ('wait',)
        if scn == 'acc-abort':
            srv.in_echo = (placement, given[1])
        if scn == 'acc-release':
            srv.in_echo = ('release-before-response',)
        how = None
        if scn == 'req-exit-error' and isinstance(placement, tuple):
            placement, how = placement          # how the block is left: an exception outside the Exception hierarchy
        try:
            if how == 'generator':
                # the association lives inside a generator the caller abandons (what an early `break` out of the
                # c_find convenience wrapper does): GeneratorExit is thrown into the block
                def abandoned():
                    with cl.request_association(REMOTE) as assoc_:
                        obs['entered'] = True
                        echo_ = assoc_.get_scu(sc.VERIFICATION_SOP_CLASS)
                        for i_ in range(placement):
                            echo_(i_ + 1)
                        yield 1
                        yield 2
                g = abandoned()
                next(g)
                g.close()
                raise UserError('abandoned')
            with cl.request_association(REMOTE) as assoc:
                obs['entered'] = True
                echo = assoc.get_scu(sc.VERIFICATION_SOP_CLASS)
                if how == 'base':
                    for i in range(placement):
                        echo(i + 1)
                    raise UserInterrupt('the user interrupts the program')
                if scn == 'req-abort':
                    if placement != 'before':
                        echo(1)                                  # an exchange first; the server-side service then waits
                        if placement == 'during':
                            msg = dm.CEchoRQMessage()             # a request is in flight when the abort is issued
                            msg.message_id = 9
                            msg.sop_class_uid = sc.VERIFICATION_SOP_CLASS
                            assoc.send(msg, 1)
                    assoc.abort(given[1])
                    raise UserError('done')                       # leave without touching the dead association
                if scn in ('acc-abort', 'acc-release'):
                    echo(1)
                    echo(2)
                if scn == 'req-exit-normal':
                    for i in range(placement):
                        echo(i + 1)
                if scn == 'req-exit-error':
                    for i in range(placement):
                        echo(i + 1)
                    raise UserError('application failure')
        except exceptions.AssociationRejectedError as e:
            obs['reqErr'] = {'type': 'AssociationRejectedError', 'f': [e.result, e.source, e.diagnostic]}
        except exceptions.AssociationAbortedError as e:
            obs['reqErr'] = {'type': 'AssociationAbortedError', 'f': [e.source, e.reason_diag]}
        except exceptions.AssociationReleasedError:
            obs['reqErr'] = {'type': 'AssociationReleasedError', 'f': []}
        except (UserError, UserInterrupt):
            obs['reqErr'] = {'type': 'UserError', 'f': []} if scn != 'req-abort' else {'type': 'none', 'f': []}
        except Exception as e:          # noqa
            obs['reqErr'] = {'type': type(e).__name__, 'f': []}
        ok = net.wait_all(20)
        link = net.links[0] if net.links else {'log': []}
        obs['r2a'] = wire(link, 'R')
        obs['a2r'] = wire(link, 'A')
        obs['accErr'] = srv.acc_err
        obs['services'] = [s for s in srv.services_ran if not (scn == 'refuse' and False)]
        obs['handler_finished'] = bool(ok)
    return obs


def concurrent_endings(kind, values, rng):
    """Several associations of ONE accepting entity are ended at the same moment, each with its own values:
       'refuse'    - the user hook refuses each peer with the triple chosen by its calling title;
       'req-abort' - every requester aborts with its own reason while the accepting side waits in receive();
       'acc-abort' - every accepting service aborts with the reason chosen by the calling title.
    All parties wait for each other right before the ending.  One observation per association, judged like the
    corresponding single scenario: each side is told exactly what was said on ITS association."""
    import threading
    n = len(values)
    barrier = threading.Barrier(n)
    by_title = {'CL%d' % i: tuple(t) for i, t in enumerate(values)}
    title_of = {}
    acc_err = {}
    services = {}
    lock = threading.Lock()

    def meet():
        try:
            barrier.wait(8)
        except threading.BrokenBarrierError:
            pass

    class Entity(Server):
        def on_association_request(self, asce, assoc):
            who = assoc.calling_ae_title.strip()
            with lock:
                title_of[id(asce)] = who
            if kind == 'refuse':
                meet()
                raise exceptions.AssociationRejectedError(*by_title[who])
    srv = Entity()

    def svc(asce, ctx, msg):
        who = title_of.get(id(asce), '?')
        with lock:
            services.setdefault(who, []).append('probe')
        rsp = dm.CEchoRSPMessage()
        rsp.message_id_being_responded_to = msg.message_id
        rsp.sop_class_uid = msg.sop_class_uid
        rsp.status = 0
        if kind == 'acc-abort':
            meet()
            asce.abort(by_title[who][1])
            return
        asce.send(rsp, ctx.id)
        if kind == 'req-abort':
            try:
                asce.receive()
            except exceptions.AssociationAbortedError as e:
                acc_err[who] = {'type': 'AssociationAbortedError', 'f': [e.source, e.reason_diag]}
                raise
            except exceptions.AssociationReleasedError:
                acc_err[who] = {'type': 'AssociationReleasedError', 'f': []}
                raise
    svc.sop_classes = [sc.VERIFICATION_SOP_CLASS]
    srv.add_scp(svc)
    out = [None] * n
    with R.Net() as net:
        net.register(ADDR, srv)

        def one(i):
            cl = ae_mod.ClientAE('CL%d' % i, max_pdu_length=4096).add_scu(sc.verification_scu)
            cl.timeout = 10
            obs = {'scn': kind, 'given': list(values[i]), 'reqErr': {'type': 'none', 'f': []}, 'entered': False,
                   'accErr': {'type': 'none', 'f': []}, 'services': []}
            try:
                with cl.request_association(REMOTE) as assoc:
                    obs['entered'] = True
                    echo = assoc.get_scu(sc.VERIFICATION_SOP_CLASS)
                    if kind == 'req-abort':
                        echo(1)
                        meet()
                        assoc.abort(values[i][1])
                        raise UserError('done')
                    if kind == 'acc-abort':
                        echo(1)
                        echo(2)
            except exceptions.AssociationRejectedError as e:
                obs['reqErr'] = {'type': 'AssociationRejectedError', 'f': [e.result, e.source, e.diagnostic]}
            except exceptions.AssociationAbortedError as e:
                obs['reqErr'] = {'type': 'AssociationAbortedError', 'f': [e.source, e.reason_diag]}
            except UserError:
                pass
            except Exception as e:          # noqa
                obs['reqErr'] = {'type': type(e).__name__, 'f': []}
            out[i] = obs
        ths = [threading.Thread(target=one, args=(i,), daemon=True) for i in range(n)]
        for t in ths:
            t.start()
        for t in ths:
            t.join(60)
        ok = net.wait_all(20)
        for i, obs in enumerate(out):
            if obs is None:
                raise Machinery('a requesting thread of the concurrent %s scenario did not finish' % kind)
            # the connection this peer's provider opened: its first PDU carries the calling title
            mine = [l for l in net.links if any(d['k'] == 'RQ' and bytes(d.get('calling', b'')).strip(b'\0 ') == b'CL%d' % i for d in R.pdus_of(l['log'], 'R'))]
            link = mine[0] if mine else {'log': []}
            obs['r2a'] = wire(link, 'R')
            obs['a2r'] = wire(link, 'A')
            obs['accErr'] = acc_err.get('CL%d' % i, {'type': 'none', 'f': []})
            obs['services'] = list(services.get('CL%d' % i, []))
            obs['handler_finished'] = bool(ok)
    return out


def raw_abort_scenario(given, where, rng):
    """The accepting side is a scripted raw peer (reference encoder): it accepts, and answers the C-ECHO request with
    `where` = 'partial-command' (a non-final command fragment) / 'command-announcing-data' / 'instead-of-response',
    followed by A-ABORT(source, reason)."""
    from . import wire_ref as W, cmdset, ulrun
    obs = {'scn': 'acc-abort', 'given': list(given), 'reqErr': {'type': 'none', 'f': []}, 'entered': False,
           'accErr': {'type': 'none', 'f': []}, 'services': []}

    def peer(sock):
        rq = R.read_pdu(sock)
        sock.sendall(W.enc_pdu({'t': 2, 'called': b'SRV', 'calling': b'CL', 'items': ulrun.assoc_items(True)}))
        R.read_pdu(sock)                                   # the C-ECHO-RQ
        rsp = cmdset.write([(cmdset.TAG_AFF_SOP_CLASS, cmdset.ui('1.2.840.10008.1.1')), (cmdset.TAG_COMMAND_FIELD, cmdset.us(0x8030)),
                            (cmdset.TAG_MSG_ID_RSP, cmdset.us(1)), (cmdset.TAG_DS_TYPE, cmdset.us(0x0101 if where != 'command-announcing-data' else 1)),
                            (cmdset.TAG_STATUS, cmdset.us(0))])
        if where == 'response-abort-close-in-one-segment':
            # the complete response and the A-ABORT leave in one write and the peer closes at once: the abort sits
            # behind another PDU in the requestor's buffer when the end of the stream is seen
            R.read_pdu(sock)                                   # the second C-ECHO-RQ
            sock.sendall(W.enc_pdu({'t': 4, 'pdvs': [{'ctx': 1, 'val': b'\x03' + rsp}]}) + W.enc_pdu({'t': 7, 'source': given[0], 'reason': given[1]}))
            sock.close()
            return
        if where == 'partial-command':
            sock.sendall(W.enc_pdu({'t': 4, 'pdvs': [{'ctx': 1, 'val': b'\x01' + rsp[:20]}]}))
        elif where == 'command-announcing-data':
            sock.sendall(W.enc_pdu({'t': 4, 'pdvs': [{'ctx': 1, 'val': b'\x03' + rsp}]}))
        sock.sendall(W.enc_pdu({'t': 7, 'source': given[0], 'reason': given[1]}))
        try:
            while R.read_pdu(sock, 5) is not None:
                pass
        except Exception:     # noqa
            pass
    cl = ae_mod.ClientAE('CL').add_scu(sc.verification_scu)
    cl.timeout = 5
    with R.Net() as net:
        net.register(ADDR, peer)
        try:
            with cl.request_association(REMOTE) as assoc:
                obs['entered'] = True
                if where == 'response-abort-close-in-one-segment':
                    # two requests are outstanding; the first receive gets the response, the second the abort
                    for mid in (1, 2):
                        msg = dm.CEchoRQMessage()
                        msg.message_id = mid
                        msg.sop_class_uid = sc.VERIFICATION_SOP_CLASS
                        assoc.send(msg, 1)
                    assoc.receive()
                    assoc.receive()
                else:
                    assoc.get_scu(sc.VERIFICATION_SOP_CLASS)(1)
        except exceptions.AssociationAbortedError as e:
            obs['reqErr'] = {'type': 'AssociationAbortedError', 'f': [e.source, e.reason_diag]}
        except Exception as e:          # noqa
            obs['reqErr'] = {'type': type(e).__name__, 'f': []}
        net.wait_all(20)
        link = net.links[0]
        obs['r2a'] = wire(link, 'R')
        obs['a2r'] = wire(link, 'A')
    obs['handler_finished'] = True
    return obs


def raw_server_scenario(scn, rng):
    """Scripted raw accepting peer.  scn 'stop-with-silent-peer': accepts, answers one C-ECHO, then says nothing and keeps
    the connection open; the requesting application times out and leaves (abort + kill must complete).
    scn 'late-response-then-release': the application sends a request, leaves normally without waiting; the peer answers
    AFTER the A-RELEASE-RQ and then sends A-RELEASE-RP."""
    import time
    from . import wire_ref as W, cmdset, ulrun
    obs = {'scn': scn, 'given': [], 'reqErr': {'type': 'none', 'f': []}, 'entered': False,
           'accErr': {'type': 'none', 'f': []}, 'services': [], 'stopped': False}
    done = threading.Event()

    def echo_rsp(mid):
        rsp = cmdset.write([(cmdset.TAG_AFF_SOP_CLASS, cmdset.ui('1.2.840.10008.1.1')), (cmdset.TAG_COMMAND_FIELD, cmdset.us(0x8030)),
                            (cmdset.TAG_MSG_ID_RSP, cmdset.us(mid)), (cmdset.TAG_DS_TYPE, cmdset.us(0x0101)), (cmdset.TAG_STATUS, cmdset.us(0))])
        return W.enc_pdu({'t': 4, 'pdvs': [{'ctx': 1, 'val': b'\x03' + rsp}]})

    def peer(sock):
        R.read_pdu(sock)
        sock.sendall(W.enc_pdu({'t': 2, 'called': b'SRV', 'calling': b'CL', 'items': ulrun.assoc_items(True)}))
        R.read_pdu(sock)                                   # C-ECHO-RQ
        if scn == 'stop-with-silent-peer':
            sock.sendall(echo_rsp(1))
            R.read_pdu(sock)                               # second C-ECHO-RQ: never answered
            done.wait(30)                                  # silent, connection kept open
        else:
            nxt = R.read_pdu(sock)                         # the A-RELEASE-RQ arrives before we have answered
            sock.sendall(echo_rsp(1))                      # late response ...
            time.sleep(0.2)
            sock.sendall(W.enc_pdu({'t': 6}))              # ... then the release response
            try:
                while R.read_pdu(sock, 5) is not None:
                    pass
            except Exception:     # noqa
                pass
    cl = ae_mod.ClientAE('CL').add_scu(sc.verification_scu)
    cl.timeout = 1
    t0 = time.time()
    with R.Net() as net:
        net.register(ADDR, peer)

        def app():
            try:
                with cl.request_association(REMOTE) as assoc:
                    obs['entered'] = True
                    if scn == 'stop-with-silent-peer':
                        echo = assoc.get_scu(sc.VERIFICATION_SOP_CLASS)
                        echo(1)
                        echo(2)                            # times out
                    else:
                        msg = dm.CEchoRQMessage()
                        msg.message_id = 1
                        msg.sop_class_uid = sc.VERIFICATION_SOP_CLASS
                        assoc.send(msg, 1)                 # request in flight, leave normally
            except exceptions.DCMTimeoutError:
                obs['reqErr'] = {'type': 'DCMTimeoutError', 'f': []}
            except Exception as e:          # noqa
                obs['reqErr'] = {'type': type(e).__name__, 'f': []}
        th = threading.Thread(target=app, daemon=True)
        th.start()
        th.join(25)
        obs['stopped'] = not th.is_alive()
        done.set()
        net.wait_all(10)
        link = net.links[0]
        obs['r2a'] = wire(link, 'R')
        obs['a2r'] = wire(link, 'A')
    obs['handler_finished'] = True
    return obs


def acceptor_stop_scenario(rng):
    """A scripted raw requesting peer associates, does one C-ECHO, then says nothing and keeps the connection open: the
    accepting handler times out and must finish (kill() completes) in bounded time."""
    from . import wire_ref as W, cmdset, ulrun
    srv = Server()
    srv.add_scp(sc.verification_scp)
    srv.timeout = 1
    obs = {'scn': 'stop-with-silent-peer', 'given': [], 'reqErr': {'type': 'none', 'f': []}, 'entered': False,
           'accErr': {'type': 'none', 'f': []}, 'services': [], 'stopped': False}
    sock, link = R.raw_client(srv)
    sock.sendall(W.enc_pdu({'t': 1, 'called': b'SRV', 'calling': b'RAW', 'items': ulrun.assoc_items(False)}))
    R.read_pdu(sock)
    sock.sendall(W.enc_pdu({'t': 4, 'pdvs': [{'ctx': 1, 'val': b'\x03' + cmdset.echo_rq(5)}]}))
    R.read_pdu(sock)
    obs['stopped'] = link['done'].wait(25)          # silent peer, connection open
    try:
        sock.close()
    except OSError:
        pass
    link['done'].wait(10)
    obs['r2a'] = wire(link, 'R')
    obs['a2r'] = wire(link, 'A')
    obs['services'] = list(srv.services_ran)
    obs['handler_finished'] = True
    return obs


def main(tier='quick'):
    v = Verdict('C14', tier)
    rng = random.Random(seed())
    plan = []
    std = [(r, s, d) for r in (1, 2) for s in (1, 2, 3) for d in (1, 2, 3, 7)]
    extra = [(rng.randint(0, 255), rng.randint(0, 255), rng.randint(0, 255)) for _ in range(4 if tier == 'quick' else 60)]
    for t in (std if tier == 'thorough' else std[::2] + [(1, 1, 1), (2, 3, 2)]) + extra + [(0, 0, 0), (255, 255, 255)]:
        plan.append(('refuse', t, None))
    reasons = [0, 1, 2, 6] + [rng.randint(0, 255) for _ in range(2 if tier == 'quick' else 20)]
    for r in reasons:
        for pl in ('before', 'between', 'during'):
            plan.append(('req-abort', (0, r), pl))
        for pl in ('abort-before-response', 'abort-after-response'):
            plan.append(('acc-abort', (2, r), pl))
        for pl in ('partial-command', 'command-announcing-data', 'instead-of-response', 'response-abort-close-in-one-segment'):
            plan.append(('raw-acc-abort', (rng.choice([0, 2]), r), pl))
    plan.append(('acc-release', (), None))
    plan.append(('stop-with-silent-peer', (), None))
    plan.append(('stop-with-silent-peer', (), 'acceptor'))
    plan.append(('late-response-then-release', (), None))
    for n in (0, 1, 3):
        plan.append(('req-exit-normal', (), n))
        plan.append(('req-exit-error', (), n))
        plan.append(('req-exit-error', (), (n, 'base')))
        plan.append(('req-exit-error', (), (n, 'generator')))
    cases = []
    for scn, given, pl in plan:
        try:
            if scn == 'stop-with-silent-peer' and pl == 'acceptor':
                obs = acceptor_stop_scenario(rng)
            elif scn in ('stop-with-silent-peer', 'late-response-then-release'):
                obs = raw_server_scenario(scn, rng)
            else:
                obs = raw_abort_scenario(given, pl, rng) if scn == 'raw-acc-abort' else scenario(scn, given, pl, rng)
        except Exception as exc:      # noqa
            raise Machinery('scenario %s %s %s failed in the harness: %s: %s' % (scn, given, pl, type(exc).__name__, exc))
        obs['placement'] = str(pl)
        cases.append(obs)
        if not obs.pop('handler_finished'):
            v.report({'site': 'asceprovider.handle', 'clause': 'handler-never-finished', 'scn': scn},
                     'the accepting handler thread did not finish within 20 s in scenario %s %s %s' % (scn, given, pl), replay={'scn': scn, 'given': list(given), 'placement': pl})
    # several associations of one entity ended at the same moment, each with its own values
    for rep in range(3 if tier == 'quick' else 20):
        for kind in ('refuse', 'req-abort', 'acc-abort'):
            if kind == 'refuse':
                vals = rng.sample(std, 4) + [(rng.randint(0, 255), rng.randint(0, 255), rng.randint(0, 255))]
            else:
                vals = [(0 if kind == 'req-abort' else 2, r) for r in rng.sample(range(0, 256), 5)]
            try:
                many = concurrent_endings(kind, vals, rng)
            except Machinery:
                raise
            except Exception as exc:      # noqa
                raise Machinery('concurrent %s failed in the harness: %s: %s' % (kind, type(exc).__name__, exc))
            for obs in many:
                obs['placement'] = {'refuse': 'concurrent with %d other refusals' % (len(vals) - 1), 'req-abort': 'between',
                                    'acc-abort': 'abort-before-response'}[kind]
                obs['concurrent'] = len(vals)
                if not obs.pop('handler_finished'):
                    v.report({'site': 'asceprovider.handle', 'clause': 'handler-never-finished', 'scn': kind},
                             'an accepting handler thread did not finish within 20 s (%d associations ended at once: %s)' % (len(vals), kind))
                cases.append(obs)
    res, stats = tlc.validate_traces('Trace_AssocLifecycle', 'Trace_AssocLifecycle.cfg', [[c] for c in cases], chunk=5000)
    for c, r in zip(cases, res):
        if r['reached'] != 1:
            raise Machinery('case not judged')
        for clause in (r['bad_inv'] or []):
            v.report({'site': 'asceprovider', 'clause': clause, 'scn': c['scn']},
                     '%s in scenario %s given=%s placement=%s: r2a=%s a2r=%s reqErr=%s accErr=%s services=%s'
                     % (clause, c['scn'], c['given'], c['placement'], [(x['k'], x['f']) for x in c['r2a']], [(x['k'], x['f']) for x in c['a2r']],
                        c['reqErr'], c['accErr'], c['services']), replay={'scn': c['scn'], 'given': c['given'], 'placement': c['placement']})
    # ---- the life-cycle model: TLC explores AssocLife exhaustively, every class of behaviour is driven on S3 and
    # the observation validated against the specification (TLC infers the unlogged provider steps)
    from . import lifedrive
    mcs, jobs = lifedrive.plan(tier, rng)
    life = lifedrive.run_many(jobs, procs=8)
    for c in life:
        if not c.pop('handler_finished'):
            v.report({'site': 'asceprovider.handle', 'clause': 'handler-never-finished', 'scn': 'life'},
                     'the accepting handler thread did not finish within 20 s following %s' % c['script'], replay={'life': {'script': c['script'], 'values': c['values'], 'ordered': c['ordered'], 'in_handler': c.get('in_handler', False)}})
    lres, lstats = lifedrive.validate(life)
    for c, r in zip(life, lres):
        if not r[0]:
            key, txt = lifedrive.explain(c, r)
            v.report(key, txt, replay={'life': {'script': c['script'], 'values': c['values'], 'ordered': c['ordered'], 'in_handler': c.get('in_handler', False)}})
    ev = {'tier': tier, 'level': 'model_checking',
          'coverage': {'evaluations': len(cases), 'distinct_nontrivial': len({(c['scn'], str(c['given']), c['placement']) for c in cases}),
                       'rule': 'one real two-sided association (application, handler and provider threads over a socketpair) per scenario; '
                               'distinct = distinct (scenario kind, values given, placement)',
                       'states': sum(r.distinct for _, r, _ in mcs), 'transitions': sum(r.generated for _, r, _ in mcs),
                       'model_checking': {cfg: dict(r.summary(), terminal_behaviours=n) for cfg, r, n in mcs},
                       'life_cycle_behaviours_driven': len(life),
                       'life_cycle_program_pairs': len({(tuple(a for a in c['script'] if a.startswith('Rq')), tuple(a for a in c['script'] if a.startswith('Ac'))) for c in life}),
                       'trace_validation_states': lstats['states'],
                       'traces_validated_against_impl': len(cases) + len(life),
                       'samples': [cases[0], cases[len(cases) // 2]], 'exhaustive': False},
          'assumptions': ['real threads: placements are enforced by the scenario code (handlers wait / act), not by timing',
                          'the acceptor-side error is observed from inside a custom SCP role waiting in receive()']}
    return v.finish(ev)


def replay(doc):
    r = doc['replay']
    if 'life' in r:
        from . import lifedrive
        j = r['life']
        kw = {'triple': tuple(j['values']['triple']), 'rq_reason': j['values']['rq_reason'], 'ac_reason': j['values']['ac_reason'], 'ordered': j['ordered'], 'in_handler': j.get('in_handler', False)}
        bad = 0
        for _ in range(3):
            c = lifedrive.run_script(j['script'], **kw)
            res, _ = lifedrive.validate([c])
            print('TLC verdict: %r' % (res[0],))
            if not res[0][0]:
                print(lifedrive.explain(c, res[0])[1])
                bad = 1
        return bad
    obs = scenario(r['scn'], tuple(r['given']), r['placement'] if r['placement'] not in ('None',) else None, random.Random(0))
    obs.pop('handler_finished')
    obs['placement'] = str(r['placement'])
    res, _ = tlc.validate_traces('Trace_AssocLifecycle', 'Trace_AssocLifecycle.cfg', [[obs]])
    print('TLC verdict: %r\n%r' % (res[0]['bad_inv'], obs))
    return 1 if res[0]['bad_inv'] else 0


if __name__ == '__main__':
    main_wrapper(lambda: main(sys.argv[1] if len(sys.argv) > 1 else 'quick'))
