"""LifeTap: record, for EVERY association of a campaign on substrate S3, the application-level events of
AssocLife.tla - without the campaign's code cooperating.  The public methods of the association classes
(request / send / receive / release / abort / accept / reject) are wrapped at class level while the tap is
installed; each association object gets its own log (program order of the thread that uses it).  Together
with the byte streams recorded by realnet.Tap (collapsed to one token per DIMSE message) this gives, per
connection, the three logs Trace_AssocLife validates (free mode: any number of responses per request, a
service returning is not logged).

Nothing in /repo is modified; the wrappers call the original methods and re-raise whatever they raise.
"""
from __future__ import annotations

import threading

from . import realnet as R, cmdset, tlc
from .common import Machinery

asce = R.asceprovider
exceptions = R.exceptions

import hashlib


def _canon(elems, data):
    """Token for the content of a DIMSE message: the command elements that carry a value (group length apart) and the
    data set bytes.  Computed three times independently - from the object handed to send(), from the bytes on the
    wire, from the object receive() returns - and bound together by the specification."""
    h = hashlib.sha1()
    for t, v in sorted(elems):
        v = bytes(v).rstrip(b'\0 ')
        if t == 0 or not v:
            continue
        h.update(b'%08x:%d:' % (t, len(v)) + v)
    h.update(b'|data|' + bytes(data or b''))
    return [int(h.hexdigest()[:6], 16)]


def _data_of(obj, received):
    """Data set bytes of a message object without disturbing it.  A received file-backed data set is a Part-10 file:
    preamble and meta header are not part of what was transmitted."""
    ds = obj.data_set
    if ds is None:
        return b''
    if isinstance(ds, (bytes, bytearray)):
        return bytes(ds)
    if hasattr(ds, 'read') and hasattr(ds, 'seek') and hasattr(ds, 'tell'):
        pos = ds.tell()
        try:
            if received:
                ds.seek(0)
            raw = ds.read()
        finally:
            ds.seek(pos)
        if received and raw[128:132] == b'DICM':
            import struct
            # (0002,0000) UL 4: group length of the meta header, explicit VR little endian
            if raw[132:136] == b'\x02\x00\x00\x00':
                n = struct.unpack('<I', raw[140:144])[0]
                return raw[144 + n:]
        return raw
    return b'?'


def digest_of_object(msg, received=False):
    try:
        elems = cmdset.read(cmdset.encode_dataset(msg.command_set))
        return _canon(elems, _data_of(msg, received))
    except Exception as exc:      # noqa - an object that cannot even be walked gets a token nothing else will have
        return [0]


_REQ = ('request', 'abort')
_ACC = ('accept', 'reject', 'abort')
_BASE = ('send', 'receive', 'release')


class LifeTap(object):
    def __init__(self, content=True):
        self.content = content    # bind the content of every DIMSE message (token from object / wire / object)
        self.logs = {}            # id(association) -> list of events
        self.side = {}            # id(association) -> 'Rq' | 'Ac'
        self.objs = {}            # id(association) -> association (kept alive so that ids stay unique)
        self.lock = threading.Lock()
        self._saved = []

    # ------------------------------------------------------------------ logging
    def _log(self, a, ev, **kw):
        with self.lock:
            k = id(a)
            if k not in self.logs:
                self.logs[k] = []
                self.objs[k] = a
                self.side[k] = 'Ac' if isinstance(a, asce.AssociationAcceptor) else 'Rq'
            self.logs[k].append(dict(ev=ev, **kw))

    def _last(self, a):
        with self.lock:
            lg = self.logs.get(id(a)) or [{}]
            return lg[-1]

    # ------------------------------------------------------------------ wrappers
    def __enter__(self):
        tap = self

        def wrap(cls, name, fn):
            orig = cls.__dict__[name]
            self._saved.append((cls, name, orig))
            setattr(cls, name, fn(orig))

        def request(orig):
            def f(self, *a, **k):
                tap._log(self, 'RqRequest')
                try:
                    r = orig(self, *a, **k)
                except exceptions.AssociationRejectedError as e:
                    tap._log(self, 'RqAssocInd', res='RJ', f=[e.result, e.source, e.diagnostic])
                    raise
                except exceptions.AssociationAbortedError as e:
                    tap._log(self, 'RqAssocInd', res='AB', f=[e.source, e.reason_diag])
                    raise
                except exceptions.DCMTimeoutError:
                    tap._log(self, 'RqTimeout')
                    raise
                tap._log(self, 'RqAssocInd', res='AC', f=[])
                return r
            return f

        def send(orig):
            def f(self, dimse_msg, pc_id):
                d = digest_of_object(dimse_msg) if tap.content else []
                r = orig(self, dimse_msg, pc_id)
                tap._log(self, 'AcRespond' if isinstance(self, asce.AssociationAcceptor) else 'RqSend', f=d)
                return r
            return f

        def receive(orig):
            def f(self, *a, **k):
                acc = isinstance(self, asce.AssociationAcceptor)
                if not acc:
                    tap._log(self, 'RqWait')
                try:
                    r = orig(self, *a, **k)
                except exceptions.AssociationAbortedError as e:
                    tap._log(self, 'AcRecv' if acc else 'RqRecv', res='AB', f=[e.source, e.reason_diag])
                    raise
                except exceptions.AssociationReleasedError:
                    tap._log(self, 'AcRecv' if acc else 'RqRecv', res='RLRQ', f=[])
                    raise
                except exceptions.DCMTimeoutError:
                    tap._log(self, 'AcTimeout' if acc else 'RqTimeout')
                    raise
                d = []
                if tap.content and isinstance(r, tuple):
                    d = digest_of_object(r[0], received=True)
                tap._log(self, 'AcRecv' if acc else 'RqRecv', res='PD', f=d)
                return r
            return f

        def release(orig):
            def f(self, *a, **k):
                acc = isinstance(self, asce.AssociationAcceptor)
                tap._log(self, 'AcRelease' if acc else 'RqExitNormal')
                try:
                    r = orig(self, *a, **k)
                except exceptions.DCMTimeoutError:
                    tap._log(self, 'AcTimeout' if acc else 'RqTimeout')
                    raise
                tap._log(self, 'AcRelDone' if acc else 'RqRelDone')
                return r
            return f

        def rq_abort(orig):
            def f(self, reason=0):
                last = tap._last(self)
                # leaving the block through an error raised by receive(): the model folds this abort into that step
                folded = (last.get('ev') == 'RqRecv' and last.get('res') in ('AB', 'RLRQ')) or last.get('ev') == 'RqTimeout'
                r = orig(self, reason)
                if not folded:
                    tap._log(self, 'RqAbort', r=reason)
                return r
            return f

        def ac_abort(orig):
            def f(self, reason):
                r = orig(self, reason)
                tap._log(self, 'AcAbort', r=reason)
                return r
            return f

        def accept(orig):
            def f(self, assoc_req):
                r = orig(self, assoc_req)
                tap._log(self, 'AcAccept')
                return r
            return f

        def reject(orig):
            def f(self, result, source, diag):
                r = orig(self, result, source, diag)
                tap._log(self, 'AcRefuse', f=[result, source, diag])
                return r
            return f
        for name, fn in (('send', send), ('receive', receive), ('release', release)):
            if name not in asce.Association.__dict__:
                raise Machinery('seam broken: Association.%s' % name)
            wrap(asce.Association, name, fn)
        for cls, name, fn in ((asce.AssociationRequester, 'request', request), (asce.AssociationRequester, 'abort', rq_abort),
                              (asce.AssociationAcceptor, 'abort', ac_abort), (asce.AssociationAcceptor, 'accept', accept),
                              (asce.AssociationAcceptor, 'reject', reject)):
            if name not in cls.__dict__:
                raise Machinery('seam broken: %s.%s' % (cls.__name__, name))
            wrap(cls, name, fn)
        return self

    def __exit__(self, *exc):
        for cls, name, orig in reversed(self._saved):
            setattr(cls, name, orig)
        self._saved = []
        return False

    # ------------------------------------------------------------------ cases
    def cases(self, net):
        """One observation record per connection of the Net: the requesting and the accepting association are found
        through the sockets their providers were given."""
        by_sock = {}
        with self.lock:
            items = [(k, self.objs[k], self.side[k], list(self.logs[k])) for k in self.logs]
        out = []
        for link in net.links:
            rq_log = ac_log = None
            for k, a, side, lg in items:
                dul = getattr(a, 'dul', None)
                if side == 'Rq' and dul is link.get('requester_thread'):
                    rq_log = lg
                if side == 'Ac' and getattr(a, 'request', None) is link.get('tapA'):
                    ac_log = lg
            if rq_log is None:
                continue                     # not a library requester (raw peer): nothing to validate here
            r2a, a2r = messages(R.pdus_of(link['log'], 'R'), self.content), messages(R.pdus_of(link['log'], 'A'), self.content)
            out.append({'rq': rq_log, 'ac': ac_log or [], 'r2a': r2a, 'a2r': a2r,
                        'svc': len([e for e in (ac_log or []) if e['ev'] == 'AcRecv' and e.get('res') == 'PD']),
                        'entered': any(e['ev'] == 'RqAssocInd' and e.get('res') == 'AC' for e in rq_log),
                        'rqErr': {'type': 'none', 'f': []}, 'library_acceptor': ac_log is not None})
        return out


def messages(pdus, content=False):
    """PDUs one side wrote -> tokens of AssocLife: every PDU is a token, except that the P-DATA-TF PDUs of ONE DIMSE
    message count as one 'PD' (the model's unit is the message handed to send()), carrying the content token computed
    from the bytes on the wire.  A message left incomplete at the end of the stream (the write failed half-way) still
    counts: the attempt was made."""
    out = []
    st = {'cmd': b'', 'data': b'', 'in': False}

    def close(complete=True):
        f = []
        if content:
            try:
                f = _canon(cmdset.read(st['cmd']), st['data']) if complete else [1]
            except cmdset.CmdError:
                f = [2]
        out.append({'k': 'PD', 'f': f})
        st['cmd'], st['data'], st['in'] = b'', b'', False
    for p in pdus:
        k = p['k']
        if k != 'PD':
            if st['in']:
                close(False)
            f = []
            if k == 'RJ':
                f = [p['result'], p['source'], p['reason']]
            elif k == 'AB':
                f = [p['source'], p['reason']]
            out.append({'k': k, 'f': f})
            continue
        for v in p['pdvs']:
            val = v['val']
            if not val:
                continue
            h, body = val[0], val[1:]
            st['in'] = True
            if h & 1:
                st['cmd'] += body
                if h & 2:
                    try:
                        d = dict(cmdset.read(st['cmd']))
                        ds_type = cmdset.as_int(d[cmdset.TAG_DS_TYPE]) if cmdset.TAG_DS_TYPE in d else 0x0101
                    except Exception:     # noqa
                        ds_type = 0x0101
                    if ds_type == 0x0101:
                        close()
            else:
                st['data'] += body
                if h & 2:
                    close()
    if st['in']:
        close(False)
    return out


def validate(cases):
    """Trace_AssocLife in free mode on observation records.  Returns (list of (ok, clauses, reached, total), stats)."""
    payload = [{'rq': c['rq'], 'ac': c['ac'], 'r2a': c['r2a'], 'a2r': c['a2r'], 'svc': c['svc'],
                'entered': c['entered'], 'rqErr': c['rqErr']} for c in cases]
    res, stats = tlc.validate_traces('Trace_AssocLife', 'Trace_AssocLife_free.cfg', [[p] for p in payload], chunk=300, dfs=False)
    out = []
    for c, r in zip(cases, res):
        total = len(c['rq']) + len(c['ac']) + 1
        out.append((r['reached'] == total and not r['bad_inv'], r['bad_inv'] or [], r['reached'], total))
    return out, stats
