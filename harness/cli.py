from __future__ import annotations

import argparse
import importlib
import json
import os
import sys

from .common import main_wrapper, Machinery


def main():
    ap = argparse.ArgumentParser()
    ap.add_argument('prop')
    ap.add_argument('--tier', default=os.environ.get('VERIF_TIER', 'quick'), choices=['quick', 'thorough'])
    ap.add_argument('--replay', default=None)
    a = ap.parse_args()
    try:
        mod = importlib.import_module('harness.check_' + a.prop.lower())
    except ImportError as exc:
        raise Machinery('no check for %s: %s' % (a.prop, exc))
    if a.replay:
        if not hasattr(mod, 'replay'):
            raise Machinery('%s has no replayer' % a.prop)
        with open(a.replay) as fh:
            return mod.replay(json.load(fh))
    return mod.main(a.tier)


if __name__ == '__main__':
    main_wrapper(main)
