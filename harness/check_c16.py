"""C16 - C-FIND returns exactly the matches the SCP produced, in order, then stops.

Spec: specs/Services.tla RspFind / GotFind / End (one response per yielded match, same data and
pending status, in order, then exactly one final non-pending response without identifier; the user
generator yields exactly what was on the wire and stops after the final one) and specs/SendQueue.tla
(every interleaving of the application thread with the lazily encoding provider thread:
violated when the response object is reused, holds with a fresh object per response).
Binding: the real qr_find_scp / modality_work_list_scp / qr_find_scu / modality_work_list_scu and the
c_find wrapper run on real Association objects; result sequences of length 0..n with any mix of the
two pending codes, final success / failure / cancel, maxima that force multi-fragment responses,
three schedules of the lazy encoding; provider and user are also composed end to end (the
provider's wire output, re-read from its wire form, is what the user receives).
"""
from __future__ import annotations

import itertools
import random
import sys

from . import tlc, svccheck as K, svc as S
from .common import Verdict, main_wrapper, Machinery, seed

POLICIES = ['eager', ('lag', 1), ('lag', 3), 'blocked', 'starved']


def compose(rng, policy, mid, ctx, matches, worklist, max_len):
    """Provider and user end to end: returns (user trace, problems)."""
    (tr_scp, extra) = K.run_find_scp(rng, policy, mid, ctx, matches, worklist, max_len)
    rsps = [e['r'] for e in tr_scp if e['ev'] == 'Rsp']
    return tr_scp, extra, rsps


def whole_stack_finds(rng, n):
    from . import realnet as R, svc as S
    import pydicom
    ae_mod = R.applicationentity
    sc, statuses = K.sopclass, K.statuses
    out = []
    from . import lifetap
    tap = lifetap.LifeTap()
    nets = []
    tap.__enter__()
    try:
        _whole_stack_finds(rng, n, out, nets, R, S, ae_mod, sc, statuses)
    finally:
        tap.__exit__(None, None, None)
    # every association of these runs (the querying one and the bystander) on its own against AssocLife.tla: each
    # response is bound by its content token from the provider's send() over the wire to the user's receive()
    obs = [o for net in nets for o in tap.cases(net) if o['library_acceptor']]
    lres, lstats = lifetap.validate(obs)
    life = []
    for o, r in zip(obs, lres):
        if not r[0]:
            life.append('%s (matched %d of %d): requesting thread %s | accepting thread %s | requestor wrote %s | acceptor wrote %s' % (
                ', '.join(r[1]) or 'no behaviour of AssocLife explains the observation', r[2], r[3],
                [(e['ev'], e.get('res'), e.get('f')) for e in o['rq']][:20], [(e['ev'], e.get('res'), e.get('f')) for e in o['ac']][:20],
                [(x['k'], x['f']) for x in o['r2a']][:20], [(x['k'], x['f']) for x in o['a2r']][:20]))
    return out, life, len(obs), lstats


def _whole_stack_finds(rng, n, out, nets, R, S, ae_mod, sc, statuses):
    import pydicom
    for k in range(n):
        nm = rng.choice([3, 5])
        matches = []
        for i in range(nm):
            ds = pydicom.Dataset()
            ds.PatientID = 'P%d' % i
            ds.PatientName = 'Match^%d' % i
            ds.StudyDescription = 'x' * rng.choice([10, 300, 700])
            matches.append((ds, statuses.C_FIND_PENDING if i % 2 == 0 else statuses.C_FIND_PENDING_WARNING))
        import pydicom.uid as _u
        tss = [_u.ImplicitVRLittleEndian, _u.ExplicitVRLittleEndian, _u.ExplicitVRBigEndian]
        ts_a, ts_b = tss[k % 3], tss[(k + 1) % 3]
        # even runs: the provider supports ONE syntax and the user proposes all three (whichever comes first in its
        # proposal); odd runs: a second requester with another syntax is accepted on the same context id meanwhile
        restricted = (k % 2 == 0)
        srv = R.server_ae(ae_mod.AE, 'SRV', 0, supported_ts=[ts_a] if restricted else [ts_a, ts_b], max_pdu_length=16384)
        srv.add_scp(sc.qr_find_scp)
        seen_q = {}

        def on_find(context, ds, m=matches, seen_q=seen_q):
            seen_q['id'] = str(getattr(ds, 'PatientID', None))
            return iter(m)
        srv.on_receive_find = on_find
        srv.timeout = 20
        cl = ae_mod.ClientAE('CL', supported_ts=tss if restricted else [ts_a], max_pdu_length=rng.choice([256, 512])).add_scu(sc.qr_find_scu)
        cl.timeout = 8
        # another requester, with another transfer syntax, is accepted on the same context id while this query runs
        other = ae_mod.ClientAE('OTHER', supported_ts=[ts_a] if restricted else [ts_b], max_pdu_length=16384).add_scu(sc.qr_find_scu)
        other.timeout = 8
        addr = ('find.example', 104)
        mid = rng.choice(K.MIDS[1:])
        sop = sc.PATIENT_ROOT_FIND_SOP_CLASS
        wire = [{'d': S.token(K.enc(ds)), 's': int(st)} for ds, st in matches] + [{'d': 0, 's': 0}]
        tr = [{'ev': 'Req', 'svc': 'find-scu', 'req': {'type': 0x0020, 'ctx': 1, 'mid': mid, 'cls': str(sop), 'inst': ''}}]
        extra = {}
        with R.Net(batch=0.25) as net:
            net.register(addr, srv)
            try:
                with cl.request_association({'aet': 'SRV', 'address': addr[0], 'port': addr[1]}) as assoc:
                    with other.request_association({'aet': 'SRV', 'address': addr[0], 'port': addr[1]}):
                        q = pydicom.Dataset()
                        q.PatientID = '*'
                        for ds, st in assoc.get_scu(sop)(q, mid):
                            tr.append({'ev': 'Got', 'd': S.token(K.enc(ds)) if ds is not None else 0, 's': int(st), 'wire': wire})
                if seen_q.get('id') != '*':
                    extra['query'] = 'the query reaching the handler is not the one sent (PatientID %r)' % (seen_q.get('id'),)
            except Exception as exc:      # noqa
                extra['raised'] = 'whole-stack C-FIND with batched delivery raised %s: %s after %d of %d responses' % (
                    type(exc).__name__, exc, len(tr) - 1, len(wire))
            net.wait_all(30)
            nets.append(net)
        tr.append({'ev': 'End', 'sent': 1, 'drained': 1})
        out.append((tr, extra, {'svc': 'qr_find_scu', 'whole_stack': True, 'matches': nm, 'batched_delivery_s': 0.25}))


def main(tier='quick'):
    v = Verdict('C16', tier)
    rng = random.Random(seed())
    fresh = tlc.run('SendQueue', 'SendQueue_fresh.cfg', workers=4)
    reuse = tlc.run('SendQueue', 'SendQueue_reuse.cfg', workers=4)
    if not fresh.ok or 'Delivery' not in reuse.violated:
        raise Machinery('SendQueue.tla: expected Delivery to hold with fresh objects and fail with a reused one')
    traces, metas = [], []

    def add(tr, extra, meta):
        traces.append(tr)
        metas.append(meta)
        for k, val in extra.items():
            v.report({'site': 'sopclass.' + meta['svc'], 'clause': k}, '%s (%r)' % (val, meta), replay=meta)

    pend = [0xFF00, 0xFF01]
    nmax = 4 if tier == 'quick' else 6
    seqs = [list(p) for n in range(0, nmax + 1) for p in itertools.product(pend, repeat=n)]
    if tier == 'quick':
        seqs = [s for s in seqs if len(s) <= 3] + rng.sample([s for s in seqs if len(s) > 3], 8)
    seqs += [[rng.choice(pend) for _ in range(rng.choice([7, 12, 25]))] for _ in range(3 if tier == 'quick' else 30)]
    for pol in POLICIES:
        for seq in seqs:
            for worklist in (False, True):
                mid = rng.choice(K.MIDS)
                ctx = rng.choice([1, 3, 255])
                max_len = rng.choice([16384, 40, 64, 'fit', 'fit2'])       # small maxima force multi-fragment responses, exact fits included
                ms = [(s, rng.choice([0, 10, 100, -1])) for s in seq]
                if ms and ms[0][1] < 0 and max_len in ('fit', 'fit2'):
                    ms[0] = (ms[0][0], 10)
                tr, extra = K.run_find_scp(rng, pol, mid, ctx, ms, worklist, max_len)
                add(tr, extra, {'svc': 'modality_work_list_scp' if worklist else 'qr_find_scp', 'policy': str(pol), 'statuses': seq, 'max': max_len})
    for seq in seqs:
        for final in (0x0000, 0xC000, 0xFE00, 0xA700):
            for worklist in (False, True):
                mid = rng.choice(K.MIDS)
                ms = [(s, rng.choice([0, 10, 100])) for s in seq]
                tr, extra = K.run_find_scu(rng, mid, rng.choice([1, 5, 255]), ms, final, worklist)
                add(tr, extra, {'svc': 'modality_work_list_scu' if worklist else 'qr_find_scu', 'statuses': seq, 'final': final})
    # several associations of one process are served at the same time (one handler thread each): every query still gets
    # exactly its own matches
    import threading
    # the application ends its sequence with a final status of its own (failure, cancel, success): that is the one
    # final response; or it fails (event-handling error) before / while it yields
    for pol in POLICIES:
        for fin in (0x0000, 0xC000, 0xFE00, 0xA700):
            for nm in (0, 1, 3):
                ms = [(rng.choice(pend), rng.choice([0, 10, 100])) for _ in range(nm)] + [(fin, rng.choice([0, 10]))]
                tr, extra = K.run_find_scp(rng, pol, rng.choice(K.MIDS), 1, ms, bool(nm % 2), rng.choice([16384, 64]))
                add(tr, extra, {'svc': 'qr_find_scp', 'policy': str(pol), 'statuses': [m[0] for m in ms], 'final_status_from_application': fin})
                # ... and with no identifier at all (None) next to its final status (F44)
                ms = ms[:-1] + [(fin, None)]
                tr, extra = K.run_find_scp(rng, pol, rng.choice(K.MIDS), 1, ms, bool(nm % 2), rng.choice([16384, 64]))
                add(tr, extra, {'svc': 'qr_find_scp', 'policy': str(pol), 'statuses': [m[0] for m in ms], 'final_status_from_application': fin, 'identifier': None})
        for fa in (0, 1, 3):
            ms = [(rng.choice(pend), 10)] * 4
            tr, extra = K.run_find_scp(rng, pol, rng.choice(K.MIDS), 1, ms, False, 16384, fail_after=fa)
            add(tr, extra, {'svc': 'qr_find_scp', 'policy': str(pol), 'statuses': [m[0] for m in ms], 'application_fails_after': fa})
    import sys as _sys
    conc = []

    def serve(k):
        r = random.Random(7000 + k)
        for j in range(25 if tier == 'quick' else 250):
            ms = [(r.choice([0xFF00, 0xFF01]), r.choice([10, 100, 400])) for _ in range(r.choice([1, 2, 4]))]
            mid = r.choice(K.MIDS)
            try:
                tr, extra = K.run_find_scp(r, 'eager', mid, 1, ms, False, r.choice([16384, 64]))
            except Exception as exc:      # noqa
                tr, extra = None, {'raised': 'concurrent provider run raised %s: %s' % (type(exc).__name__, exc)}
            conc.append((tr, extra, {'svc': 'qr_find_scp', 'policy': 'eager', 'statuses': [m[0] for m in ms], 'concurrent_threads': 4}))
    old = _sys.getswitchinterval()
    _sys.setswitchinterval(1e-6)
    try:
        ths = [threading.Thread(target=serve, args=(k,)) for k in range(4)]
        for t in ths:
            t.start()
        for t in ths:
            t.join()
    finally:
        _sys.setswitchinterval(old)
    for tr, extra, meta in conc:
        if tr is None:
            for k, val in extra.items():
                v.report({'site': 'sopclass.qr_find_scp', 'clause': k}, '%s (%r)' % (val, meta), replay=meta)
        else:
            add(tr, extra, meta)
    # whole stack: real provider threads on both sides, the provider's responses reach the user in batches (several
    # P-DATA-TF PDUs per segment), small maximum PDU length -> every response spans many PDUs
    ws, life, n_life, lstats = whole_stack_finds(rng, 4 if tier == 'quick' else 18)
    for tr, extra, meta in ws:
        add(tr, extra, meta)
    for txt in life:
        v.report({'site': 'whole-stack', 'clause': 'association-is-a-behaviour-of-the-life-cycle-model-on-its-own'}, txt)
    res, stats = tlc.validate_traces('Trace_Services', 'Trace_Services.cfg', traces, chunk=5000)
    for tr, r, meta in zip(traces, res, metas):
        if r['ok']:
            continue
        e = tr[r['reached']] if r['reached'] < len(tr) else None
        if e and 'wire' in e:
            e = {k: x for k, x in e.items() if k != 'wire'}
        v.report({'site': 'sopclass.' + meta['svc'], 'clause': 'step-' + (e['ev'] if e else 'none'),
                  'lazy': 'eager' if meta.get('policy', 'eager') == 'eager' else 'lazy'},
                 '%s: event %d %r is not allowed by Services.tla; %r' % (meta['svc'], r['reached'], e, meta), replay=meta)
    ev = {'tier': tier, 'level': 'model_checking',
          'coverage': {'states': fresh.distinct + reuse.distinct, 'transitions': fresh.generated + reuse.generated,
                       'traces_validated_against_impl': len(traces) + n_life, 'associations_validated_against_AssocLife': n_life,
                       'life_cycle_validation_states': lstats['states'], 'result_sequences': len(seqs),
                       'schedules': [str(p) for p in POLICIES], 'samples': [traces[3], traces[-1][:4]], 'exhaustive': False},
          'assumptions': ['the c_find convenience wrapper is exercised over real sockets under C20/C15 (it needs a listening peer)']}
    return v.finish(ev)


def replay(doc):
    return main('quick')


if __name__ == '__main__':
    main_wrapper(lambda: main(sys.argv[1] if len(sys.argv) > 1 else 'quick'))
