"""C20 - concurrent associations on one application entity are isolated.

Spec: specs/MultiAssoc.tla - every interleaving of Negotiate / Request / Abort of N associations
(TLC): with per-association tables OwnAssociationOwnData and AbortIsLocal hold, with one shared table
(a class-level mutable default) OwnAssociationOwnData fails - and specs/Trace_MultiAssoc.tla, the
judge of observed rounds.
Binding: substrate S3.  N concurrent clients (threads) against ONE server entity, over socketpairs
and over loopback TCP on an ephemeral port; every client has its own data sets, maximum PDU length,
transfer syntax and an order of SOP classes that gives the same context ids a different meaning; a
barrier makes all associations overlap (all negotiated before the first request); some clients
abort in mid-conversation; message ids come from the convenience API's per-thread counter; the
c_find wrapper runs concurrently from several threads.  Per association and globally, TLC judges
what was sent, seen, answered and negotiated (Trace_MultiAssoc).
"""
from __future__ import annotations

import hashlib
import random
import sys
import threading

from . import tlc, realnet as R
from . import dsref
from .common import Verdict, main_wrapper, Machinery, seed

ae_mod, exceptions = R.applicationentity, R.exceptions
import pynetdicom2  # noqa: E402
from pynetdicom2 import sopclass as sc, statuses, dsutils, dimsemessages as dm  # noqa: E402
import pydicom  # noqa: E402
from pydicom import uid as pyuid  # noqa: E402

CT = '1.2.840.10008.5.1.4.1.1.2'
MR = '1.2.840.10008.5.1.4.1.1.4'
TSS = [pyuid.ImplicitVRLittleEndian, pyuid.ExplicitVRLittleEndian, pyuid.ExplicitVRBigEndian]
ADDR = ('multi.example', 104)


def tok(b):
    return 1 + int(hashlib.sha1(bytes(b)).hexdigest()[:7], 16) if b else 0


class Server(ae_mod.AE):
    def __init__(self, bind=False):
        super(Server, self).__init__('SRV', 0, supported_ts=TSS, max_pdu_length=16384, bind_and_activate=bind)
        self.seen = []
        self.seen_lock = threading.Lock()
        self.timeout = 60

    def on_receive_store(self, context, ds):
        raw = ds.read()
        ds.seek(0)
        f = pydicom.dcmread(ds)
        meta_len = 132 + 12 + f.file_meta.FileMetaInformationGroupLength
        inst = str(f.SOPInstanceUID)
        with self.seen_lock:
            self.seen.append({'client': str(f.PatientID), 'inst': inst, 'd': tok(raw[meta_len:]), 'ts': str(context.supported_ts),
                              'cls': str(context.sop_class),
                              'hdr': [str(f.file_meta.MediaStorageSOPInstanceUID), str(f.file_meta.MediaStorageSOPClassUID), str(f.file_meta.TransferSyntaxUID)],
                              'hdrWant': [inst, str(f.SOPClassUID), str(context.supported_ts)]})
        return statuses.Status(0xB000 if int(inst.rsplit('.', 1)[1]) % 2 else 0x0000, dm.CStoreRSPMessage)

    def on_receive_find(self, context, ds):
        who = str(ds.PatientID)
        out = []
        for i in range(2):
            r = pydicom.Dataset()
            r.PatientID = who
            r.PatientName = 'Match^%s^%d' % (who, i)
            if str(getattr(ds, 'PatientName', '')) == 'BIG':
                r.PatientComments = ('%s-%d-' % (who, i)) * 400          # responses of several thousand bytes
            out.append((r, statuses.C_FIND_PENDING))
        return iter(out)


def make_ds(client, k, sop, size):
    ds = pydicom.Dataset()
    ds.SOPClassUID = sop
    ds.SOPInstanceUID = '1.2.3.%d.%d' % (int(client[1:]) + 1, k)
    ds.PatientID = client
    ds.PatientName = 'N^' + client
    ds.PixelData = bytes((k * 13 + i + int(client[1:])) % 256 for i in range(size // 2 * 2))
    ds['PixelData'].VR = 'OW'
    return ds


def client_thread(i, remote, barrier, nstores, abort_after, results, rnd, shared_ae=None):
    client = 'C%02d' % i
    ts = TSS[i % 3] if shared_ae is None else TSS[0]
    classes = ([CT, MR] if i % 2 == 0 else [MR, CT]) if shared_ae is None else [CT, MR]   # the same context ids mean different classes
    own_max = [256, 1024, 16384, 65536][i % 4] if shared_ae is None else shared_ae.max_pdu_length
    cl = ae_mod.ClientAE(client, supported_ts=[ts], max_pdu_length=own_max).add_scu(sc.storage_scu, classes).add_scu(sc.qr_find_scu)
    cl.timeout = 60
    rec = {'client': client, 'aborted': abort_after is not None, 'error': '', 'negotiated': [], 'requests': [], 'extras': [],
           'pdus': {'maxClient': own_max, 'maxServer': 16384, 'fromServer': [], 'fromClient': []}}
    mids = []
    results[i] = (rec, mids)
    for _ in range(i * 7):                 # the per-thread counters of different threads are at different values
        mids.append(pynetdicom2._new_msg_id())
    try:
        with (shared_ae or cl).request_association(remote) as assoc:
            rec['negotiated'] = [{'ctx': v[0], 'ts': str(v[1]), 'as': str(k)} for k, v in assoc.sop_classes_as_scu.items()]
            captured = {}
            orig_receive = assoc.receive

            def receive():
                m, pc = orig_receive()
                captured['rmid'] = m.message_id_being_responded_to
                captured['rinst'] = str(getattr(m, 'affected_sop_instance_uid', ''))
                captured['pc'] = pc
                return m, pc
            assoc.receive = receive
            try:
                barrier.wait(60)
            except threading.BrokenBarrierError:
                pass
            for k in range(nstores):
                sop = classes[k % 2]
                ds = make_ds(client, rnd * 100 + k, sop, [10, 300, 2000][k % 3])
                data = dsref.encode(ds, ts.is_implicit_VR, ts.is_little_endian)
                mid = pynetdicom2._new_msg_id()
                mids.append(mid)
                rq = {'ctx': assoc.sop_classes_as_scu[sop][0], 'mid': mid, 'sentD': tok(data), 'sentInst': str(ds.SOPInstanceUID),
                      'gotD': 0, 'gotInst': '', 'gotClient': '', 'servedTs': '', 'rmid': -1, 'rinst': '', 'status': -1,
                      'expectStatus': 0xB000 if (rnd * 100 + k) % 2 else 0, 'answered': False}
                rec['requests'].append(rq)
                if abort_after is not None and k == abort_after:
                    raise RuntimeError('client gives up in mid-conversation')
                st = assoc.get_scu(sop)(ds, mid)
                rq['status'] = int(st)
                rq['rmid'] = captured.get('rmid', -1)
                rq['rinst'] = captured.get('rinst', '')
                rq['answered'] = True
                if shared_ae is not None and k == i % nstores:
                    import time
                    time.sleep(0.05 * (i % 3))      # staggered, non-LIFO exits of associations of ONE requesting entity
            if shared_ae is None:
                # a query on the same association whose responses are much larger than small clients' maximum
                q = pydicom.Dataset()
                q.PatientID = client
                q.PatientName = 'BIG'
                try:
                    got = list(assoc.get_scu(sc.PATIENT_ROOT_FIND_SOP_CLASS)(q, pynetdicom2._new_msg_id()))
                    owners = {str(d.PatientID) for d, st in got if d is not None}
                    npend = len([1 for d, st in got if st.is_pending])
                    if owners != {client} or npend != 2 or len(got) != 3:
                        rec['extras'].append('C-FIND on this association: owners %s, %d pending of %d responses' % (sorted(owners), npend, len(got)))
                    elif any(client not in str(d.PatientComments) for d, st in got if d is not None):
                        rec['extras'].append('C-FIND responses carry another content')
                except Exception as exc:      # noqa
                    rec['extras'].append('C-FIND on this association raised %s: %s' % (type(exc).__name__, exc))
    except RuntimeError:
        pass
    except Exception as exc:      # noqa
        rec['error'] = '%s: %s' % (type(exc).__name__, exc)


def find_thread(i, remote, results):
    client = 'F%02d' % i
    q = pydicom.Dataset()
    q.PatientID = client
    q.PatientName = ''
    rec = {'client': client, 'aborted': False, 'error': '', 'negotiated': [{'ctx': 1, 'ts': 'any', 'as': 'find'}], 'requests': [], 'extras': [],
           'pdus': {'maxClient': 0, 'maxServer': 0, 'fromServer': [], 'fromClient': []}}
    mids = []
    results[i] = (rec, mids)
    try:
        for rep in range(2):
            got = list(pynetdicom2.c_find(remote, client, q))
            mids.append(getattr(pynetdicom2._tls, 'msg_id', None))
            owners = {str(ds.PatientID) for ds, st in got if ds is not None}
            npend = len([1 for ds, st in got if st.is_pending])
            rec['requests'].append({'ctx': 1, 'mid': rep, 'sentD': tok(client.encode()), 'sentInst': client, 'gotD': tok(client.encode()) if owners == {client} else 1,
                                    'gotInst': client if npend == 2 and len(got) == 3 else 'count-%d-%d' % (npend, len(got)),
                                    'gotClient': client if owners == {client} else ','.join(sorted(owners)), 'servedTs': 'any', 'rmid': rep, 'rinst': client,
                                    'status': int(got[-1][1]) if got else -1, 'expectStatus': 0, 'answered': bool(got)})
    except Exception as exc:      # noqa
        rec['error'] = '%s: %s' % (type(exc).__name__, exc)


def one_round(n, rnd, rng, tcp, shared=False):
    srv = Server(bind=tcp)
    srv.add_scp(sc.storage_scp).add_scp(sc.verification_scp).add_scp(sc.qr_find_scp)
    results = {}
    nfind = max(2, n // 4)
    barrier = threading.Barrier(n)
    aborters = set(rng.sample(range(n), max(1, n // 4)))

    shared_ae = None
    if shared:
        # ONE entity requesting several associations at once, from several threads
        shared_ae = ae_mod.ClientAE('C00', supported_ts=[TSS[0]], max_pdu_length=4096).add_scu(sc.storage_scu, [CT, MR])
        shared_ae.timeout = 60

    def run(remote):
        ths = []
        for i in range(n):
            ab = rng.choice([0, 1]) if i in aborters else None
            ths.append(threading.Thread(target=client_thread, args=(i, remote, barrier, 3, ab, results, rnd, shared_ae), daemon=True))
        for i in range(nfind):
            ths.append(threading.Thread(target=find_thread, args=(100 + i, remote, results), daemon=True))
        for t in ths:
            t.start()
        for t in ths:
            t.join(180)
        return all(not t.is_alive() for t in ths)
    if tcp:
        with srv:
            port = srv.server_address[1]
            finished = run({'aet': 'SRV', 'address': '127.0.0.1', 'port': port})
        import time
        time.sleep(0.5)
    else:
        srv.server_close() if hasattr(srv, 'socket') else None
        with R.Net() as net:
            net.register(ADDR, srv)
            if shared:
                # the shared requesting entity also talks to ANOTHER peer, which refuses one of the classes it proposes:
                # once before the round and again and again while the round runs.  What that peer refuses concerns the
                # associations with THAT peer only.
                limited = Server()
                try:
                    limited.server_close()
                except Exception:      # noqa
                    pass

                class _OnlyCt(object):
                    sop_classes = [CT]
                    store_in_file = True

                    def __call__(self, *a):
                        return sc.storage_scp(*a)
                limited.add_scp(_OnlyCt())
                net.register(('limited.example', 104), limited)
                lim_remote = {'aet': 'LIM', 'address': 'limited.example', 'port': 104}
                lim_stop = threading.Event()
                lim_rec = {'client': 'C00', 'aborted': False, 'error': '', 'negotiated': [], 'requests': [], 'extras': [],
                           'pdus': {'maxClient': 0, 'maxServer': 0, 'fromServer': [], 'fromClient': []}}

                def with_limited(once=False):
                    while True:
                        try:
                            with shared_ae.request_association(lim_remote) as la:
                                got = sorted(str(k) for k in la.sop_classes_as_scu)
                                if got != [CT]:
                                    lim_rec['extras'].append('the peer serving only %s accepted %r' % (CT, got))
                        except Exception as exc:      # noqa
                            lim_rec['extras'].append('association with the peer that refuses a class raised %s: %s' % (type(exc).__name__, exc))
                        if once or lim_stop.wait(0.02):
                            return
                with_limited(once=True)
                lim_thread = threading.Thread(target=with_limited, daemon=True)
                lim_thread.start()
            # a peer that has connected but not (yet) sent its A-ASSOCIATE-RQ: the other associations of the entity
            # must not wait for it
            stalled, stalled_link = R.raw_client(srv)
            import time as _time
            t0 = _time.time()
            finished = run({'aet': 'SRV', 'address': ADDR[0], 'port': ADDR[1]})
            took = _time.time() - t0
            if shared:
                lim_stop.set()
                lim_thread.join(60)
                lim_rec['extras'] = lim_rec['extras'][:3]
                results[-1] = (lim_rec, [])
            try:
                stalled.close()
            except OSError:
                pass
            net.wait_all(60)
            NETS.append(net)
            if took > 30:
                for rec, _ in results.values():
                    rec['extras'].append('the round took %.0f s while one connected peer had not sent its request yet (the entity serves %d others)' % (took, n))
                    break
            by_client = {rec['client']: rec for rec, _ in results.values()}
            for link in net.links:
                r_pdus = R.pdus_of(link['log'], 'R')
                if not r_pdus or r_pdus[0]['k'] != 'RQ' or shared:
                    continue
                who = r_pdus[0]['calling'].rstrip(b' \0').decode('latin-1')
                if who in by_client:
                    pd = by_client[who]['pdus']
                    pd['fromClient'] += [sum(4 + 1 + len(x['val']) for x in p['pdvs']) for p in r_pdus if p['k'] == 'PD']
                    pd['fromServer'] += [sum(4 + 1 + len(x['val']) for x in p['pdvs']) for p in R.pdus_of(link['log'], 'A') if p['k'] == 'PD']
    seen = {s['inst']: s for s in srv.seen}
    cases = []
    sent_ok, all_sent, threads = [], [], []
    for i, (rec, mids) in sorted(results.items()):
        for rq in rec['requests']:
            if rec['client'].startswith('C'):
                s = seen.get(rq['sentInst'])
                if s:
                    rq['gotD'], rq['gotInst'], rq['gotClient'], rq['servedTs'] = s['d'], s['inst'], s['client'], s['ts']
                    rec.setdefault('headers', []).append({'got': s['hdr'], 'want': s['hdrWant']})
                all_sent.append({'client': rec['client'], 'inst': rq['sentInst']})
                if not rec['aborted']:
                    sent_ok.append({'client': rec['client'], 'inst': rq['sentInst']})
        threads.append([m for m in mids if m is not None])
        cases.append({'kind': 'assoc', 'a': rec})
    if rnd == 0 and not tcp:
        # a long-lived thread of the application: far more message ids than one association ever needs
        drawn = []
        t = threading.Thread(target=lambda: drawn.extend(pynetdicom2._new_msg_id() for _ in range(70000)))
        t.start()
        t.join(60)
        threads.append(drawn)
    cases.append({'kind': 'global', 'g': {'sent': sent_ok, 'allSent': all_sent,
                                          'seen': [{'client': s['client'], 'inst': s['inst']} for s in srv.seen], 'threads': threads}})
    return cases, finished


def quit_round(n, rnd, rng):
    """The server life-cycle of MultiAssoc.tla (QuitBegin / QuitEnd) against the real entity on loopback TCP: AE.quit() is
    called while n associations are established and before any of them has sent a request.  Every request of every
    association is then served in the model's "closing" state and is judged by the same per-association clauses as in
    any other round (QuitIsLocal: stopping the listener touches no association in flight).  When quit() returned relative
    to the associations' ends, and whether a connection was still accepted afterwards, are recorded as observations
    (they are the standard library's ThreadingMixIn, not a listed property; with the entity's daemon_threads = True quit() does
    not wait for the associations in flight, which is what the model says too)."""
    import socket as _s
    import time as _time

    class QServer(Server):
        def shutdown(self):
            super(QServer, self).shutdown()
            self.listener_stopped.set()
    srv = QServer(bind=True)
    srv.listener_stopped = threading.Event()
    srv.add_scp(sc.storage_scp).add_scp(sc.verification_scp).add_scp(sc.qr_find_scp)
    results = {}
    obs = {'quit_returned': None, 'clients_done': None, 'listener_stopped_before_first_request': False, 'accepted_after_quit': None}

    def quitter():
        srv.quit()
        obs['quit_returned'] = _time.time()
    qt = threading.Thread(target=quitter, daemon=True)

    def begin_quit():            # runs in ONE client thread when all n associations are established, before any request
        qt.start()
        obs['listener_stopped_before_first_request'] = srv.listener_stopped.wait(30)
    barrier = threading.Barrier(n, action=begin_quit)
    srv.__enter__()
    port = srv.server_address[1]
    remote = {'aet': 'SRV', 'address': '127.0.0.1', 'port': port}
    ths = [threading.Thread(target=client_thread, args=(i, remote, barrier, 3, None, results, rnd), daemon=True) for i in range(n)]
    for t in ths:
        t.start()
    for t in ths:
        t.join(180)
    obs['clients_done'] = _time.time()
    finished = all(not t.is_alive() for t in ths)
    qt.join(60)
    finished = finished and not qt.is_alive()
    if not qt.is_alive():
        c = _s.socket()
        c.settimeout(2)
        try:
            c.connect(('127.0.0.1', port))
            obs['accepted_after_quit'] = True
        except OSError:
            obs['accepted_after_quit'] = False
        finally:
            c.close()
    else:
        srv.quit()
    QUIT_OBS.append({'round': rnd, 'clients': n, 'listener_stopped_before_first_request': obs['listener_stopped_before_first_request'],
                     'quit_returned_after_last_client_s': None if obs['quit_returned'] is None else round(obs['quit_returned'] - obs['clients_done'], 3),
                     'accepted_after_quit': obs['accepted_after_quit']})
    seen = {s['inst']: s for s in srv.seen}
    cases, sent_ok, all_sent, threads = [], [], [], []
    for i, (rec, mids) in sorted(results.items()):
        if not obs['listener_stopped_before_first_request']:
            rec['extras'].append('the accept loop had not stopped 30 s after AE.quit() was called')
        for rq in rec['requests']:
            s = seen.get(rq['sentInst'])
            if s:
                rq['gotD'], rq['gotInst'], rq['gotClient'], rq['servedTs'] = s['d'], s['inst'], s['client'], s['ts']
                rec.setdefault('headers', []).append({'got': s['hdr'], 'want': s['hdrWant']})
            all_sent.append({'client': rec['client'], 'inst': rq['sentInst']})
            sent_ok.append({'client': rec['client'], 'inst': rq['sentInst']})
        threads.append([m for m in mids if m is not None])
        cases.append({'kind': 'assoc', 'a': rec})
    cases.append({'kind': 'global', 'g': {'sent': sent_ok, 'allSent': all_sent,
                                          'seen': [{'client': s['client'], 'inst': s['inst']} for s in srv.seen], 'threads': threads}})
    return cases, finished


QUIT_OBS = []


def header_stress(rnd, seconds, nthreads=6):
    """The entity's reception path for file-backed storage (AE.get_file: what every association's provider thread
    calls when the first fragment of a C-STORE data set arrives) called from several threads at once, each for its own
    class / instance / negotiated syntax, with a very short thread switch interval.  One record per thread."""
    import sys
    import time as _t
    from pydicom.filereader import read_preamble, _read_file_meta_info
    srv = Server()
    try:
        srv.server_close()
    except Exception:      # noqa
        pass
    classes = [CT, MR, '1.2.840.10008.5.1.4.1.1.7']
    recs = {}
    barrier = threading.Barrier(nthreads)
    stop_at = [None]

    def one(i):
        cls, ts = classes[i % 3], TSS[(i // 2) % 3]
        ctx = R.asceprovider.PContextDef(1 + 2 * i, pydicom.uid.UID(cls), ts)
        rec = {'client': 'H%02d' % i, 'aborted': False, 'error': '', 'negotiated': [{'ctx': ctx.id, 'ts': str(ts), 'as': cls}], 'requests': [], 'extras': [],
               'pdus': {'maxClient': 0, 'maxServer': 0, 'fromServer': [], 'fromClient': []}, 'headers': [], 'receptions': 0}
        recs[i] = rec
        try:
            barrier.wait(20)
        except threading.BrokenBarrierError:
            pass
        k = 0
        try:
            while _t.time() < stop_at[0] and len(rec['headers']) < 3:
                k += 1
                inst = '1.2.3.%d.%d.%d' % (rnd, i + 1, k)
                cmd = pydicom.Dataset()
                cmd.AffectedSOPClassUID = cls
                cmd.AffectedSOPInstanceUID = inst
                fp, start = srv.get_file(ctx, cmd)
                try:
                    fp.seek(0)
                    read_preamble(fp, False)
                    m = _read_file_meta_info(fp)
                    got = [str(m.MediaStorageSOPInstanceUID), str(m.MediaStorageSOPClassUID), str(m.TransferSyntaxUID)]
                finally:
                    fp.close()
                rec['receptions'] = k
                if got != [inst, cls, str(ts)]:
                    rec['headers'].append({'got': got, 'want': [inst, cls, str(ts)]})
        except Exception as exc:      # noqa
            rec['error'] = '%s: %s' % (type(exc).__name__, exc)
    old = sys.getswitchinterval()
    sys.setswitchinterval(1e-5)
    try:
        stop_at[0] = _t.time() + seconds
        ths = [threading.Thread(target=one, args=(i,), daemon=True) for i in range(nthreads)]
        for t in ths:
            t.start()
        for t in ths:
            t.join(seconds + 30)
    finally:
        sys.setswitchinterval(old)
    return [{'kind': 'assoc', 'a': recs[i]} for i in sorted(recs)], all(not t.is_alive() for t in ths)


DEST_ADDR = ('dest.example', 104)
NETS = []          # the simulated networks of the rounds played (for the life-cycle validation of every association)


def move_round(n, rnd, rng):
    """N clients ask ONE archive entity to move their own instances to ONE destination entity at the same time: the
    archive serves N retrieve associations and requests N storage associations at once."""
    archive = Server()
    archive.add_scp(sc.qr_move_scp)
    archive.add_scu(sc.storage_scu, [CT])
    dest = Server()
    dest.add_scp(sc.storage_scp)
    dest_remote = {'aet': 'SRV', 'address': DEST_ADDR[0], 'port': DEST_ADDR[1]}
    nsub = 3

    def on_receive_move(context, ds, destination):
        who = str(ds.PatientID)
        insts = [make_ds(who, rnd * 100 + 50 + k, CT, [10, 300, 2000][k % 3]) for k in range(nsub)]
        return dest_remote, nsub, iter(insts)
    archive.on_receive_move = on_receive_move
    results = {}
    barrier = threading.Barrier(n)

    def client(i):
        name = 'C%02d' % i
        cl = ae_mod.ClientAE(name, supported_ts=[TSS[i % 3]], max_pdu_length=[1024, 16384][i % 2]).add_scu(sc.qr_move_scu)
        cl.timeout = 60
        rec = {'client': name, 'aborted': False, 'error': '', 'negotiated': [], 'requests': [], 'extras': [],
               'pdus': {'maxClient': 0, 'maxServer': 0, 'fromServer': [], 'fromClient': []}}
        results[i] = (rec, [])
        try:
            with cl.request_association({'aet': 'SRV', 'address': ADDR[0], 'port': ADDR[1]}) as assoc:
                q = pydicom.Dataset()
                q.PatientID = name
                q.QueryRetrieveLevel = 'PATIENT'
                try:
                    barrier.wait(60)
                except threading.BrokenBarrierError:
                    pass
                mid = 100 + i
                got = list(assoc.get_scu(sc.PATIENT_ROOT_MOVE_SOP_CLASS)(q, 'DEST', mid))
                pend = [(r.num_of_completed_sub_ops, r.num_of_remaining_sub_ops) for st, r in got if st.is_pending]
                fin = [(int(st), r.num_of_completed_sub_ops, r.num_of_remaining_sub_ops) for st, r in got if not st.is_pending]
                if pend != [(k + 1, nsub - k - 1) for k in range(nsub)] or len(fin) != 1 or fin[0][1:] != (nsub, 0):
                    rec['extras'].append('C-MOVE progress on this association: pending %s final %s' % (pend, fin))
                if any(r.message_id_being_responded_to != mid for st, r in got):
                    rec['extras'].append('C-MOVE responses answer another message id')
        except Exception as exc:      # noqa
            rec['error'] = '%s: %s' % (type(exc).__name__, exc)
    with R.Net() as net:
        net.register(ADDR, archive)
        net.register(DEST_ADDR, dest)
        ths = [threading.Thread(target=client, args=(i,), daemon=True) for i in range(n)]
        for t in ths:
            t.start()
        for t in ths:
            t.join(120)
        finished = all(not t.is_alive() for t in ths)
        net.wait_all(60)
        NETS.append(net)
    cases = [{'kind': 'assoc', 'a': rec} for _, (rec, _) in sorted(results.items())]
    expected = [{'client': 'C%02d' % i, 'inst': '1.2.3.%d.%d' % (i + 1, rnd * 100 + 50 + k)} for i in range(n) for k in range(nsub)]
    cases.append({'kind': 'global', 'g': {'sent': expected, 'allSent': expected,
                                          'seen': [{'client': x['client'], 'inst': x['inst']} for x in dest.seen], 'threads': []}})
    return cases, finished


def same_uid_round(n, rnd, rng, concurrent):
    """N clients store THEIR OWN data set under ONE SOP Instance UID into one directory-backed entity - at the same
    time (barrier) or one after the other.  Every one of them must end up in its own readable file."""
    import os
    import shutil
    import tempfile
    d = tempfile.mkdtemp(prefix='c20dir_')
    srv = pynetdicom2.StorageAE(d, 'SRV', 0, supported_ts=TSS, max_pdu_length=16384)
    try:
        srv.server_close()
    except Exception:      # noqa
        pass
    srv.add_scp(sc.storage_scp)
    srv.on_receive_store = lambda context, ds: statuses.SUCCESS
    srv.timeout = 60
    uid = '1.2.3.4.5.%d' % (7000 + rnd)
    barrier = threading.Barrier(n)
    lock = threading.Lock()
    results = {}

    def client(i):
        name = 'C%02d' % i
        cl = ae_mod.ClientAE(name, supported_ts=[TSS[i % 3]], max_pdu_length=[1024, 16384][i % 2]).add_scu(sc.storage_scu, [CT])
        cl.timeout = 60
        rec = {'client': name, 'aborted': False, 'error': '', 'negotiated': [], 'requests': [], 'extras': [],
               'pdus': {'maxClient': 0, 'maxServer': 0, 'fromServer': [], 'fromClient': []}}
        results[i] = rec
        ds = make_ds(name, 7, CT, 40 + 20 * i)
        ds.SOPInstanceUID = uid
        try:
            with cl.request_association({'aet': 'SRV', 'address': ADDR[0], 'port': ADDR[1]}) as assoc:
                try:
                    barrier.wait(60)
                except threading.BrokenBarrierError:
                    pass
                if concurrent:
                    st = assoc.get_scu(CT)(ds, 1)
                else:
                    with lock:
                        st = assoc.get_scu(CT)(ds, 1)
                if int(st) != 0:
                    rec['extras'].append('store answered with status %#x' % int(st))
        except Exception as exc:      # noqa
            rec['error'] = '%s: %s' % (type(exc).__name__, exc)
    try:
        with R.Net() as net:
            net.register(ADDR, srv)
            ths = [threading.Thread(target=client, args=(i,), daemon=True) for i in range(n)]
            for t in ths:
                t.start()
            for t in ths:
                t.join(120)
            finished = all(not t.is_alive() for t in ths)
            net.wait_all(60)
            NETS.append(net)
        seen = []
        for f in sorted(os.listdir(d)):
            try:
                seen.append({'client': str(pydicom.dcmread(os.path.join(d, f)).PatientID), 'inst': uid})
            except Exception:      # noqa
                seen.append({'client': 'unreadable:' + f, 'inst': uid})
    finally:
        shutil.rmtree(d, ignore_errors=True)
    cases = [{'kind': 'assoc', 'a': rec} for _, rec in sorted(results.items())]
    expected = [{'client': 'C%02d' % i, 'inst': uid} for i in range(n)]
    cases.append({'kind': 'global', 'g': {'sent': expected, 'allSent': expected, 'seen': seen, 'threads': []}})
    return cases, finished


def commitment_round(n, rnd, rng):
    """N requesting entities (each also a provider for the reports) ask ONE archive for storage commitment, two requests
    back to back on the same association; the archive answers each on its own association and reports to each
    requester on a new association to THAT requester."""
    COMMIT = sc.STORAGE_COMMITMENT_SOP_CLASS

    class Node(ae_mod.AE):
        def __init__(self, title, addr):
            super(Node, self).__init__(title, 0, supported_ts=TSS, max_pdu_length=16384, bind_and_activate=False)
            self.addr = addr
            self.reports = []
            self.lock = threading.Lock()
            self.timeout = 30
            self.directory = {}

        def on_commitment_request(self, remote_ae, uids):
            who = remote_ae.decode() if isinstance(remote_ae, bytes) else str(remote_ae)
            return self.directory[who.strip()], list(uids), None

        def on_commitment_response(self, transaction_uid, success, failure):
            with self.lock:
                self.reports.append((str(transaction_uid), [tuple(map(str, x)) for x in success]))
    archive = Node('SRV', ADDR)
    archive.add_scp(sc.StorageCommitment()).add_scu(sc.storage_commitment_scu)
    clients = []
    for i in range(n):
        c = Node('C%02d' % i, ('client%d.example' % i, 104))
        c.add_scp(sc.StorageCommitment()).add_scu(sc.storage_commitment_scu)
        archive.directory['C%02d' % i] = {'aet': 'C%02d' % i, 'address': c.addr[0], 'port': c.addr[1]}
        clients.append(c)
    results = {}
    barrier = threading.Barrier(n)

    def client(i):
        me = clients[i]
        rec = {'client': 'C%02d' % i, 'aborted': False, 'error': '', 'negotiated': [], 'requests': [], 'extras': [],
               'pdus': {'maxClient': 0, 'maxServer': 0, 'fromServer': [], 'fromClient': []}}
        results[i] = rec
        try:
            with me.request_association({'aet': 'SRV', 'address': ADDR[0], 'port': ADDR[1]}) as assoc:
                svc = assoc.get_scu(COMMIT)
                try:
                    barrier.wait(60)
                except threading.BrokenBarrierError:
                    pass
                for k in range(2):
                    uids = [(CT, '1.2.3.%d.%d.%d' % (i + 1, rnd, 10 * k + j)) for j in range(2)]
                    st = svc('1.2.3.999.%d.%d.%d' % (i + 1, rnd, k), uids, 30 + k)
                    if int(st) != 0:
                        rec['extras'].append('N-ACTION #%d answered with status %#x' % (k + 1, int(st)))
        except Exception as exc:      # noqa
            rec['error'] = '%s: %s' % (type(exc).__name__, exc)
    with R.Net() as net:
        net.register(ADDR, archive)
        for c in clients:
            net.register(c.addr, c)
        ths = [threading.Thread(target=client, args=(i,), daemon=True) for i in range(n)]
        for t in ths:
            t.start()
        for t in ths:
            t.join(120)
        finished = all(not t.is_alive() for t in ths)
        net.wait_all(60)
        NETS.append(net)
    for i, c in enumerate(clients):
        want = sorted(('1.2.3.999.%d.%d.%d' % (i + 1, rnd, k), [(CT, '1.2.3.%d.%d.%d' % (i + 1, rnd, 10 * k + j)) for j in range(2)]) for k in range(2))
        if sorted(c.reports) != want and not results[i]['error']:
            results[i]['extras'].append('commitment reports received by this requester: %r, expected its own two: %r' % (sorted(c.reports), want))
    return [{'kind': 'assoc', 'a': rec} for _, rec in sorted(results.items())], finished


def main(tier='quick'):
    v = Verdict('C20', tier)
    rng = random.Random(seed())
    mcs = []
    own = tlc.run('MultiAssocDefs', 'MultiAssoc_own.cfg', workers=4)
    shared_mc = tlc.run('MultiAssocDefs', 'MultiAssoc_shared.cfg', workers=4)
    if not own.ok or 'OwnAssociationOwnData' not in shared_mc.violated:
        raise Machinery('MultiAssoc.tla: expected isolation to hold with own tables and fail with a shared one')
    vac = tlc.run('MultiAssocDefs', 'MultiAssoc_vacuity.cfg', workers=4)
    if 'NoRequestWhileClosing' not in vac.violated:
        raise Machinery('MultiAssoc.tla: no request is served while the server is closing - the quit properties would be vacuous')
    plan = [(8, False, False), (8, True, False), (6, False, True)] if tier == 'quick' else \
        [(16, False, False)] * 6 + [(32, False, False)] * 2 + [(16, True, False)] * 4 + [(48, True, False)] + [(8, False, True)] * 4 + [(8, True, True)] * 2
    cases = []
    from . import lifetap
    del NETS[:]
    tap = lifetap.LifeTap()
    tap.__enter__()
    try:
        cases = rounds(v, plan, rng, tier)
    finally:
        tap.__exit__(None, None, None)
    # every association of every round, on its own: its three logs must be a behaviour of AssocLife.tla - whatever the
    # other associations of the entity were doing at the time
    obs = [o for n in NETS for o in tap.cases(n) if o['library_acceptor']]
    lres, lstats = lifetap.validate(obs)
    for o, r in zip(obs, lres):
        if not r[0]:
            v.report({'site': 'whole-stack', 'clause': 'association-is-a-behaviour-of-the-life-cycle-model-on-its-own', 'why': (r[1] or ['unexplained'])[0]},
                     '%s (matched %d of %d): requesting thread %s | accepting thread %s | requestor wrote %s | acceptor wrote %s' % (
                         ', '.join(r[1]) or 'no behaviour of AssocLife explains the observation', r[2], r[3],
                         [(e['ev'], e.get('res'), e.get('f'), e.get('r')) for e in o['rq']][:30], [(e['ev'], e.get('res'), e.get('f'), e.get('r')) for e in o['ac']][:30],
                         [(x['k'], x['f']) for x in o['r2a']][:30], [(x['k'], x['f']) for x in o['a2r']][:30]))
    return finish_main(v, tier, own, shared_mc, plan, cases, len(obs), lstats)


def rounds(v, plan, rng, tier):
    cases = []
    for rnd, (n, tcp, shared) in enumerate(plan):
        cs, finished = one_round(n, rnd, rng, tcp, shared)
        if not finished:
            v.report({'site': 'whole-stack', 'clause': 'round-did-not-finish'}, 'a client thread did not finish within 180 s (round %d, %d clients, tcp=%s)' % (rnd, n, tcp))
        for c in cs:
            c['round'] = rnd
        cases.extend(cs)
    for k, conc in enumerate([False, True, True, True] if tier == 'quick' else [False] * 3 + [True] * 30):
        cs, finished = same_uid_round(4 if not conc else 6, 50 + k, rng, conc)
        if not finished:
            v.report({'site': 'whole-stack', 'clause': 'round-did-not-finish'}, 'a client storing under a shared instance UID did not finish within 120 s')
        for c in cs:
            c['round'] = 50 + k
        cases.extend(cs)
    del QUIT_OBS[:]
    for k in range(1 if tier == 'quick' else 6):
        cs, finished = quit_round(6 if tier == 'quick' else 12, 40 + k, rng)
        if not finished:
            v.report({'site': 'whole-stack', 'clause': 'round-did-not-finish'},
                     'associations in flight when AE.quit() was called did not all finish within 180 s, or quit() had not returned 60 s after the last of them ended')
        for c in cs:
            c['round'] = 40 + k
        cases.extend(cs)
    cs, finished = header_stress(90, 2.0 if tier == 'quick' else 20.0)
    if not finished:
        v.report({'site': 'applicationentity.get_file', 'clause': 'round-did-not-finish'}, 'concurrent receptions into files did not finish')
    for c in cs:
        c['round'] = 90
    cases.extend(cs)
    for k in range(1 if tier == 'quick' else 5):
        cs, finished = commitment_round(3 if tier == 'quick' else 6, 70 + k, rng)
        if not finished:
            v.report({'site': 'whole-stack', 'clause': 'round-did-not-finish'}, 'a storage-commitment requester did not finish within 120 s')
        for c in cs:
            c['round'] = 70 + k
        cases.extend(cs)
    for k in range(1 if tier == 'quick' else 6):
        cs, finished = move_round(4 if tier == 'quick' else 8, len(plan) + k, rng)
        if not finished:
            v.report({'site': 'whole-stack', 'clause': 'round-did-not-finish'}, 'a C-MOVE client did not finish within 120 s')
        for c in cs:
            c['round'] = len(plan) + k
        cases.extend(cs)
    return cases


def finish_main(v, tier, own, shared_mc, plan, cases, n_life, lstats):
    for c in cases:
        if c['kind'] == 'assoc':
            c['a'].setdefault('headers', [])
    res, stats = tlc.validate_traces('Trace_MultiAssoc', 'Trace_MultiAssoc.cfg', [[c] for c in cases], chunk=5000)
    for c, r in zip(cases, res):
        if r['reached'] != 1:
            raise Machinery('case not judged')
        for clause in (r['bad_inv'] or []):
            what = c['a'] if c['kind'] == 'assoc' else {k: (x if k == 'threads' else len(x)) for k, x in c['g'].items()}
            v.report({'site': 'whole-stack', 'clause': clause}, '%s (round %d): %s' % (clause, c['round'], str(what)[:700]), replay={'round': c['round']})
    ev = {'tier': tier, 'level': 'model_checking',
          'coverage': {'states': own.distinct + shared_mc.distinct, 'transitions': own.generated + shared_mc.generated,
                       'traces_validated_against_impl': len(cases) + n_life, 'associations_validated_against_AssocLife': n_life,
                       'life_cycle_validation_states': lstats['states'], 'rounds': len(plan), 'clients_per_round': [p[0] for p in plan], 'rounds_with_one_shared_requesting_entity': len([p for p in plan if p[2]]),
                       'associations_observed': len([c for c in cases if c['kind'] == 'assoc']),
                       'server_quit_with_associations_in_flight': list(QUIT_OBS),
                       'model_properties': ['OwnAssociationOwnData', 'AbortIsLocal', 'QuitIsLocal', 'NoNewAssociationAfterQuit',
                                            'NoRequestWhileClosing (non-vacuity: violated as expected)'],
                       'samples': [cases[0]], 'exhaustive': False},
          'assumptions': ['real threads: the OS chooses the interleavings; a barrier guarantees that all associations of a round overlap',
                          'wall-clock limits (60-180 s) are > 100x typical durations']}
    return v.finish(ev)


def replay(doc):
    return main('quick')


if __name__ == '__main__':
    main_wrapper(lambda: main(sys.argv[1] if len(sys.argv) > 1 else 'quick'))
